(* Model of schema construction in graphql-go: the constructors of
   definition.go with their parked errors, NewSchema / typeMapReducer /
   AppendType / AddImplementation / assertObjectImplementsInterface /
   isTypeSubTypeOf / isEqualType of schema.go.  No proofs here.

   A configuration is what the user hands to the constructors.  Go pointers
   to named types are ids; List/NonNull wrappers are structural.  Thunks are
   not visible: a thunk is evaluated once, on first access, and its result is
   what the configuration says (the harness builds thunks and plain values
   alike from the same data).  Go maps are association lists in key order. *)
From Coq Require Import List NArith Bool String.
From GQL Require Import Base.Bytes.
Import ListNotations.
Open Scope N_scope.

Definition name := bytes.
Definition s (x : string) : name := of_string x.

Inductive tref :=
| TNil                      (* a nil Type value *)
| TNamed (id : N)
| TList (t : tref)          (* graphql.NewList(t) *)
| TNonNull (t : tref).      (* graphql.NewNonNull(t) *)

Inductive argcfg := ArgNil | ArgOf (t : tref).
Inductive fieldcfg := FieldNil | FieldOf (t : tref) (args : list (name * argcfg)).
Inductive ifieldcfg := IFieldNil | IFieldOf (t : tref).
(* a config slot of Go type interface{}: nil, the slice (or a thunk returning it), a value of another type *)
Inductive refs := RNone | RList (l : list (option N)) | RBad.

Inductive tdef :=
| DScalar (n : name) (serialize parse_value parse_literal : bool)
| DObject (n : name) (interfaces : refs) (fields : list (name * fieldcfg)) (is_type_of : bool)
| DInterface (n : name) (fields : list (name * fieldcfg)) (resolve_type : bool)
| DUnion (n : name) (types : refs) (resolve_type : bool)
| DEnum (n : name) (values : list (name * bool))      (* false: nil *EnumValueConfig *)
| DInput (n : name) (fields : list (name * ifieldcfg)).

Inductive dircfg := DirOk | DirNil | DirErr.

Record config := Cfg {
  c_defs : list (N * tdef);
  c_query : option N; c_mutation : option N; c_subscription : option N;
  c_types : list tref;
  c_dirs : list dircfg }.

Inductive res (A : Type) := OK (a : A) | Err | OutOfFuel.
Arguments OK {A} a. Arguments Err {A}. Arguments OutOfFuel {A}.

(* ---------- names: /^[_a-zA-Z][_a-zA-Z0-9]*$/ ---------- *)
Definition is_letter_ (c : N) : bool :=
  (c =? 95) || ((65 <=? c) && (c <=? 90)) || ((97 <=? c) && (c <=? 122)).
Definition is_digit (c : N) : bool := (48 <=? c) && (c <=? 57).
Definition valid_name (n : name) : bool :=
  match n with
  | [] => false
  | c :: r => is_letter_ c && forallb (fun c => is_letter_ c || is_digit c) r
  end.

(* ---------- lookups ---------- *)
Fixpoint find_def (defs : list (N * tdef)) (id : N) : option tdef :=
  match defs with
  | [] => None
  | (i, d) :: r => if i =? id then Some d else find_def r id
  end.

Definition def_name (d : tdef) : name :=
  match d with
  | DScalar n _ _ _ | DObject n _ _ _ | DInterface n _ _ | DUnion n _ _ | DEnum n _ | DInput n _ => n
  end.

Inductive kind := KScalar | KObject | KInterface | KUnion | KEnum | KInput.
Definition kind_of (d : tdef) : kind :=
  match d with
  | DScalar _ _ _ _ => KScalar | DObject _ _ _ _ => KObject | DInterface _ _ _ => KInterface
  | DUnion _ _ _ => KUnion | DEnum _ _ => KEnum | DInput _ _ => KInput
  end.
Definition is_input_kind (k : kind) : bool :=
  match k with KScalar | KEnum | KInput => true | _ => false end.
Definition is_output_kind (k : kind) : bool :=
  match k with KInput => false | _ => true end.

(* ---------- wrappers ---------- *)
(* The Go value built for a reference: NewNonNull of a NonNull (or of nil) and
   NewList of nil give a wrapper with a parked error and OfType = nil. *)
Fixpoint norm (t : tref) : tref :=
  match t with
  | TNil => TNil
  | TNamed i => TNamed i
  | TList t' => TList (norm t')
  | TNonNull t' => match norm t' with TNonNull _ => TNonNull TNil | u => TNonNull u end
  end.

(* GetNamed *)
Fixpoint get_named (t : tref) : option N :=
  match t with
  | TNil => None
  | TNamed i => Some i
  | TList t' | TNonNull t' => get_named t'
  end.

Definition is_input_type (defs : list (N * tdef)) (t : tref) : bool :=
  match get_named t with
  | Some i => match find_def defs i with Some d => is_input_kind (kind_of d) | None => false end
  | None => false
  end.
Definition is_output_type (defs : list (N * tdef)) (t : tref) : bool :=
  match get_named t with
  | Some i => match find_def defs i with Some d => is_output_kind (kind_of d) | None => false end
  | None => false
  end.

(* ---------- constructors: the error parked by NewScalar/NewObject/... ---------- *)
Definition enum_values_err (vs : list (name * bool)) : bool :=
  match vs with
  | [] => true
  | _ => existsb (fun v => negb (snd v) || negb (valid_name (fst v))) vs
  end.

Definition ctor_err (d : tdef) : bool :=
  match d with
  | DScalar n ser pv pl => negb (valid_name n) || negb ser || ((pv || pl) && negb (pv && pl))
  | DObject n _ _ _ | DInterface n _ _ | DUnion n _ _ => negb (valid_name n)
  | DEnum n vs => negb (valid_name n) || enum_values_err vs
  | DInput n _ => negb (valid_name n)
  end.

(* Type.Error() of the value a (normalised) reference denotes, before any lazy initialisation *)
Definition type_err (defs : list (N * tdef)) (t : tref) : bool :=
  match t with
  | TNil => false
  | TNamed i => match find_def defs i with Some d => ctor_err d | None => true end
  | TList TNil | TNonNull TNil => true
  | TList _ | TNonNull _ => false
  end.

(* ---------- lazy parts: defineFieldMap, defineInterfaces, defineUnionTypes, InputObject.defineFieldMap ---------- *)
Record vfield := VF { vf_name : name; vf_type : tref; vf_args : list (name * tref) }.

Fixpoint define_args (defs : list (N * tdef)) (args : list (name * argcfg)) : option (list (name * tref)) :=
  match args with
  | [] => Some []
  | (an, a) :: r =>
    if negb (valid_name an) then None else
    match a with
    | ArgNil => None
    | ArgOf t0 =>
      match norm t0 with
      | TNil => None
      | t => if negb (is_input_type defs t) then None else
             match define_args defs r with Some l => Some ((an, t) :: l) | None => None end
      end
    end
  end.

Fixpoint define_fields (defs : list (N * tdef)) (fs : list (name * fieldcfg)) : option (list vfield) :=
  match fs with
  | [] => Some []
  | (fn, FieldNil) :: r => define_fields defs r
  | (fn, FieldOf t0 args) :: r =>
    match norm t0 with
    | TNil => None
    | t =>
      if type_err defs t then None else
      if negb (is_output_type defs t) then None else
      if negb (valid_name fn) then None else
      match define_args defs args with
      | None => None
      | Some al => match define_fields defs r with Some l => Some (VF fn t al :: l) | None => None end
      end
    end
  end.

Definition define_field_map (defs : list (N * tdef)) (fs : list (name * fieldcfg)) : option (list vfield) :=
  match fs with [] => None | _ => define_fields defs fs end.

Definition memN (i : N) (l : list N) : bool := existsb (N.eqb i) l.

(* nil entries and repeated entries are errors *)
Fixpoint define_ids (l : list (option N)) : option (list N) :=
  match l with
  | [] => Some []
  | None :: _ => None
  | Some i :: r => match define_ids r with
                   | Some l' => if memN i l' then None else Some (i :: l')
                   | None => None
                   end
  end.

Definition has_kind (defs : list (N * tdef)) (k : kind) (i : N) : bool :=
  match find_def defs i with
  | Some d => match kind_of d, k with
              | KScalar, KScalar | KObject, KObject | KInterface, KInterface
              | KUnion, KUnion | KEnum, KEnum | KInput, KInput => true
              | _, _ => false
              end
  | None => false
  end.

Definition define_interfaces (defs : list (N * tdef)) (r : refs) : option (list N) :=
  match r with
  | RNone => Some []
  | RBad => None
  | RList l => match define_ids l with
               | Some ids => if forallb (has_kind defs KInterface) ids then Some ids else None
               | None => None
               end
  end.

Definition has_is_type_of (defs : list (N * tdef)) (i : N) : bool :=
  match find_def defs i with Some (DObject _ _ _ b) => b | _ => false end.

Definition define_union_types (defs : list (N * tdef)) (r : refs) (resolve_type : bool) : option (list N) :=
  match r with
  | RNone | RBad | RList [] => None
  | RList l => match define_ids l with
               | Some ids => if forallb (has_kind defs KObject) ids && (resolve_type || forallb (has_is_type_of defs) ids)
                             then Some ids else None
               | None => None
               end
  end.

(* nil field configs and fields with an invalid name are dropped silently (pinned by the library's tests) *)
Fixpoint define_ifields (defs : list (N * tdef)) (fs : list (name * ifieldcfg)) : option (list (name * tref)) :=
  match fs with
  | [] => Some []
  | (fn, IFieldNil) :: r => define_ifields defs r
  | (fn, IFieldOf t0) :: r =>
    if negb (valid_name fn) then define_ifields defs r else
    match norm t0 with
    | TNil => None
    | t => if negb (is_input_type defs t) then None else
           match define_ifields defs r with Some l => Some ((fn, t) :: l) | None => None end
    end
  end.

Definition define_input_field_map (defs : list (N * tdef)) (fs : list (name * ifieldcfg)) : option (list (name * tref)) :=
  match fs with [] => None | _ => define_ifields defs fs end.

(* ---------- typeMapReducer ---------- *)
Definition tmap := list (name * N).

Fixpoint tm_find (n : name) (tm : tmap) : option N :=
  match tm with
  | [] => None
  | (m, i) :: r => if bytes_eqb m n then Some i else tm_find n r
  end.

(* what the reducer does with a type value before looking at the map: nil is
   skipped, a parked error is returned, wrappers are unwrapped *)
Inductive target := TgtSkip | TgtBad | TgtTo (id : N).
Fixpoint target_of (defs : list (N * tdef)) (t : tref) : target :=
  match t with
  | TNil => TgtSkip
  | TNamed i => match find_def defs i with
                | Some d => if ctor_err d then TgtBad else TgtTo i
                | None => TgtBad
                end
  | TList t' => match t' with TNil => TgtBad | _ => target_of defs t' end
  | TNonNull t' => match t' with TNil => TgtBad | _ => target_of defs t' end
  end.

Fixpoint fold_res {A} (f : tmap -> A -> res tmap) (l : list A) (tm : tmap) : res tmap :=
  match l with
  | [] => OK tm
  | x :: r => match f tm x with OK tm' => fold_res f r tm' | e => e end
  end.

Definition field_refs (fs : list vfield) : list tref :=
  flat_map (fun f => map snd (vf_args f) ++ [vf_type f]) fs.

Fixpoint visit (defs : list (N * tdef)) (fuel : nat) (tm : tmap) (id : N) {struct fuel} : res tmap :=
  match fuel with
  | O => OutOfFuel
  | S f =>
    match find_def defs id with
    | None => Err
    | Some d =>
      if ctor_err d then Err else
      match tm_find (def_name d) tm with
      | Some id' => if id' =? id then OK tm else Err     (* unique named types *)
      | None =>
        let tm1 := (def_name d, id) :: tm in
        let go := fun tm t => match target_of defs t with
                              | TgtSkip => OK tm | TgtBad => Err | TgtTo i => visit defs f tm i
                              end in
        match d with
        | DScalar _ _ _ _ | DEnum _ _ => OK tm1
        | DUnion _ ms rt =>
          match define_union_types defs ms rt with
          | None => Err
          | Some ids => fold_res go (map TNamed ids) tm1
          end
        | DObject _ ifs fs _ =>
          match define_interfaces defs ifs with
          | None => Err
          | Some ids =>
            match fold_res go (map TNamed ids) tm1 with
            | OK tm2 => match define_field_map defs fs with
                        | None => Err
                        | Some vfs => fold_res go (field_refs vfs) tm2
                        end
            | e => e
            end
          end
        | DInterface _ fs _ =>
          match define_field_map defs fs with
          | None => Err
          | Some vfs => fold_res go (field_refs vfs) tm1
          end
        | DInput _ fs =>
          match define_input_field_map defs fs with
          | None => Err
          | Some l => fold_res go (map snd l) tm1
          end
        end
      end
    end
  end.

Definition reduce (defs : list (N * tdef)) (fuel : nat) (tm : tmap) (t : tref) : res tmap :=
  match target_of defs t with
  | TgtSkip => OK tm
  | TgtBad => Err
  | TgtTo i => visit defs fuel tm i
  end.

(* ---------- the schema value ---------- *)
Record schema := Schema {
  s_defs : list (N * tdef);
  s_tm : tmap;
  s_query : option N; s_mutation : option N; s_subscription : option N }.

Definition interfaces_of (defs : list (N * tdef)) (i : N) : list N :=
  match find_def defs i with
  | Some (DObject _ ifs _ _) => match define_interfaces defs ifs with Some l => l | None => [] end
  | _ => []
  end.
Definition fields_of (defs : list (N * tdef)) (i : N) : list vfield :=
  match find_def defs i with
  | Some (DObject _ _ fs _) | Some (DInterface _ fs _) =>
    match define_field_map defs fs with Some l => l | None => [] end
  | _ => []
  end.
Definition members_of (defs : list (N * tdef)) (i : N) : list N :=
  match find_def defs i with
  | Some (DUnion _ ms rt) => match define_union_types defs ms rt with Some l => l | None => [] end
  | _ => []
  end.
Definition name_of (defs : list (N * tdef)) (i : N) : name :=
  match find_def defs i with Some d => def_name d | None => [] end.

Definition objects_of (S : schema) : list N := filter (has_kind (s_defs S) KObject) (map snd (s_tm S)).

(* Schema.implementations[iface name], rebuilt from the type map *)
Definition implementations (S : schema) (iface : N) : list N :=
  filter (fun o => memN iface (interfaces_of (s_defs S) o)) (objects_of S).

Definition possible_types (S : schema) (a : N) : list N :=
  match find_def (s_defs S) a with
  | Some (DUnion _ _ _) => members_of (s_defs S) a
  | Some (DInterface _ _ _) => implementations S a
  | _ => []
  end.

Definition is_abstract (defs : list (N * tdef)) (i : N) : bool :=
  has_kind defs KInterface i || has_kind defs KUnion i.

Definition mem_name (n : name) (l : list name) : bool := existsb (bytes_eqb n) l.

(* Schema.possibleTypeMap: abstract name -> object names *)
Definition possible_type_map (S : schema) : list (name * list name) :=
  map (fun e => (fst e, map (name_of (s_defs S)) (possible_types S (snd e))))
      (filter (fun e => is_abstract (s_defs S) (snd e)) (s_tm S)).

Fixpoint assoc_name {A} (n : name) (l : list (name * A)) : option A :=
  match l with
  | [] => None
  | (m, x) :: r => if bytes_eqb m n then Some x else assoc_name n r
  end.

Definition is_possible_type (S : schema) (a o : N) : bool :=
  match assoc_name (name_of (s_defs S) a) (possible_type_map S) with
  | Some l => mem_name (name_of (s_defs S) o) l
  | None => existsb (fun c => bytes_eqb (name_of (s_defs S) c) (name_of (s_defs S) o)) (possible_types S a)
  end.

(* ---------- isEqualType / isTypeSubTypeOf ---------- *)
Fixpoint tref_eqb (a b : tref) : bool :=
  match a, b with
  | TNil, TNil => true
  | TNamed i, TNamed j => i =? j
  | TList a', TList b' => tref_eqb a' b'
  | TNonNull a', TNonNull b' => tref_eqb a' b'
  | _, _ => false
  end.

Fixpoint is_equal_type (a b : tref) : bool :=
  match a, b with
  | TNil, TNil => true
  | TNamed i, TNamed j => i =? j
  | TNonNull a', TNonNull b' => is_equal_type a' b'
  | TList a', TList b' => is_equal_type a' b'
  | _, _ => false
  end.

Fixpoint is_type_sub_type_of (poss : N -> N -> bool) (sub super : tref) {struct sub} : bool :=
  if tref_eqb sub super then true else
  match super with
  | TNonNull super' =>
    match sub with TNonNull sub' => is_type_sub_type_of poss sub' super' | _ => false end
  | _ =>
    match sub with
    | TNonNull sub' => is_type_sub_type_of poss sub' super
    | _ =>
      match super with
      | TList super' => match sub with TList sub' => is_type_sub_type_of poss sub' super' | _ => false end
      | _ =>
        match sub, super with
        | TNamed o, TNamed a => poss a o
        | _, _ => false
        end
      end
    end
  end.

Definition abstract_possible (S : schema) (a o : N) : bool :=
  is_abstract (s_defs S) a && has_kind (s_defs S) KObject o && is_possible_type S a o.

(* ---------- assertObjectImplementsInterface ---------- *)
Fixpoint find_field (n : name) (fs : list vfield) : option vfield :=
  match fs with
  | [] => None
  | f :: r => if bytes_eqb (vf_name f) n then Some f else find_field n r
  end.

Definition is_non_null (t : tref) : bool := match t with TNonNull _ => true | _ => false end.

Definition field_implements (poss : N -> N -> bool) (ofs : list vfield) (jf : vfield) : bool :=
  match find_field (vf_name jf) ofs with
  | None => false
  | Some of =>
    is_type_sub_type_of poss (vf_type of) (vf_type jf)
    && forallb (fun ja => match assoc_name (fst ja) (vf_args of) with
                          | Some t => is_equal_type (snd ja) t
                          | None => false
                          end) (vf_args jf)
    && forallb (fun oa => match assoc_name (fst oa) (vf_args jf) with
                          | Some _ => true
                          | None => negb (is_non_null (snd oa))
                          end) (vf_args of)
  end.

Definition assert_object_implements_interface (S : schema) (o i : N) : bool :=
  forallb (field_implements (abstract_possible S) (fields_of (s_defs S) o)) (fields_of (s_defs S) i).

Definition check_implementations (S : schema) : bool :=
  forallb (fun o => forallb (assert_object_implements_interface S o) (interfaces_of (s_defs S) o)) (objects_of S).

(* ---------- NewSchema, AppendType ---------- *)
Definition schema_type_id : N := 10.

Definition root_err (defs : list (N * tdef)) (r : option N) : bool :=
  match r with
  | None => false
  | Some i => match find_def defs i with
              | Some (DObject n _ _ _) => negb (valid_name n)
              | _ => true        (* roots are *Object in Go *)
              end
  end.

Definition opt_ref (r : option N) : list tref := match r with Some i => [TNamed i] | None => [] end.

Definition initial_types (c : config) : list tref :=
  opt_ref (c_query c) ++ opt_ref (c_mutation c) ++ opt_ref (c_subscription c)
  ++ [TNamed schema_type_id] ++ c_types c.

(* for _, ttype := range initialTypes: nil entries are skipped, a parked error is returned *)
Definition add_type (defs : list (N * tdef)) (fuel : nat) (tm : tmap) (t0 : tref) : res tmap :=
  match norm t0 with
  | TNil => OK tm
  | t => if type_err defs t then Err else reduce defs fuel tm t
  end.

Definition new_schema_fuel (fuel : nat) (c : config) : res schema :=
  match c_query c with
  | None => Err
  | Some _ =>
    if root_err (c_defs c) (c_query c) || root_err (c_defs c) (c_mutation c) || root_err (c_defs c) (c_subscription c) then Err else
    if existsb (fun d => match d with DirOk => false | _ => true end) (c_dirs c) then Err else
    match fold_res (add_type (c_defs c) fuel) (initial_types c) [] with
    | OK tm =>
      let S := Schema (c_defs c) tm (c_query c) (c_mutation c) (c_subscription c) in
      if check_implementations S then OK S else Err
    | Err => Err
    | OutOfFuel => OutOfFuel
    end
  end.

Definition append_type_fuel (fuel : nat) (S : schema) (t : tref) : res schema :=
  match add_type (s_defs S) fuel (s_tm S) t with
  | OK tm =>
    let S' := Schema (s_defs S) tm (s_query S) (s_mutation S) (s_subscription S) in
    if check_implementations S' then OK S' else Err
  | Err => Err
  | OutOfFuel => OutOfFuel
  end.

Fixpoint append_types_fuel (fuel : nat) (S : schema) (ts : list tref) : res schema :=
  match ts with
  | [] => OK S
  | t :: r => match append_type_fuel fuel S t with OK S' => append_types_fuel fuel S' r | e => e end
  end.

(* enough fuel: the reducer descends only into types that are not yet in the map *)
Definition fuel_for (defs : list (N * tdef)) : nat := Datatypes.S (List.length defs).
Definition new_schema (c : config) : res schema := new_schema_fuel (fuel_for (c_defs c)) c.
Definition append_type (S : schema) (t : tref) : res schema := append_type_fuel (fuel_for (s_defs S)) S t.
Definition append_types (S : schema) (ts : list tref) : res schema := append_types_fuel (fuel_for (s_defs S)) S ts.

(* ---------- the library's own types (ids 1..5, 10..17), in configuration form ---------- *)
Definition meta_defs : list (N * tdef) :=
[(1, DScalar (s "Int") true true true);
  (2, DScalar (s "Float") true true true);
  (3, DScalar (s "String") true true true);
  (4, DScalar (s "Boolean") true true true);
  (5, DScalar (s "ID") true true true);
  (10, DObject (s "__Schema") RNone [((s "directives"), FieldOf (TNonNull (TList (TNonNull (TNamed 15)))) []); ((s "mutationType"), FieldOf (TNamed 11) []); ((s "queryType"), FieldOf (TNonNull (TNamed 11)) []); ((s "subscriptionType"), FieldOf (TNamed 11) []); ((s "types"), FieldOf (TNonNull (TList (TNonNull (TNamed 11)))) [])] false);
  (11, DObject (s "__Type") RNone [((s "description"), FieldOf (TNamed 3) []); ((s "enumValues"), FieldOf (TList (TNonNull (TNamed 14))) [((s "includeDeprecated"), ArgOf (TNamed 4))]); ((s "fields"), FieldOf (TList (TNonNull (TNamed 12))) [((s "includeDeprecated"), ArgOf (TNamed 4))]); ((s "inputFields"), FieldOf (TList (TNonNull (TNamed 13))) []); ((s "interfaces"), FieldOf (TList (TNonNull (TNamed 11))) []); ((s "kind"), FieldOf (TNonNull (TNamed 16)) []); ((s "name"), FieldOf (TNamed 3) []); ((s "ofType"), FieldOf (TNamed 11) []); ((s "possibleTypes"), FieldOf (TList (TNonNull (TNamed 11))) [])] false);
  (12, DObject (s "__Field") RNone [((s "args"), FieldOf (TNonNull (TList (TNonNull (TNamed 13)))) []); ((s "deprecationReason"), FieldOf (TNamed 3) []); ((s "description"), FieldOf (TNamed 3) []); ((s "isDeprecated"), FieldOf (TNonNull (TNamed 4)) []); ((s "name"), FieldOf (TNonNull (TNamed 3)) []); ((s "type"), FieldOf (TNonNull (TNamed 11)) [])] false);
  (13, DObject (s "__InputValue") RNone [((s "defaultValue"), FieldOf (TNamed 3) []); ((s "description"), FieldOf (TNamed 3) []); ((s "name"), FieldOf (TNonNull (TNamed 3)) []); ((s "type"), FieldOf (TNonNull (TNamed 11)) [])] false);
  (14, DObject (s "__EnumValue") RNone [((s "deprecationReason"), FieldOf (TNamed 3) []); ((s "description"), FieldOf (TNamed 3) []); ((s "isDeprecated"), FieldOf (TNonNull (TNamed 4)) []); ((s "name"), FieldOf (TNonNull (TNamed 3)) [])] false);
  (15, DObject (s "__Directive") RNone [((s "args"), FieldOf (TNonNull (TList (TNonNull (TNamed 13)))) []); ((s "description"), FieldOf (TNamed 3) []); ((s "locations"), FieldOf (TNonNull (TList (TNonNull (TNamed 17)))) []); ((s "name"), FieldOf (TNonNull (TNamed 3)) []); ((s "onField"), FieldOf (TNonNull (TNamed 4)) []); ((s "onFragment"), FieldOf (TNonNull (TNamed 4)) []); ((s "onOperation"), FieldOf (TNonNull (TNamed 4)) [])] false);
  (16, DEnum (s "__TypeKind") [((s "ENUM"), true); ((s "INPUT_OBJECT"), true); ((s "INTERFACE"), true); ((s "LIST"), true); ((s "NON_NULL"), true); ((s "OBJECT"), true); ((s "SCALAR"), true); ((s "UNION"), true)]);
  (17, DEnum (s "__DirectiveLocation") [((s "ARGUMENT_DEFINITION"), true); ((s "ENUM"), true); ((s "ENUM_VALUE"), true); ((s "FIELD"), true); ((s "FIELD_DEFINITION"), true); ((s "FRAGMENT_DEFINITION"), true); ((s "FRAGMENT_SPREAD"), true); ((s "INLINE_FRAGMENT"), true); ((s "INPUT_FIELD_DEFINITION"), true); ((s "INPUT_OBJECT"), true); ((s "INTERFACE"), true); ((s "MUTATION"), true); ((s "OBJECT"), true); ((s "QUERY"), true); ((s "SCALAR"), true); ((s "SCHEMA"), true); ((s "SUBSCRIPTION"), true); ((s "UNION"), true)])].

Definition meta_names : list name := map (fun e => def_name (snd e)) (skipn 5 meta_defs).

(* the configuration the library really sees: the user's definitions next to its own *)
Definition with_meta (c : config) : config :=
  Cfg (meta_defs ++ c_defs c) (c_query c) (c_mutation c) (c_subscription c) (c_types c) (c_dirs c).

(* ---------- the public view of a schema ---------- *)
Inductive vdef :=
| VScalar
| VObject (ifaces : list N) (fields : list vfield)
| VInterface (fields : list vfield)
| VUnion (members : list N)
| VEnum (values : list name)
| VInput (fields : list (name * tref))
| VWrapper.                 (* something that is not a named type sits in the type map *)
Record vtype := VT { vt_name : name; vt_id : N; vt_def : vdef }.
Record view := View {
  v_types : list vtype;                 (* Schema.TypeMap() *)
  v_poss : list (N * list N);           (* Schema.PossibleTypes(abstract) *)
  v_isposs : list (N * list N);         (* objects o of the map with Schema.IsPossibleType(abstract, o) *)
  v_query : option N; v_mutation : option N; v_subscription : option N }.

Definition vdef_of (defs : list (N * tdef)) (i : N) : vdef :=
  match find_def defs i with
  | Some (DScalar _ _ _ _) => VScalar
  | Some (DObject _ _ _ _) => VObject (interfaces_of defs i) (fields_of defs i)
  | Some (DInterface _ _ _) => VInterface (fields_of defs i)
  | Some (DUnion _ _ _) => VUnion (members_of defs i)
  | Some (DEnum _ vs) => VEnum (map fst vs)
  | Some (DInput _ fs) => VInput (match define_input_field_map defs fs with Some l => l | None => [] end)
  | None => VWrapper
  end.

Definition view_of (S : schema) : view :=
  let abstracts := filter (is_abstract (s_defs S)) (map snd (s_tm S)) in
  View (map (fun e => VT (fst e) (snd e) (vdef_of (s_defs S) (snd e))) (s_tm S))
       (map (fun a => (a, possible_types S a)) abstracts)
       (map (fun a => (a, filter (is_possible_type S a) (objects_of S))) abstracts)
       (s_query S) (s_mutation S) (s_subscription S).
