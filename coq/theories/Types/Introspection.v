(* C10 -- introspection describes the schema exactly.
   The schema "as built" is the C11 view of the schema (Types/Schema.v) plus
   decorations (descriptions, deprecation reasons, default values, directives).
   Model: the resolvers of __Schema/__Type/__Field/__InputValue/__EnumValue/
   __Directive (introspect) and astFromValue (ast_from_value).
   Spec: describe (what an exact description is) and coerce (literal -> value
   coercion of the GraphQL edition), compared by matches.  No proofs here. *)
From Coq Require Import List NArith ZArith Bool String.
From GQL Require Import Base.Bytes Types.Schema Types.Consistent Types.Literal.
Import ListNotations.
Open Scope N_scope.

(* ---------- values (literals: Types/Literal.v) ---------- *)
(* A default value as the Go program configured it.  Which Go type carries a number (int, int64,
   *int, ...), a list ([]interface{}, []int, [2]int) or an object (map[string]interface{},
   map[string]int) is not visible here: the harness varies it, the model has one value. *)
Inductive value :=
| VNull
| VInt (z : Z)            (* a Go integer; also the internal value of an enum value *)
| VFloat (neg : bool) (digits : list N) (dp : Z)
                          (* a finite float64 by its shortest decimal digits: +-0.d1...dn * 10^dp *)
| VStr (b : bytes)
| VBool (b : bool)
| VList (l : list value)
| VObj (fs : list (name * value)).   (* a Go map with string keys, keys in name order *)

(* ---------- decorations ---------- *)
Record argdec := AD { ad_desc : bytes; ad_default : option value }.
Record fielddec := FD { fd_desc : bytes; fd_dep : bytes; fd_args : list (name * argdec) }.
Record valdec := VD { vd_desc : bytes; vd_dep : bytes }.
Record typedec := TD { td_desc : bytes; td_fields : list (name * fielddec);
                       td_values : list (name * valdec); td_ifields : list (name * argdec) }.
Record dirdec := DD { dd_name : name; dd_desc : bytes; dd_locs : list bytes;
                      dd_args : list (name * (tref * argdec)) }.
Record decor := Decor { dc_types : list (N * typedec); dc_dirs : list dirdec }.

(* ---------- what introspection says ---------- *)
Inductive dref := DRNamed (kind : bytes) (n : name) | DRList (t : dref) | DRNonNull (t : dref).
(* an input value; the default is carried either as the configured value with its type (expected side)
   or as the defaultValue string reported by introspection (reported side) *)
Inductive ddefault :=
| DNone
| DValue (t : tref) (v : value)
| DText (text : bytes) (parsed : option lit).
    (* the defaultValue string; on the reported side also what the library's own parser makes of it *)
Record dinput := DI { di_name : name; di_desc : bytes; di_type : dref; di_default : ddefault }.
Record dfield := DF { df_name : name; df_desc : bytes; df_args : list dinput; df_type : dref;
                      df_isdep : bool; df_reason : option bytes }.
Record denum := DE { de_name : name; de_desc : bytes; de_isdep : bool; de_reason : option bytes }.
Record dtype := DT { dt_kind : bytes; dt_name : name; dt_desc : bytes;
                     dt_fields : option (list dfield); dt_interfaces : option (list dref);
                     dt_possible : option (list dref); dt_enums : option (list denum);
                     dt_inputs : option (list dinput) }.
Record ddirective := DDir { ddr_name : name; ddr_desc : bytes; ddr_locs : list bytes; ddr_args : list dinput }.
Record description := Desc { d_types : list dtype; d_query : option name; d_mutation : option name;
                             d_subscription : option name; d_directives : list ddirective }.

(* ---------- sorting by name ---------- *)
Fixpoint bytes_leb (a b : bytes) : bool :=
  match a, b with
  | [], _ => true
  | _ :: _, [] => false
  | x :: a', y :: b' => if x <? y then true else if y <? x then false else bytes_leb a' b'
  end.
Fixpoint insert_name {A} (key : A -> name) (x : A) (l : list A) : list A :=
  match l with
  | [] => [x]
  | y :: r => if bytes_leb (key x) (key y) then x :: l else y :: insert_name key x r
  end.
Definition sort_name {A} (key : A -> name) (l : list A) : list A := fold_right (insert_name key) [] l.

(* ---------- lookups in the view ---------- *)
Definition kind_name (d : vdef) : bytes :=
  match d with
  | VScalar => s "SCALAR" | VObject _ _ => s "OBJECT" | VInterface _ => s "INTERFACE" | VUnion _ => s "UNION"
  | VEnum _ => s "ENUM" | VInput _ => s "INPUT_OBJECT" | VWrapper => s "?"
  end.

Definition named_ref (ts : list vtype) (i : N) : dref :=
  match vfind ts i with
  | Some vt => DRNamed (kind_name (vt_def vt)) (vt_name vt)
  | None => DRNamed (s "?") []
  end.

Fixpoint dref_of (ts : list vtype) (t : tref) : dref :=
  match t with
  | TNil => DRNamed (s "?") []
  | TNamed i => named_ref ts i
  | TList t' => DRList (dref_of ts t')
  | TNonNull t' => DRNonNull (dref_of ts t')
  end.

Definition dref_name (d : dref) : name := match d with DRNamed _ n => n | _ => [] end.

Definition find_dec {A} (n : name) (l : list (name * A)) : option A := assoc_name n l.

(* ---------- astFromValue ---------- *)
Fixpoint filter_some {A} (l : list (option A)) : list A :=
  match l with [] => [] | Some x :: r => x :: filter_some r | None :: r => filter_some r end.

(* the literal of a number lexeme as the lexer will classify the printed text (the Go code builds an
   ast.IntValue or ast.FloatValue node; only the node's text reaches the printer) *)
Definition num_lit (lx : bytes) : lit := if floaty lx then LFloat lx else LInt lx.

(* the tail of astFromValue: bool, integer, float, string (is_float: the type is the built-in Float) *)
Definition scalar_lit (is_float : bool) (v : value) : option lit :=
  match v with
  | VBool b => Some (LBool b)
  | VInt z => Some (if is_float then LFloat (dec_Z z ++ [46; 48]) else LInt (dec_Z z))
  | VFloat neg ds dp => Some (num_lit (fmt_g neg ds dp))
  | VStr b => Some (LStr b)
  | _ => None          (* lists / maps against a scalar: the Go code prints its %v fallback string; not modelled *)
  end.

Definition lookup_or_null (n : name) (kv : list (name * value)) : value :=
  match assoc_name n kv with Some x => x | None => VNull end.

(* the object literal: the type's fields in name order, those whose value yields a literal *)
Definition obj_lit (rec : tref -> value -> option lit) (sfs : list (name * tref)) (kv : list (name * value)) : list (name * lit) :=
  filter_some (map (fun fd => match rec (snd fd) (lookup_or_null (fst fd) kv) with
                              | Some l => Some (fst fd, l)
                              | None => None
                              end) sfs).

Definition is_float_type (vt : vtype) : bool :=
  match vt_def vt with VScalar => bytes_eqb (vt_name vt) (s "Float") | _ => false end.

Fixpoint ast_from_value (fuel : nat) (ts : list vtype) (t : tref) (v : value) {struct fuel} : option lit :=
  match fuel with
  | O => None
  | Datatypes.S f =>
    match t with
    | TNonNull t' => ast_from_value f ts t' v
    | _ =>
      match v with
      | VNull => None
      | _ =>
        match t with
        | TList t' =>
          match v with
          | VList l => Some (LList (filter_some (map (ast_from_value f ts t') l)))
          | _ => ast_from_value f ts t' v
          end
        | TNamed i =>
          match vfind ts i with
          | Some vt =>
            match vt_def vt with
            | VInput fs =>
              match v with
              | VObj kv => Some (LObj (obj_lit (ast_from_value f ts) (sort_name fst fs) kv))
              | _ => scalar_lit false v
              end
            | VEnum names =>
              match v with
              | VInt z => match nth_error names (Z.to_nat (z - 1)) with
                          | Some n => if (0 <? z)%Z then Some (LEnum n) else None
                          | None => None
                          end
              | _ => None
              end
            | _ => scalar_lit (is_float_type vt) v
            end
          | None => None
          end
        | _ => None
        end
      end
    end
  end.

(* ---------- Spec: coercion of a literal against a type (valueFromAST of the edition) ---------- *)
Fixpoint index_of (n : name) (l : list name) (k : Z) : option Z :=
  match l with
  | [] => None
  | m :: r => if bytes_eqb m n then Some k else index_of n r (k + 1)%Z
  end.

Fixpoint all_some {A} (l : list (option A)) : option (list A) :=
  match l with
  | [] => Some []
  | Some x :: r => match all_some r with Some l' => Some (x :: l') | None => None end
  | None :: _ => None
  end.

(* field defaults of input object types, from the decorations *)
Definition ifield_default (D : decor) (i : N) (fn : name) : option value :=
  match assocN i (dc_types D) with
  | Some td => match find_dec fn (td_ifields td) with Some ad => ad_default ad | None => None end
  | None => None
  end.

(* the object value: the type's fields in name order; a field the literal does not give (or gives
   wrongly) takes the field's own default *)
Definition obj_val (rec : tref -> lit -> option value) (dflt : name -> option value)
           (sfs : list (name * tref)) (kl : list (name * lit)) : list (name * value) :=
  filter_some (map (fun fd =>
     match (match assoc_name (fst fd) kl with Some x => rec (snd fd) x | None => None end) with
     | Some v => Some (fst fd, v)
     | None => match dflt (fst fd) with Some dv => Some (fst fd, dv) | None => None end
     end) sfs).

Definition in_int32 (z : Z) : bool := ((-2147483648 <=? z) && (z <=? 2147483647))%Z.

Definition coerce_scalar (nm : name) (l : lit) : option value :=
  if bytes_eqb nm (s "Int") then
    match l with LInt lx => let z := Z_of_dec lx in if in_int32 z then Some (VInt z) else None | _ => None end
  else if bytes_eqb nm (s "Float") then
    match l with
    | LInt lx | LFloat lx => let '(neg, ds, dp) := float_of_lexeme lx in Some (VFloat neg ds dp)
    | _ => None
    end
  else if bytes_eqb nm (s "Boolean") then match l with LBool b => Some (VBool b) | _ => None end
  else if bytes_eqb nm (s "String") then match l with LStr b => Some (VStr b) | _ => None end
  else if bytes_eqb nm (s "ID") then match l with LStr b | LInt b => Some (VStr b) | _ => None end
  else None.            (* custom scalars: their ParseLiteral belongs to the user *)

Fixpoint coerce (fuel : nat) (ts : list vtype) (D : decor) (t : tref) (l : lit) {struct fuel} : option value :=
  match fuel with
  | O => None
  | Datatypes.S f =>
    match t with
    | TNonNull t' => coerce f ts D t' l
    | TList t' =>
      match l with
      | LList ls => match all_some (map (coerce f ts D t') ls) with Some vs => Some (VList vs) | None => None end
      | _ => match coerce f ts D t' l with Some v => Some (VList [v]) | None => None end
      end
    | TNamed i =>
      match vfind ts i with
      | Some vt =>
        match vt_def vt with
        | VInput fs =>
          match l with
          | LObj kl => Some (VObj (obj_val (coerce f ts D) (ifield_default D i) (sort_name fst fs) kl))
          | _ => None
          end
        | VEnum names => match l with LEnum n => match index_of n names 1%Z with Some k => Some (VInt k) | None => None end | _ => None end
        | VScalar => coerce_scalar (vt_name vt) l
        | _ => None
        end
      | None => None
      end
    | TNil => None
    end
  end.

Definition lit_fuel : nat := 64.

(* ---------- Spec: the defaults for which the property's sentence is meant ---------- *)
(* a float64 by its shortest digits: no leading or trailing zero digit, at most 17 digits, finite *)
Definition float_ok (neg : bool) (ds : list N) (dp : Z) : bool :=
  match ds with
  | [] => negb neg && (dp =? 0)%Z
  | d :: _ => negb (d =? 0) && negb (last ds 1 =? 0) && forallb (fun x => x <=? 9) ds
              && (N.of_nat (List.length ds) <=? 17) && (-330 <=? dp)%Z && (dp <=? 310)%Z
  end.

Definition wt_scalar (nm : name) (v : value) : bool :=
  if bytes_eqb nm (s "Int") then match v with VInt z => in_int32 z | _ => false end
  else if bytes_eqb nm (s "Float") then
    match v with
    | VFloat neg ds dp => float_ok neg ds dp
    | VInt z => (Z.abs z <=? 9007199254740992)%Z       (* an integer a float64 holds exactly *)
    | _ => false
    end
  else if bytes_eqb nm (s "Boolean") then match v with VBool _ => true | _ => false end
  else if bytes_eqb nm (s "String") || bytes_eqb nm (s "ID") then match v with VStr b => string_ok b | _ => false end
  else false.

(* the map gives, in field order, values for some of the fields; a field it does not give has no
   default of its own (else coercion fills that default in) *)
Fixpoint wt_fields (rec : tref -> value -> bool) (dflt : name -> option value)
         (sfs : list (name * tref)) (kv : list (name * value)) : bool :=
  match sfs with
  | [] => match kv with [] => true | _ => false end
  | (fn, ft) :: r =>
    match kv with
    | (k, x) :: kv' =>
      if bytes_eqb k fn then name_lexeme_ok fn && rec ft x && wt_fields rec dflt r kv'
      else match dflt fn with None => wt_fields rec dflt r kv | Some _ => false end
    | [] => match dflt fn with None => wt_fields rec dflt r kv | Some _ => false end
    end
  end.

(* v is a well-typed default for t: non-null where it matters, list values for list types, declared
   internal values for enums, maps over declared fields for input objects, in-range numbers *)
Fixpoint wt_default (fuel : nat) (ts : list vtype) (D : decor) (t : tref) (v : value) {struct fuel} : bool :=
  match fuel with
  | O => false
  | Datatypes.S f =>
    match t with
    | TNil => false
    | TNonNull t' => wt_default f ts D t' v
    | TList t' => match v with VList l => forallb (wt_default f ts D t') l | _ => false end
    | TNamed i =>
      match vfind ts i with
      | Some vt =>
        match vt_def vt with
        | VScalar => wt_scalar (vt_name vt) v
        | VEnum names =>
          match v with
          | VInt z => (0 <? z)%Z && nodup_names names
                      && match nth_error names (Z.to_nat (z - 1)) with Some n => enum_lexeme_ok n | None => false end
          | _ => false
          end
        | VInput fs =>
          match v with
          | VObj kv => nodup_names (map fst fs) && wt_fields (wt_default f ts D) (ifield_default D i) (sort_name fst fs) kv
          | _ => false
          end
        | _ => false
        end
      | None => false
      end
    end
  end.

(* the configured default and what coercion gives back are the same value: equal, where a Go
   integer configured for a Float and the float read back are the same number *)
Fixpoint same_value (a b : value) {struct a} : bool :=
  match a, b with
  | VNull, VNull => true
  | VInt x, VInt y => (x =? y)%Z
  | VInt x, VFloat n ds dp =>
    let '(n', ds', dp') := float_of_Z x in Bool.eqb n n' && bytes_eqb ds ds' && (dp =? dp')%Z
  | VFloat n ds dp, VFloat n' ds' dp' => Bool.eqb n n' && bytes_eqb ds ds' && (dp =? dp')%Z
  | VStr x, VStr y => bytes_eqb x y
  | VBool x, VBool y => Bool.eqb x y
  | VList x, VList y =>
    (fix go (x y : list value) : bool :=
       match x, y with
       | [], [] => true
       | u :: x', w :: y' => same_value u w && go x' y'
       | _, _ => false
       end) x y
  | VObj x, VObj y =>
    (fix go (x y : list (name * value)) : bool :=
       match x, y with
       | [], [] => true
       | (n, u) :: x', (m, w) :: y' => bytes_eqb n m && same_value u w && go x' y'
       | _, _ => false
       end) x y
  | _, _ => false
  end.

(* ---------- the exact description of a schema (Spec) ---------- *)
Definition dep_reason (b : bytes) : option bytes := match b with [] => None | _ => Some b end.
Definition is_dep (b : bytes) : bool := match b with [] => false | _ => true end.

Definition describe_input (ts : list vtype) (n : name) (t : tref) (ad : option argdec) : dinput :=
  match ad with
  | Some a => DI n (ad_desc a) (dref_of ts t) (match ad_default a with Some v => DValue t v | None => DNone end)
  | None => DI n [] (dref_of ts t) DNone
  end.

Definition describe_field (ts : list vtype) (td : option typedec) (f : vfield) : dfield :=
  let fd := match td with Some d => find_dec (vf_name f) (td_fields d) | None => None end in
  let args := fun decs => sort_name di_name (map (fun a => describe_input ts (fst a) (snd a) (find_dec (fst a) decs)) (vf_args f)) in
  match fd with
  | Some d => DF (vf_name f) (fd_desc d) (args (fd_args d)) (dref_of ts (vf_type f)) (is_dep (fd_dep d)) (dep_reason (fd_dep d))
  | None => DF (vf_name f) [] (args []) (dref_of ts (vf_type f)) false None
  end.

Definition describe_fields (ts : list vtype) (td : option typedec) (fs : list vfield) : list dfield :=
  sort_name df_name (map (describe_field ts td) fs).

Definition describe_type (V : view) (D : decor) (vt : vtype) : dtype :=
  let ts := v_types V in
  let td := assocN (vt_id vt) (dc_types D) in
  let desc := match td with Some d => td_desc d | None => [] end in
  let refs := fun ids => sort_name dref_name (map (named_ref ts) ids) in
  let poss := match assocN (vt_id vt) (v_poss V) with Some row => refs row | None => [] end in
  match vt_def vt with
  | VScalar | VWrapper => DT (kind_name (vt_def vt)) (vt_name vt) desc None None None None None
  | VObject ifs fs => DT (s "OBJECT") (vt_name vt) desc (Some (describe_fields ts td fs)) (Some (refs ifs)) None None None
  | VInterface fs => DT (s "INTERFACE") (vt_name vt) desc (Some (describe_fields ts td fs)) None (Some poss) None None
  | VUnion _ => DT (s "UNION") (vt_name vt) desc None None (Some poss) None None
  | VEnum vs =>
    DT (s "ENUM") (vt_name vt) desc None None None
       (Some (sort_name de_name (map (fun n =>
          match (match td with Some d => find_dec n (td_values d) | None => None end) with
          | Some vd => DE n (vd_desc vd) (is_dep (vd_dep vd)) (dep_reason (vd_dep vd))
          | None => DE n [] false None
          end) vs))) None
  | VInput fs =>
    DT (s "INPUT_OBJECT") (vt_name vt) desc None None None None
       (Some (sort_name di_name (map (fun f => describe_input ts (fst f) (snd f)
                (match td with Some d => find_dec (fst f) (td_ifields d) | None => None end)) fs)))
  end.

Definition root_name (ts : list vtype) (r : option N) : option name :=
  match r with Some i => match vfind ts i with Some vt => Some (vt_name vt) | None => Some [] end | None => None end.

Definition describe_directive (ts : list vtype) (d : dirdec) : ddirective :=
  DDir (dd_name d) (dd_desc d) (dd_locs d)
       (sort_name di_name (map (fun a => describe_input ts (fst a) (fst (snd a)) (Some (snd (snd a)))) (dd_args d))).

Definition describe (V : view) (D : decor) : description :=
  Desc (sort_name dt_name (map (describe_type V D) (v_types V)))
       (root_name (v_types V) (v_query V)) (root_name (v_types V) (v_mutation V)) (root_name (v_types V) (v_subscription V))
       (sort_name ddr_name (map (describe_directive (v_types V)) (dc_dirs D))).

(* ---------- Model: what the resolvers return (defaults printed by astFromValue) ---------- *)
Definition resolve_default (ts : list vtype) (d : ddefault) : ddefault :=
  match d with
  | DValue t v => match ast_from_value lit_fuel ts t v with Some l => DText (print_lit l) (Some l) | None => DNone end
  | x => x
  end.
Definition resolve_input (ts : list vtype) (i : dinput) : dinput :=
  DI (di_name i) (di_desc i) (di_type i) (resolve_default ts (di_default i)).
Definition resolve_field (ts : list vtype) (f : dfield) : dfield :=
  DF (df_name f) (df_desc f) (map (resolve_input ts) (df_args f)) (df_type f) (df_isdep f) (df_reason f).
Definition resolve_type (ts : list vtype) (t : dtype) : dtype :=
  DT (dt_kind t) (dt_name t) (dt_desc t) (option_map (map (resolve_field ts)) (dt_fields t)) (dt_interfaces t)
     (dt_possible t) (dt_enums t) (option_map (map (resolve_input ts)) (dt_inputs t)).
Definition resolve_directive (ts : list vtype) (d : ddirective) : ddirective :=
  DDir (ddr_name d) (ddr_desc d) (ddr_locs d) (map (resolve_input ts) (ddr_args d)).

Definition introspect (V : view) (D : decor) : description :=
  let e := describe V D in
  Desc (map (resolve_type (v_types V)) (d_types e)) (d_query e) (d_mutation e) (d_subscription e)
       (map (resolve_directive (v_types V)) (d_directives e)).

(* ---------- comparison: expected description against a reported one ---------- *)
Fixpoint dref_eqb (a b : dref) : bool :=
  match a, b with
  | DRNamed k n, DRNamed k' n' => bytes_eqb k k' && bytes_eqb n n'
  | DRList x, DRList y | DRNonNull x, DRNonNull y => dref_eqb x y
  | _, _ => false
  end.

(* expected default e against reported default r.
   spec = true : the reported string is a literal that, coerced against the type, gives back the
                 configured value (the property's sentence);
   spec = false: the reported string is byte for byte the one the model prints, and the library's
                 parser reads it as the model's parser does *)
Definition default_match (spec : bool) (ts : list vtype) (D : decor) (e r : ddefault) : bool :=
  match e, r with
  | DNone, DNone => true
  | DValue t v, DText text libparse =>
    if spec then
      match parse_lit text with
      | Some l => match coerce lit_fuel ts D t l with Some v' => same_value v v' | None => false end
      | None => false
      end
    else
      match ast_from_value lit_fuel ts t v with
      | Some l' => bytes_eqb (print_lit l') text
                   && match libparse with Some lp => match parse_lit text with Some l => lit_eqb l lp | None => false end | None => true end
      | None => false
      end
  | DText a _, DText b _ => bytes_eqb a b
  | _, _ => false
  end.

Fixpoint list_match {A} (m : A -> A -> bool) (a b : list A) : bool :=
  match a, b with
  | [], [] => true
  | x :: a', y :: b' => m x y && list_match m a' b'
  | _, _ => false
  end.
Definition opt_match {A} (m : A -> A -> bool) (a b : option A) : bool :=
  match a, b with Some x, Some y => m x y | None, None => true | _, _ => false end.

Section Match.
  Variable spec : bool.
  Variable ts : list vtype.
  Variable D : decor.
  Definition input_match (e r : dinput) : bool :=
    bytes_eqb (di_name e) (di_name r) && bytes_eqb (di_desc e) (di_desc r) && dref_eqb (di_type e) (di_type r)
    && default_match spec ts D (di_default e) (di_default r).
  Definition field_match (e r : dfield) : bool :=
    bytes_eqb (df_name e) (df_name r) && bytes_eqb (df_desc e) (df_desc r) && list_match input_match (df_args e) (df_args r)
    && dref_eqb (df_type e) (df_type r) && Bool.eqb (df_isdep e) (df_isdep r) && opt_match bytes_eqb (df_reason e) (df_reason r).
  Definition enum_match (e r : denum) : bool :=
    bytes_eqb (de_name e) (de_name r) && bytes_eqb (de_desc e) (de_desc r) && Bool.eqb (de_isdep e) (de_isdep r)
    && opt_match bytes_eqb (de_reason e) (de_reason r).
  Definition type_match (e r : dtype) : bool :=
    bytes_eqb (dt_kind e) (dt_kind r) && bytes_eqb (dt_name e) (dt_name r) && bytes_eqb (dt_desc e) (dt_desc r)
    && opt_match (list_match field_match) (dt_fields e) (dt_fields r)
    && opt_match (list_match dref_eqb) (dt_interfaces e) (dt_interfaces r)
    && opt_match (list_match dref_eqb) (dt_possible e) (dt_possible r)
    && opt_match (list_match enum_match) (dt_enums e) (dt_enums r)
    && opt_match (list_match input_match) (dt_inputs e) (dt_inputs r).
  Definition directive_match (e r : ddirective) : bool :=
    bytes_eqb (ddr_name e) (ddr_name r) && bytes_eqb (ddr_desc e) (ddr_desc r)
    && list_match bytes_eqb (ddr_locs e) (ddr_locs r) && list_match input_match (ddr_args e) (ddr_args r).
  Definition matches (e r : description) : bool :=
    list_match type_match (d_types e) (d_types r)
    && opt_match bytes_eqb (d_query e) (d_query r) && opt_match bytes_eqb (d_mutation e) (d_mutation r)
    && opt_match bytes_eqb (d_subscription e) (d_subscription r)
    && list_match directive_match (d_directives e) (d_directives r).
End Match.

(* every default configured in a description is a well-typed default (wt_default) *)
Definition default_wt (ts : list vtype) (D : decor) (d : ddefault) : bool :=
  match d with DNone => true | DValue t v => wt_default lit_fuel ts D t v | DText _ _ => false end.
Definition inputs_wt (ts : list vtype) (D : decor) (l : list dinput) : bool :=
  forallb (fun i => default_wt ts D (di_default i)) l.
Definition field_wt (ts : list vtype) (D : decor) (f : dfield) : bool := inputs_wt ts D (df_args f).
Definition type_wt (ts : list vtype) (D : decor) (t : dtype) : bool :=
  match dt_fields t with Some fs => forallb (field_wt ts D) fs | None => true end
  && match dt_inputs t with Some l => inputs_wt ts D l | None => true end.
Definition description_wt (ts : list vtype) (D : decor) (e : description) : bool :=
  forallb (type_wt ts D) (d_types e) && forallb (fun d => inputs_wt ts D (ddr_args d)) (d_directives e).

(* the Spec: the reported description r (lists in name order) is an exact description of (V, D) *)
Definition describes (V : view) (D : decor) (r : description) : bool := matches true (v_types V) D (describe V D) r.

(* ---------- rebuilding the schema's structure from a description (used to state the round trip) ---------- *)
Fixpoint id_of_name (ts : list vtype) (n : name) : option N :=
  match ts with
  | [] => None
  | t :: r => if bytes_eqb (vt_name t) n then Some (vt_id t) else id_of_name r n
  end.

Fixpoint tref_of (ts : list vtype) (d : dref) : tref :=
  match d with
  | DRNamed _ n => match id_of_name ts n with Some i => TNamed i | None => TNil end
  | DRList x => TList (tref_of ts x)
  | DRNonNull x => TNonNull (tref_of ts x)
  end.

Definition ref_id (ts : list vtype) (d : dref) : N := match tref_of ts d with TNamed i => i | _ => 0 end.
Definition rebuild_args (ts : list vtype) (l : list dinput) : list (name * tref) :=
  map (fun i => (di_name i, tref_of ts (di_type i))) l.
Definition rebuild_field (ts : list vtype) (f : dfield) : vfield :=
  VF (df_name f) (tref_of ts (df_type f)) (rebuild_args ts (df_args f)).

(* the fields / enumValues resolvers with their includeDeprecated argument *)
Definition fields_resolver (include_deprecated : bool) (l : list dfield) : list dfield :=
  filter (fun f => include_deprecated || negb (df_isdep f)) l.
Definition enums_resolver (include_deprecated : bool) (l : list denum) : list denum :=
  filter (fun e => include_deprecated || negb (de_isdep e)) l.

(* what introspection reports for one type of the map *)
Definition introspect_type (V : view) (D : decor) (vt : vtype) : dtype :=
  resolve_type (v_types V) (describe_type V D vt).

(* decorations of a field / enum value *)
Definition field_dep (D : decor) (i : N) (fn : name) : bytes :=
  match assocN i (dc_types D) with
  | Some td => match find_dec fn (td_fields td) with Some fd => fd_dep fd | None => [] end
  | None => []
  end.
Definition value_dep (D : decor) (i : N) (vn : name) : bytes :=
  match assocN i (dc_types D) with
  | Some td => match find_dec vn (td_values td) with Some vd => vd_dep vd | None => [] end
  | None => []
  end.
