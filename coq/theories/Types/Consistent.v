(* Spec for C11: what it means for the public view of a schema to be a
   consistent type system, as a proposition (Consistent) and as the boolean
   oracle (consistentb) that judges what the implementation returned.
   No proofs here; consistentb_iff is in Proofs/TypesSpec.v. *)
From Coq Require Import List NArith Bool.
From GQL Require Import Base.Bytes Types.Schema.
Import ListNotations.
Open Scope N_scope.

Fixpoint vfind (ts : list vtype) (i : N) : option vtype :=
  match ts with
  | [] => None
  | t :: r => if vt_id t =? i then Some t else vfind r i
  end.

Definition vkind_input (d : vdef) : bool := match d with VScalar | VEnum _ | VInput _ => true | _ => false end.
Definition vkind_output (d : vdef) : bool :=
  match d with VScalar | VEnum _ | VObject _ _ | VInterface _ | VUnion _ => true | _ => false end.
Definition vkind_object (d : vdef) : bool := match d with VObject _ _ => true | _ => false end.
Definition vkind_interface (d : vdef) : bool := match d with VInterface _ => true | _ => false end.

(* a well-formed reference: no nil inside, no non-null of non-null *)
Fixpoint wf_ref (t : tref) : bool :=
  match t with
  | TNil => false
  | TNamed _ => true
  | TList t' => wf_ref t'
  | TNonNull t' => negb (is_non_null t') && wf_ref t'
  end.

(* the named type a reference ends in is in the type map and has a kind allowed at this position *)
Definition ref_ok (ts : list vtype) (allowed : vdef -> bool) (t : tref) : bool :=
  wf_ref t &&
  match get_named t with
  | Some i => match vfind ts i with Some vt => allowed (vt_def vt) | None => false end
  | None => false
  end.

Definition id_ok (ts : list vtype) (allowed : vdef -> bool) (i : N) : bool :=
  match vfind ts i with Some vt => allowed (vt_def vt) | None => false end.

Definition field_ok (ts : list vtype) (f : vfield) : bool :=
  ref_ok ts vkind_output (vf_type f) && forallb (fun a => ref_ok ts vkind_input (snd a)) (vf_args f).

(* closure under reference and position rules, for one entry of the type map *)
Definition type_ok (ts : list vtype) (vt : vtype) : bool :=
  match vt_def vt with
  | VScalar | VEnum _ => true
  | VObject ifs fs => forallb (id_ok ts vkind_interface) ifs && forallb (field_ok ts) fs
  | VInterface fs => forallb (field_ok ts) fs
  | VUnion ms => forallb (id_ok ts vkind_object) ms
  | VInput fs => forallb (fun f => ref_ok ts vkind_input (snd f)) fs
  | VWrapper => false
  end.

(* possible types, from the declarations alone *)
Definition possible (ts : list vtype) (a o : N) : bool :=
  match vfind ts a, vfind ts o with
  | Some va, Some vo =>
    match vt_def va, vt_def vo with
    | VInterface _, VObject ifs _ => memN a ifs
    | VUnion ms, VObject _ _ => memN o ms
    | _, _ => false
    end
  | _, _ => false
  end.

(* the subtype relation of the GraphQL specification (covariant result types),
   over a given possible-type relation poss abstract object *)
Inductive subtype (poss : N -> N -> bool) : tref -> tref -> Prop :=
| st_refl t : subtype poss t t
| st_nonnull a b : subtype poss a b -> subtype poss (TNonNull a) (TNonNull b)
| st_nonnull_l a b : is_non_null b = false -> subtype poss a b -> subtype poss (TNonNull a) b
| st_list a b : subtype poss a b -> subtype poss (TList a) (TList b)
| st_possible o a : poss a o = true -> subtype poss (TNamed o) (TNamed a).

(* object field list ofs satisfies interface field jf: the field is there, its
   type is a subtype, every interface argument is there with the identical type,
   and additional arguments are not required *)
Definition implements_field (poss : N -> N -> bool) (ofs : list vfield) (jf : vfield) : Prop :=
  exists f, find_field (vf_name jf) ofs = Some f
    /\ subtype poss (vf_type f) (vf_type jf)
    /\ (forall an at', In (an, at') (vf_args jf) -> assoc_name an (vf_args f) = Some at')
    /\ (forall an at', In (an, at') (vf_args f) -> assoc_name an (vf_args jf) = None -> is_non_null at' = false).

Definition fields_of_view (ts : list vtype) (i : N) : list vfield :=
  match vfind ts i with
  | Some vt => match vt_def vt with VObject _ fs | VInterface fs => fs | _ => [] end
  | None => []
  end.

Fixpoint assocN {A} (i : N) (l : list (N * A)) : option A :=
  match l with
  | [] => None
  | (j, x) :: r => if j =? i then Some x else assocN i r
  end.

Definition is_vobject (ts : list vtype) (i : N) : bool := id_ok ts vkind_object i.

Record Consistent (V : view) : Prop := {
  (* every named type is unique and legally named *)
  cs_unique : NoDup (map vt_name (v_types V));
  cs_names : forall vt, In vt (v_types V) -> valid_name (vt_name vt) = true;
  (* closed under reference; output types on fields, input types on arguments and input fields *)
  cs_closed : forall vt, In vt (v_types V) -> type_ok (v_types V) vt = true;
  cs_query : exists q, v_query V = Some q /\ is_vobject (v_types V) q = true;
  cs_mutation : forall m, v_mutation V = Some m -> is_vobject (v_types V) m = true;
  cs_subscription : forall m, v_subscription V = Some m -> is_vobject (v_types V) m = true;
  (* the introspection types are there *)
  cs_meta : forall n, In n meta_names -> In n (map vt_name (v_types V));
  (* every object really implements each interface it declares *)
  cs_implements : forall vt ifs fs i jf, In vt (v_types V) -> vt_def vt = VObject ifs fs -> In i ifs ->
      In jf (fields_of_view (v_types V) i) -> implements_field (possible (v_types V)) fs jf;
  (* possible types: each once, exactly the declared ones, and IsPossibleType agrees *)
  cs_possible : forall vt, In vt (v_types V) -> (vkind_interface (vt_def vt) = true \/ exists ms, vt_def vt = VUnion ms) ->
      exists row row2, assocN (vt_id vt) (v_poss V) = Some row /\ assocN (vt_id vt) (v_isposs V) = Some row2
        /\ NoDup row
        /\ (forall o, In o row <-> possible (v_types V) (vt_id vt) o = true)
        /\ (forall o, In o row2 <-> possible (v_types V) (vt_id vt) o = true)
}.

(* ---------- the boolean oracle ---------- *)
Fixpoint nodup_names (l : list name) : bool :=
  match l with
  | [] => true
  | n :: r => negb (mem_name n r) && nodup_names r
  end.

Fixpoint nodupN (l : list N) : bool :=
  match l with
  | [] => true
  | n :: r => negb (memN n r) && nodupN r
  end.

(* subtype, decided structurally *)
Definition subtypeb (ts : list vtype) (a b : tref) : bool := is_type_sub_type_of (possible ts) a b.

Definition implements_fieldb (ts : list vtype) (ofs : list vfield) (jf : vfield) : bool :=
  match find_field (vf_name jf) ofs with
  | None => false
  | Some f =>
    subtypeb ts (vf_type f) (vf_type jf)
    && forallb (fun ja => match assoc_name (fst ja) (vf_args f) with
                          | Some t => tref_eqb t (snd ja)
                          | None => false
                          end) (vf_args jf)
    && forallb (fun oa => match assoc_name (fst oa) (vf_args jf) with
                          | Some _ => true
                          | None => negb (is_non_null (snd oa))
                          end) (vf_args f)
  end.

Definition implementsb (ts : list vtype) (vt : vtype) : bool :=
  match vt_def vt with
  | VObject ifs fs => forallb (fun i => forallb (implements_fieldb ts fs) (fields_of_view ts i)) ifs
  | _ => true
  end.

Definition object_ids (ts : list vtype) : list N :=
  map vt_id (filter (fun vt => vkind_object (vt_def vt)) ts).

Definition same_set (row : list N) (p : N -> bool) (universe : list N) : bool :=
  forallb p row && forallb (fun o => negb (p o) || memN o row) universe.

Definition possibleb_row (V : view) (vt : vtype) : bool :=
  match vt_def vt with
  | VInterface _ | VUnion _ =>
    match assocN (vt_id vt) (v_poss V), assocN (vt_id vt) (v_isposs V) with
    | Some row, Some row2 =>
      nodupN row
      && same_set row (possible (v_types V) (vt_id vt)) (map vt_id (v_types V))
      && same_set row2 (possible (v_types V) (vt_id vt)) (map vt_id (v_types V))
    | _, _ => false
    end
  | _ => true
  end.

Definition root_okb (ts : list vtype) (r : option N) : bool :=
  match r with Some i => is_vobject ts i | None => true end.

Definition consistentb (V : view) : bool :=
  let ts := v_types V in
  nodup_names (map vt_name ts)
  && forallb (fun vt => valid_name (vt_name vt)) ts
  && forallb (type_ok ts) ts
  && match v_query V with Some q => is_vobject ts q | None => false end
  && root_okb ts (v_mutation V) && root_okb ts (v_subscription V)
  && forallb (fun n => mem_name n (map vt_name ts)) meta_names
  && forallb (implementsb ts) ts
  && forallb (possibleb_row V) ts.
