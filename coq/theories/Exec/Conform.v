(* C04: what it means for a response to conform to schema and query.
   PConf E t occs q : the (possibly partly deferred) response q is a legal value for a field of
   type t whose merged occurrences are occs: non-null positions are never null, list positions
   hold lists or null, leaves are legal serialisations, objects contain exactly the response keys
   CollectFields yields for their runtime type (those that name a field), each conforming to
   its own field's type, recursively. *)
From Coq Require Import List ZArith NArith String Bool.
From GQL Require Import Exec.Syntax Exec.Coerce Exec.Exec.
Import ListNotations.
Open Scope string_scope.
Open Scope list_scope.

Definition legal_scalar (k : scalar_kind) (v : jv) : Prop :=
  match k, v with
  | SInt, JInt z => in_int32 z = true
  | SFloat, JFloat _ _ => True
  | SString, JStr _ => True
  | SID, JStr _ => True
  | SBoolean, JBool _ => True
  | SOdd, JInt z => Z.odd z = true
  | _, _ => False
  end.

Definition first_name (occs : list occ) : string := match occs return string with o :: _ => oc_name o | [] => "" end.

Definition is_composite (S : schema) (n : name) : Prop :=
  match lookup_type S n with
  | Some (TObject _ _) | Some (TInterface _) | Some (TUnion _) => True
  | _ => False
  end.

Section Conf.
Variable E : env.

Inductive PConf : tyref -> list occ -> presp -> Prop :=
| PC_null t occs : is_nonnull t = false -> PConf t occs QNull
| PC_nonnull t occs q : q <> QNull -> (forall a b c d e, q <> QThunk a b c d e) ->
                        PConf t occs q -> PConf (TNonNull t) occs q
| PC_list t occs l : PConfL t occs l -> PConf (TList t) occs (QList l)
| PC_scalar n k v occs : lookup_type (en_S E) n = Some (TScalar k) -> legal_scalar k v ->
                         PConf (TNamed n) occs (QLeaf v)
| PC_enum n vals nm occs : lookup_type (en_S E) n = Some (TEnum vals) -> amem nm vals = true ->
                           PConf (TNamed n) occs (QLeaf (JStr nm))
| PC_obj n rt occs fuel g fs :
    is_composite (en_S E) n -> possible_type (en_S E) n rt = true ->
    collect_all fuel (en_S E) (en_D E) (en_vars E) rt (map oc_sub occs) [] [] = Some g ->
    PConfG rt g fs -> PConf (TNamed n) occs (QObj fs)
| PC_thunk t occs nodes p o : is_nonnull t = false -> PConf t occs (QThunk t nodes occs p o)
with PConfL : tyref -> list occ -> list presp -> Prop :=
| PL_nil t occs : PConfL t occs []
| PL_cons t occs q l : PConf t occs q -> PConfL t occs l -> PConfL t occs (q :: l)
with PConfG : name -> groups -> list (name * presp) -> Prop :=
| PG_nil rt : PConfG rt [] []
| PG_typename rt k occs g fs : String.eqb (first_name occs) "__typename" = true ->
                               PConfG rt g fs -> PConfG rt ((k, occs) :: g) ((k, QLeaf (JStr rt)) :: fs)
| PG_skip rt k occs g fs : String.eqb (first_name occs) "__typename" = false ->
                           find_field (first_name occs) (object_fields (en_S E) rt) = None ->
                           PConfG rt g fs -> PConfG rt ((k, occs) :: g) fs
| PG_field rt k occs g fs fd q : String.eqb (first_name occs) "__typename" = false ->
                                 find_field (first_name occs) (object_fields (en_S E) rt) = Some fd ->
                                 PConf (f_type fd) occs q ->
                                 PConfG rt g fs -> PConfG rt ((k, occs) :: g) ((k, q) :: fs).
End Conf.

Scheme PConf_ind' := Minimality for PConf Sort Prop
  with PConfL_ind' := Minimality for PConfL Sort Prop
  with PConfG_ind' := Minimality for PConfG Sort Prop.
Combined Scheme PConf_mutind from PConf_ind', PConfL_ind', PConfG_ind'.
