(* ExecuteRequest: operation selection, variable coercion, root selection set. *)
From Coq Require Import List ZArith NArith String Bool.
From GQL Require Import Exec.Syntax Exec.Coerce Exec.Exec.
Import ListNotations.
Open Scope string_scope.
Open Scope list_scope.

Fixpoint find_op (n : name) (ops : list operation) (acc : option operation) : option operation :=
  match ops with
  | [] => acc
  | o :: r => find_op n r (match o_name o with
                           | Some m => if String.eqb m n then Some o else acc
                           | None => acc
                           end)
  end.

Definition get_operation (D : document) (opname : option name) : option operation :=
  match opname with
  | None => match d_ops D with [o] => Some o | _ => None end
  | Some n => find_op n (d_ops D) None
  end.

Definition root_type (S : schema) (op : operation) : option name :=
  match o_kind op with
  | OpQuery => Some (s_query S)
  | OpMutation => s_mutation S
  | OpSubscription => None
  end.

Inductive reqres :=
| RFuel
| RReject                                   (* request error: no data, an error, no resolver runs *)
| RDone (data : option resp) (s : st).      (* data = None: null propagated to data itself *)

Definition request (fuel : nat) (S : schema) (D : document) (opname : option name)
           (inputs : list (name * jv)) (root : rv) (or : oracle) (tor : toracle) : reqres :=
  match get_operation D opname with
  | None => RReject
  | Some op =>
    match root_type S op with
    | None => RReject
    | Some rt =>
      match get_variable_values fuel S (o_vars op) inputs with
      | None => RFuel
      | Some (inr _) => RReject
      | Some (inl vars) =>
        let E := {| en_S := S; en_D := D; en_vars := vars; en_or := or; en_tor := tor;
                    en_serial := match o_kind op with OpMutation => true | _ => false end |} in
        match collect fuel S D vars rt (o_sel op) [] [] with
        | None => RFuel
        | Some (g, _) =>
          match exec_groups fuel E rt root g [] st0 with
          | XOk fs s =>
            match dethunk fuel E (QObj fs) s with
            | XOk q s' => RDone (Some (to_resp q)) s'
            | XRaise e s' => RDone None (add_err e s')
            | XFuel => RFuel
            end
          | XRaise e s => RDone None (add_err e s)
          | XFuel => RFuel
          end
        end
      end
    end
  end.

(* the coerced variable values of a request (what resolvers see in Info.VariableValues) *)
Definition request_vars (fuel : nat) (S : schema) (D : document) (opname : option name)
           (inputs : list (name * jv)) : option (list (name * jv)) :=
  match get_operation D opname with
  | None => None
  | Some op => match get_variable_values fuel S (o_vars op) inputs with
               | Some (inl vars) => Some vars
               | _ => None
               end
  end.

(* top-level response keys in execution order *)
Definition root_keys (fuel : nat) (S : schema) (D : document) (opname : option name)
           (inputs : list (name * jv)) : list name :=
  match get_operation D opname with
  | None => []
  | Some op =>
    match root_type S op, get_variable_values fuel S (o_vars op) inputs with
    | Some rt, Some (inl vars) =>
      match collect fuel S D vars rt (o_sel op) [] [] with
      | Some (g, _) => map fst g
      | None => []
      end
    | _, _ => []
    end
  end.
