(* Model of the *planned* executor of plan.go: PlanQuery builds a plan tree once, ExecutePlan walks it
   any number of times with different variables, roots and resolvers.

   Exec/Exec.v (the reference) calls CollectFields with the request's variables every time an object
   value is completed.  plan.go instead

     - PlanQuery / planSelectionSetsLocked: per selection-set level collects the merged field groups at
       plan time (collectInto, literal @skip/@include folded -- PlanCollect.plan_all); a level in which a
       variable-driven directive occurs is only marked *dynamic* (selectionPlan.dynamic = the merged
       selection sets) and is collected again at execute time with the variables (collectAtRuntime);
     - planMergedFieldChildren: for every merged field whose return type unwraps to an object type plans
       the sub-level eagerly; for abstract return types the sub-level is planned lazily, per runtime
       type, on first use (abstractAlternative, memoised in fieldPlan.abstractAlternatives);
     - planArguments: coerces all-literal arguments once, at plan time;
     - ExecutePlan / executePlannedSelection / resolvePlannedField / completePlanned*: walk that tree.

   What the model leaves out (see also Proofs/PlanExecProofs.v):
     - sharing of sub-levels by key (Plan.subPlans): an optimisation of *construction*; the shared
       selectionPlan is the value the planner would build again, so the tree below is its unfolding.
       (The refinement theorem is stated for every plan satisfying [wf_plan], which does not care how
       the plan was obtained.)
     - the mutable table fieldPlan.abstractAlternatives: modelled by the pure function it memoises
       ([SubAbstract alt], alt rt = the plan the same planner builds for runtime type rt);
     - locks (planMu, abstractMu), the goroutine/context race of ExecutePlan, extensions hooks,
       IsTypeOf, fragmentCycleThroughField (documents it rejects make [plan_of] run out of fuel);
     - the copy of the static argument map handed to each resolver. *)
From Coq Require Import List ZArith NArith String Bool.
From GQL Require Import Exec.Syntax Exec.Coerce Exec.Exec Exec.PlanCollect Exec.Request.
Import ListNotations.
Open Scope string_scope.
Open Scope list_scope.

(* ---- the plan tree ---- *)

(* argPlan: all-literal arguments are coerced once at plan time *)
Inductive argplan :=
| ArgStatic (vals : list (name * jv))
| ArgDynamic.                              (* hasVariables: getArgumentValues per request *)

Inductive plan :=                           (* selectionPlan *)
| PDynamic (sets : list (list selection))   (* dynamic != nil: collected again per request *)
| PStatic (fields : list pfield)
with pfield :=                              (* fieldPlan *)
| PField (key : name) (fname : name) (occs : list occ) (def : option fielddef)
         (args : argplan) (sub : subplan)
with subplan :=
| SubNone                                   (* leaf return type (or unknown field) *)
| SubObject (p : plan)                      (* fieldPlan.sub: planned eagerly *)
| SubAbstract (alt : name -> option plan).  (* the function abstractAlternatives memoises;
                                               None = the lazy planning ran out of fuel *)

Definition pf_key (f : pfield) : name := match f with PField k _ _ _ _ _ => k end.

Inductive tkind := KObject | KAbstract | KOther.
Definition type_kind (S : schema) (n : name) : tkind :=
  match lookup_type S n with
  | Some (TObject _ _) => KObject
  | Some (TInterface _) | Some (TUnion _) => KAbstract
  | _ => KOther
  end.

(* ---- the planner ---- *)

(* planMergedFieldChildren + abstractAlternative; [rec] plans a level (parent type, merged sets) *)
Definition plan_sub (S : schema) (rec : name -> list (list selection) -> option plan)
           (t : tyref) (occs : list occ) : option subplan :=
  match type_kind S (named_of t) with
  | KObject => match rec (named_of t) (map oc_sub occs) with
               | Some pl => Some (SubObject pl)
               | None => None
               end
  | KAbstract => Some (SubAbstract (fun rt => rec rt (map oc_sub occs)))
  | KOther => Some SubNone
  end.

(* planArguments *)
Definition plan_args (fuel : nat) (S : schema) (defs : list argdef) (fargs : list (name * value))
  : option argplan :=
  if args_have_vars fargs then Some ArgDynamic
  else match get_argument_values fuel S defs fargs None with
       | Some a => Some (ArgStatic a)
       | None => None
       end.

(* one merged field of a level: the fieldPlan collectInto creates for the first occurrence of a
   response key (later occurrences are appended to fieldASTs), and its children *)
Definition plan_field (fuel : nat) (S : schema) (obj : name)
           (rec : name -> list (list selection) -> option plan) (ko : name * list occ) : option pfield :=
  let '(k, occs) := ko in
  let fname := match occs return string with o :: _ => oc_name o | [] => "" end in
  let fargs := match occs with o :: _ => oc_args o | [] => [] end in
  match find_field fname (object_fields S obj) with
  | None => Some (PField k fname occs None ArgDynamic SubNone)
  | Some fd =>
    match plan_args fuel S (f_args fd) fargs, plan_sub S rec (f_type fd) occs with
    | Some ap, Some sub => Some (PField k fname occs (Some fd) ap sub)
    | _, _ => None
    end
  end.

(* planSelectionSetsLocked with cs.runtime = false *)
Fixpoint plan_of (fuel : nat) (S : schema) (D : document) (obj : name) (sets : list (list selection))
  : option plan :=
  match fuel with
  | O => None
  | S fuel' =>
    match plan_all fuel' S D obj sets [] [] false with
    | None => None
    | Some (_, _, true) => Some (PDynamic sets)
    | Some (g, _, false) =>
      match omap (plan_field fuel' S obj (plan_of fuel' S D)) g with
      | Some fs => Some (PStatic fs)
      | None => None
      end
    end
  end.

(* the second half of planSelectionSetsLocked, for groups collected at execute time (collectAtRuntime
   runs collectInto with the variables, then planMergedFieldChildren for every field) *)
Definition plan_fields (fuel : nat) (S : schema) (D : document) (obj : name) (g : groups)
  : option (list pfield) :=
  omap (plan_field fuel S obj (plan_of fuel S D)) g.

(* ---- responses under construction: a deferred value keeps its fieldPlan's sub-plan ---- *)
Inductive qresp :=
| PQNull
| PQLeaf (v : jv)
| PQList (l : list qresp)
| PQObj (l : list (name * qresp))
| PQThunk (t : tyref) (nodes : list N) (occs : list occ) (sub : subplan) (p : path) (o : outcome).

(* forgetting the plan pointers kept in deferred values *)
Fixpoint erase (q : qresp) : presp :=
  match q with
  | PQNull => QNull
  | PQLeaf v => QLeaf v
  | PQList l => QList (map erase l)
  | PQObj l => QObj (map (fun kv => (fst kv, erase (snd kv))) l)
  | PQThunk t nodes occs _ p o => QThunk t nodes occs p o
  end.

Definition pcatch_at (t : tyref) (r : xres qresp) : xres qresp :=
  match r with
  | XRaise e s => if is_nonnull t then XRaise e s else XOk PQNull (add_err e s)
  | _ => r
  end.

(* ---- the walker ---- *)

(* executePlannedSelection, first lines: the fields of a level -- the planned ones, or for a dynamic
   level the ones collected now, with the request's variables *)
Definition level_fields (pf cf : nat) (E : env) (obj : name) (pl : plan) : option (list pfield) :=
  match pl with
  | PStatic fs => Some fs
  | PDynamic sets =>
    match collect_all cf (en_S E) (en_D E) (en_vars E) obj sets [] [] with
    | Some g => plan_fields pf (en_S E) (en_D E) obj g
    | None => None
    end
  end.

(* resolvePlannedField *)
Definition pexec_field (fuel' : nat)
           (cmp : tyref -> list N -> list occ -> subplan -> path -> path -> rv -> st -> xres qresp)
           (dth : qresp -> st -> xres qresp)
           (E : env) (obj : name) (src : rv) (f : pfield) (p : path) (s : st)
  : xres (option qresp) :=
  match f with
  | PField k fname occs def ap sub =>
    let fargs := match occs with o :: _ => oc_args o | [] => [] end in
    let nodes := map oc_id occs in
    let fp := p ++ [PKey k] in
    if String.eqb fname "__typename" then XOk (Some (PQLeaf (JStr obj))) s
    else match def with
    | None => XOk None s
    | Some fd =>
      match match ap with
            | ArgStatic a => Some a
            | ArgDynamic => get_argument_values fuel' (en_S E) (f_args fd) fargs (Some (en_vars E))
            end with
      | None => XFuel
      | Some args =>
        let s1 := add_call {| c_path := fp; c_parent := obj; c_field := fname; c_source := src;
                              c_args := args; c_nodes := nodes |} s in
        let '(o, thunked) :=
            match en_or E fp with
            | Some o => force o
            | None => (OVal RNull, false)
            end in
        let s2 := match en_or E fp with Some _ => s1 | None => add_missing fp s1 end in
        let c0 := match o with
                  | OVal v => cmp (f_type fd) nodes occs sub fp fp v s2
                  | _ => XRaise {| e_path := fp; e_nodes := nodes |} s2
                  end in
        let r1 :=
            if thunked && negb (is_nonnull (f_type fd)) then
              XOk (PQThunk (f_type fd) nodes occs sub fp o) s2
            else
              match c0 with
              | XRaise e s' => if thunked then XRaise e (set_escape s') else c0
              | _ => c0
              end in
        match pcatch_at (f_type fd) r1 with
        | XOk y s' =>
          if en_serial E && match p with [] => true | _ => false end
          then match dth y s' with
               | XOk y' s'' => XOk (Some y') s''
               | XRaise e s'' => XRaise e s''
               | XFuel => XFuel
               end
          else XOk (Some y) s'
        | XRaise e s' => XRaise e s'
        | XFuel => XFuel
        end
      end
    end
  end.

Fixpoint pitems_loop (cmp : N -> rv -> st -> xres qresp) (l : list rv) (i : N) (s : st) : xres (list qresp) :=
  match l with
  | [] => XOk [] s
  | x :: r =>
    match cmp i x s with
    | XOk y s' =>
      match pitems_loop cmp r (i + 1)%N s' with
      | XOk ys s'' => XOk (y :: ys) s''
      | XRaise e s'' => XRaise e s''
      | XFuel => XFuel
      end
    | XRaise e s' => XRaise e s'
    | XFuel => XFuel
    end
  end.

Fixpoint pdethunk_list (f : qresp -> st -> xres qresp) (l : list qresp) (s : st) : xres (list qresp) :=
  match l with
  | [] => XOk [] s
  | x :: r =>
    match f x s with
    | XOk y s' => match pdethunk_list f r s' with
                  | XOk ys s'' => XOk (y :: ys) s''
                  | XRaise e s'' => XRaise e s''
                  | XFuel => XFuel
                  end
    | XRaise e s' => XRaise e s'
    | XFuel => XFuel
    end
  end.

Fixpoint pdethunk_fields (f : qresp -> st -> xres qresp) (l : list (name * qresp)) (s : st)
  : xres (list (name * qresp)) :=
  match l with
  | [] => XOk [] s
  | (k, x) :: r =>
    match f x s with
    | XOk y s' => match pdethunk_fields f r s' with
                  | XOk ys s'' => XOk ((k, y) :: ys) s''
                  | XRaise e s'' => XRaise e s''
                  | XFuel => XFuel
                  end
    | XRaise e s' => XRaise e s'
    | XFuel => XFuel
    end
  end.

(* completePlannedValue / completePlannedListValue / completePlannedObjectValue /
   completePlannedAbstractValue; executePlannedSelection; the dethunk pass.
   [pf] is the planning fuel available at execute time (dynamic levels, abstract alternatives). *)
Fixpoint pcomplete (fuel pf : nat) (E : env) (t : tyref) (nodes : list N) (occs : list occ) (sub : subplan)
         (fpath p : path) (v : rv) (s : st) {struct fuel} : xres qresp :=
  match fuel with
  | O => XFuel
  | S fuel' =>
    match t with
    | TNonNull t' =>
      match pcomplete fuel' pf E t' nodes occs sub fpath p v s with
      | XOk PQNull s' => XRaise {| e_path := p; e_nodes := nodes |} s'
      | r => r
      end
    | _ =>
      if rv_nullish v then XOk PQNull s
      else match t with
      | TNonNull _ => XFuel (* unreachable *)
      | TList t' =>
        match v with
        | RList l =>
          match pitems_loop (fun i x s0 => pcatch_at t' (pcomplete fuel' pf E t' nodes occs sub fpath (p ++ [PIdx i]) x s0)) l 0%N s
          with
          | XOk ys s' => XOk (PQList ys) s'
          | XRaise e s' => XRaise e s'
          | XFuel => XFuel
          end
        | _ => XRaise {| e_path := p; e_nodes := nodes |} s
        end
      | TNamed n =>
        match lookup_type (en_S E) n with
        | Some (TScalar k) =>
          let j := serialize_scalar k v in XOk (if nullish j then PQNull else PQLeaf j) s
        | Some (TEnum vals) =>
          let j := serialize_enum vals v in XOk (if nullish j then PQNull else PQLeaf j) s
        | Some (TObject _ _) =>
          match sub with
          | SubObject pl => pexec_object fuel' pf E n pl p v s
          | _ => XOk (PQObj []) s        (* fp.sub == nil: "defensive empty map" *)
          end
        | Some (TInterface _) | Some (TUnion _) =>
          let s1 := add_tcall (fpath, v) s in
          match en_tor E v with
          | Some rt =>
            if possible_type (en_S E) n rt then
              match sub with
              | SubAbstract alt =>
                match alt rt with
                | Some pl => pexec_object fuel' pf E rt pl p v s1
                | None => XFuel
                end
              | _ => XOk (PQObj []) s1
              end
            else XRaise {| e_path := p; e_nodes := nodes |} s1
          | None => XRaise {| e_path := p; e_nodes := nodes |} s1
          end
        | _ => XRaise {| e_path := p; e_nodes := nodes |} s
        end
      end
    end
  end

with pexec_object (fuel pf : nat) (E : env) (obj : name) (pl : plan) (p : path) (src : rv) (s : st)
     {struct fuel} : xres qresp :=
  match fuel with
  | O => XFuel
  | S fuel' =>
    match level_fields pf fuel' E obj pl with
    | None => XFuel
    | Some fs =>
      match pexec_fields fuel' pf E obj src fs p s with
      | XOk l s' => XOk (PQObj l) s'
      | XRaise e s' => XRaise e s'
      | XFuel => XFuel
      end
    end
  end

with pexec_fields (fuel pf : nat) (E : env) (obj : name) (src : rv) (fs : list pfield) (p : path) (s : st)
     {struct fuel} : xres (list (name * qresp)) :=
  match fuel with
  | O => XFuel
  | S fuel' =>
    match fs with
    | [] => XOk [] s
    | f :: rest =>
      match pexec_field fuel' (pcomplete fuel' pf E) (pdethunk fuel' pf E) E obj src f p s with
      | XOk y s' =>
        match pexec_fields fuel' pf E obj src rest p s' with
        | XOk ys s'' => XOk (match y with Some y => (pf_key f, y) :: ys | None => ys end) s''
        | XRaise e s'' => XRaise e s''
        | XFuel => XFuel
        end
      | XRaise e s' => XRaise e s'
      | XFuel => XFuel
      end
    end
  end

with pdethunk (fuel pf : nat) (E : env) (q : qresp) (s : st) {struct fuel} : xres qresp :=
  match fuel with
  | O => XFuel
  | S fuel' =>
    match q with
    | PQNull => XOk PQNull s
    | PQLeaf v => XOk (PQLeaf v) s
    | PQList l =>
      match pdethunk_list (pdethunk fuel' pf E) l s with
      | XOk ys s' => XOk (PQList ys) s'
      | XRaise e s' => XRaise e s'
      | XFuel => XFuel
      end
    | PQObj l =>
      match pdethunk_fields (pdethunk fuel' pf E) l s with
      | XOk ys s' => XOk (PQObj ys) s'
      | XRaise e s' => XRaise e s'
      | XFuel => XFuel
      end
    | PQThunk t nodes occs sub p o =>
      let r := match o with
               | OVal v => pcomplete fuel' pf E t nodes occs sub p p v s
               | _ => XRaise {| e_path := p; e_nodes := nodes |} s
               end in
      match pcatch_at t r with
      | XOk y s' => pdethunk fuel' pf E y s'
      | r' => r'
      end
    end
  end.

(* ---- PlanQuery and ExecutePlan ---- *)
Record prepared := { pp_op : operation; pp_root : name; pp_plan : plan }.

Inductive planres :=
| PlanFuel
| PlanReject                      (* PlanQuery returns an error *)
| Planned (pp : prepared).

Definition plan_query (pf : nat) (S : schema) (D : document) (opname : option name) : planres :=
  match get_operation D opname with
  | None => PlanReject
  | Some op =>
    match root_type S op with
    | None => PlanReject
    | Some rt =>
      match plan_of pf S D rt [o_sel op] with
      | None => PlanFuel
      | Some pl => Planned {| pp_op := op; pp_root := rt; pp_plan := pl |}
      end
    end
  end.

Definition execute_plan (pf ef : nat) (S : schema) (D : document) (pp : prepared)
           (inputs : list (name * jv)) (root : rv) (or : oracle) (tor : toracle) : reqres :=
  match get_variable_values ef S (o_vars (pp_op pp)) inputs with
  | None => RFuel
  | Some (inr _) => RReject
  | Some (inl vars) =>
    let E := {| en_S := S; en_D := D; en_vars := vars; en_or := or; en_tor := tor;
                en_serial := match o_kind (pp_op pp) with OpMutation => true | _ => false end |} in
    match level_fields pf ef E (pp_root pp) (pp_plan pp) with
    | None => RFuel
    | Some fs =>
      match pexec_fields ef pf E (pp_root pp) root fs [] st0 with
      | XOk l s =>
        match pdethunk ef pf E (PQObj l) s with
        | XOk q s' => RDone (Some (to_resp (erase q))) s'
        | XRaise e s' => RDone None (add_err e s')
        | XFuel => RFuel
        end
      | XRaise e s => RDone None (add_err e s)
      | XFuel => RFuel
      end
    end
  end.

(* PlanQuery followed by one ExecutePlan *)
Definition request (pf ef : nat) (S : schema) (D : document) (opname : option name)
           (inputs : list (name * jv)) (root : rv) (or : oracle) (tor : toracle) : reqres :=
  match plan_query pf S D opname with
  | PlanFuel => RFuel
  | PlanReject => RReject
  | Planned pp => execute_plan pf ef S D pp inputs root or tor
  end.

(* ---- what the walker relies on: every level of the plan serves every variable assignment.
        [pf] bounds the fuel the plan-time collections needed. ---- *)
Section WF.
  Variables (pf : nat) (S : schema) (D : document).

  Inductive wf_args (defs : list argdef) (fargs : list (name * value)) : argplan -> Prop :=
  | wf_args_dyn : wf_args defs fargs ArgDynamic
  | wf_args_static : forall a,
      (forall vars, get_argument_values pf S defs fargs (Some vars) = Some a) ->
      wf_args defs fargs (ArgStatic a).

  Inductive wf_plan : name -> list (list selection) -> plan -> Prop :=
  | wf_dynamic : forall obj sets, wf_plan obj sets (PDynamic sets)
  | wf_static : forall obj sets g fs,
      (forall vars, collect_all pf S D vars obj sets [] [] = Some g) ->
      wf_fields obj g fs ->
      wf_plan obj sets (PStatic fs)
  with wf_fields : name -> groups -> list pfield -> Prop :=
  | wf_fields_nil : forall obj, wf_fields obj [] []
  | wf_fields_cons : forall obj k occs g f fs,
      wf_field obj k occs f -> wf_fields obj g fs -> wf_fields obj ((k, occs) :: g) (f :: fs)
  with wf_field : name -> name -> list occ -> pfield -> Prop :=
  | wf_field_unknown : forall obj k occs ap sub,
      find_field (match occs return string with o :: _ => oc_name o | [] => "" end) (object_fields S obj) = None ->
      wf_field obj k occs (PField k (match occs return string with o :: _ => oc_name o | [] => "" end) occs None ap sub)
  | wf_field_known : forall obj k occs fd ap sub,
      find_field (match occs return string with o :: _ => oc_name o | [] => "" end) (object_fields S obj) = Some fd ->
      wf_args (f_args fd) (match occs with o :: _ => oc_args o | [] => [] end) ap ->
      wf_sub (named_of (f_type fd)) occs sub ->
      wf_field obj k occs (PField k (match occs return string with o :: _ => oc_name o | [] => "" end) occs (Some fd) ap sub)
  with wf_sub : name -> list occ -> subplan -> Prop :=
  | wf_sub_object : forall n occs pl,
      type_kind S n = KObject -> wf_plan n (map oc_sub occs) pl -> wf_sub n occs (SubObject pl)
  | wf_sub_abstract : forall n occs alt,
      type_kind S n = KAbstract ->
      (forall rt pl, alt rt = Some pl -> wf_plan rt (map oc_sub occs) pl) ->
      wf_sub n occs (SubAbstract alt)
  | wf_sub_other : forall n occs sub, type_kind S n = KOther -> wf_sub n occs sub.

  (* deferred values keep well-formed sub-plans *)
  Inductive qwf : qresp -> Prop :=
  | qwf_null : qwf PQNull
  | qwf_leaf : forall v, qwf (PQLeaf v)
  | qwf_list : forall l, Forall qwf l -> qwf (PQList l)
  | qwf_obj : forall l, Forall (fun kv : name * qresp => qwf (snd kv)) l -> qwf (PQObj l)
  | qwf_thunk : forall t nodes occs sub p o,
      wf_sub (named_of t) occs sub -> qwf (PQThunk t nodes occs sub p o).
End WF.
