(* Specification of input coercion (GraphQL "Input Coercion", the edition the library
   follows): which JSON-like values conform to an input type and what they coerce to,
   the same for constant literals, and the listed non-conformant values of C05. *)
From Coq Require Import List ZArith String Bool.
From GQL Require Import Exec.Syntax Exec.Coerce.
Import ListNotations.
Open Scope string_scope.

Inductive scalar_conf : scalar_kind -> jv -> jv -> Prop :=
| sc_int z : in_int32 z = true -> scalar_conf SInt (JInt z) (JInt z)
| sc_float_int z : scalar_conf SFloat (JInt z) (JFloat z 1)
| sc_float n d : scalar_conf SFloat (JFloat n d) (JFloat n d)
| sc_string s : scalar_conf SString (JStr s) (JStr s)
| sc_bool b : scalar_conf SBoolean (JBool b) (JBool b)
| sc_id_str s : scalar_conf SID (JStr s) (JStr s)
| sc_id_int z : scalar_conf SID (JInt z) (JStr (z_to_string z))
| sc_odd z : Z.odd z = true -> scalar_conf SOdd (JInt z) (JInt z).

Definition with_default (d : option jv) (r : jv) : jv :=
  if nullish r then match d with Some x => x | None => JNull end else r.

Definition keep_nonnull (kvs : list (name * jv)) : list (name * jv) :=
  filter (fun kv => negb (nullish (snd kv))) kvs.

Section Spec.
Variable S : schema.

(* SC t v r : the variable value v conforms to t and coerces to r *)
Inductive SC : tyref -> jv -> jv -> Prop :=
| SC_null t : is_nonnull t = false -> SC t JNull JNull
| SC_nonnull t v r : v <> JNull -> SC t v r -> SC (TNonNull t) v r
| SC_list t l rs : SCL t l rs -> SC (TList t) (JList l) (JList rs)
| SC_list1 t v r : v <> JNull -> (forall l, v <> JList l) -> SC t v r -> SC (TList t) v (JList [r])
| SC_scalar n k v r : lookup_type S n = Some (TScalar k) -> scalar_conf k v r -> SC (TNamed n) v r
| SC_enum n vals nm iv : lookup_type S n = Some (TEnum vals) -> alookup nm vals = Some iv -> iv <> JNull ->
                         SC (TNamed n) (JStr nm) iv
| SC_obj n fs m kvs : lookup_type S n = Some (TInputObject fs) ->
                      forallb (fun kv => existsb (fun f => String.eqb (fst kv) (a_name f)) fs) m = true ->
                      SCF fs m kvs -> SC (TNamed n) (JObj m) (JObj (keep_nonnull kvs))
with SCL : tyref -> list jv -> list jv -> Prop :=
| SCL_nil t : SCL t [] []
| SCL_cons t x y xs ys : SC t x y -> SCL t xs ys -> SCL t (x :: xs) (y :: ys)
with SCF : list argdef -> list (name * jv) -> list (name * jv) -> Prop :=
| SCF_nil m : SCF [] m []
| SCF_cons f fs m r rs : SC (a_type f) (jlookup (a_name f) m) r -> SCF fs m rs ->
                         SCF (f :: fs) m ((a_name f, with_default (a_default f) r) :: rs).

(* ---- constant literals ---- *)
Inductive scalar_lit : scalar_kind -> value -> jv -> Prop :=
| sl_int z : in_int32 z = true -> scalar_lit SInt (VInt z) (JInt z)
| sl_float_int z : scalar_lit SFloat (VInt z) (JFloat z 1)
| sl_float n d : scalar_lit SFloat (VFloat n d) (JFloat n d)
| sl_string s : scalar_lit SString (VStr s) (JStr s)
| sl_bool b : scalar_lit SBoolean (VBool b) (JBool b)
| sl_id_str s : scalar_lit SID (VStr s) (JStr s)
| sl_id_int z : scalar_lit SID (VInt z) (JStr (z_to_string z))
| sl_odd z : Z.odd z = true -> scalar_lit SOdd (VInt z) (JInt z).

(* SL t l r : the constant literal l (None = not written) conforms to t and coerces to r *)
Inductive SL : tyref -> option value -> jv -> Prop :=
| SL_absent t : is_nonnull t = false -> SL t None JNull
| SL_nonnull t l r : SL t (Some l) r -> SL (TNonNull t) (Some l) r
| SL_list t ls rs : SLL t ls rs -> SL (TList t) (Some (VList ls)) (JList rs)
| SL_list1 t l r : (forall ls, l <> VList ls) -> (forall x, l <> VVar x) -> SL t (Some l) r -> SL (TList t) (Some l) (JList [r])
| SL_scalar n k l r : lookup_type S n = Some (TScalar k) -> scalar_lit k l r -> SL (TNamed n) (Some l) r
| SL_enum n vals nm iv : lookup_type S n = Some (TEnum vals) -> alookup nm vals = Some iv -> iv <> JNull ->
                         SL (TNamed n) (Some (VEnum nm)) iv
| SL_obj n fs lfs kvs : lookup_type S n = Some (TInputObject fs) ->
                        forallb (fun kv => existsb (fun f => String.eqb (fst kv) (a_name f)) fs) lfs = true ->
                        SLF fs lfs kvs -> SL (TNamed n) (Some (VObj lfs)) (JObj (keep_nonnull kvs))
with SLL : tyref -> list value -> list jv -> Prop :=
| SLL_nil t : SLL t [] []
| SLL_cons t x y xs ys : SL t (Some x) y -> SLL t xs ys -> SLL t (x :: xs) (y :: ys)
with SLF : list argdef -> list (name * value) -> list (name * jv) -> Prop :=
| SLF_nil m : SLF [] m []
| SLF_cons f fs m r rs : SL (a_type f) (alookup (a_name f) m) r -> SLF fs m rs ->
                         SLF (f :: fs) m ((a_name f, with_default (a_default f) r) :: rs).

(* SLv vars t l r : the literal l, which may mention variables at any depth, coerces to r at type t
   under the coerced variable values vars: a variable stands for its coerced value, used as it is
   (its type was checked against the position by validation); everything else as SL *)
Section WithVars.
Variable vars : list (name * jv).
Inductive SLv : tyref -> option value -> jv -> Prop :=
| SLv_var t x : SLv t (Some (VVar x)) (jlookup x vars)
| SLv_absent t : is_nonnull t = false -> SLv t None JNull
| SLv_nonnull t l r : SLv t (Some l) r -> SLv (TNonNull t) (Some l) r
| SLv_list t ls rs : SLvL t ls rs -> SLv (TList t) (Some (VList ls)) (JList rs)
| SLv_list1 t l r : (forall ls, l <> VList ls) -> (forall x, l <> VVar x) -> SLv t (Some l) r -> SLv (TList t) (Some l) (JList [r])
| SLv_scalar n k l r : lookup_type S n = Some (TScalar k) -> scalar_lit k l r -> SLv (TNamed n) (Some l) r
| SLv_enum n vals nm iv : lookup_type S n = Some (TEnum vals) -> alookup nm vals = Some iv -> iv <> JNull ->
                          SLv (TNamed n) (Some (VEnum nm)) iv
| SLv_obj n fs lfs kvs : lookup_type S n = Some (TInputObject fs) ->
                         forallb (fun kv => existsb (fun f => String.eqb (fst kv) (a_name f)) fs) lfs = true ->
                         SLvF fs lfs kvs -> SLv (TNamed n) (Some (VObj lfs)) (JObj (keep_nonnull kvs))
with SLvL : tyref -> list value -> list jv -> Prop :=
| SLvL_nil t : SLvL t [] []
| SLvL_cons t x y xs ys : SLv t (Some x) y -> SLvL t xs ys -> SLvL t (x :: xs) (y :: ys)
with SLvF : list argdef -> list (name * value) -> list (name * jv) -> Prop :=
| SLvF_nil m : SLvF [] m []
| SLvF_cons f fs m r rs : SLv (a_type f) (alookup (a_name f) m) r -> SLvF fs m rs ->
                          SLvF (f :: fs) m ((a_name f, with_default (a_default f) r) :: rs).
End WithVars.

(* ---- the non-conformant values C05 lists ---- *)
Inductive NC : tyref -> jv -> Prop :=
| NC_null t : NC (TNonNull t) JNull                                            (* null / absent for a non-null type *)
| NC_nonnull t v : NC t v -> NC (TNonNull t) v
| NC_elem t l x : In x l -> NC t x -> NC (TList t) (JList l)                   (* a bad element *)
| NC_list1 t v : v <> JNull -> (forall l, v <> JList l) -> NC t v -> NC (TList t) v
| NC_int_kind n v : lookup_type S n = Some (TScalar SInt) ->
                    (match v with JStr _ | JList _ | JObj _ => True | _ => False end) -> NC (TNamed n) v  (* non-numeric for Int *)
| NC_float_kind n v : lookup_type S n = Some (TScalar SFloat) ->
                    (match v with JStr _ | JList _ | JObj _ => True | _ => False end) -> NC (TNamed n) v
| NC_int_range n z : lookup_type S n = Some (TScalar SInt) -> in_int32 z = false -> NC (TNamed n) (JInt z)
| NC_enum_unknown n vals nm : lookup_type S n = Some (TEnum vals) -> alookup nm vals = None -> NC (TNamed n) (JStr nm)
| NC_enum_kind n vals v : lookup_type S n = Some (TEnum vals) -> v <> JNull -> (forall s, v <> JStr s) -> NC (TNamed n) v
| NC_not_object n fs v : lookup_type S n = Some (TInputObject fs) -> v <> JNull -> (forall m, v <> JObj m) -> NC (TNamed n) v
| NC_unknown_field n fs m k : lookup_type S n = Some (TInputObject fs) -> amem k m = true ->
                              existsb (fun f => String.eqb k (a_name f)) fs = false -> NC (TNamed n) (JObj m)
| NC_field n fs m f : lookup_type S n = Some (TInputObject fs) -> In f fs ->
                      NC (a_type f) (jlookup (a_name f) m) -> NC (TNamed n) (JObj m).   (* incl. a missing required field *)
End Spec.

Scheme SC_ind' := Minimality for SC Sort Prop
  with SCL_ind' := Minimality for SCL Sort Prop
  with SCF_ind' := Minimality for SCF Sort Prop.
Combined Scheme SC_mutind from SC_ind', SCL_ind', SCF_ind'.

Scheme SLv_ind' := Minimality for SLv Sort Prop
  with SLvL_ind' := Minimality for SLvL Sort Prop
  with SLvF_ind' := Minimality for SLvF Sort Prop.
Combined Scheme SLv_mutind from SLv_ind', SLvL_ind', SLvF_ind'.

Scheme SL_ind' := Minimality for SL Sort Prop
  with SLL_ind' := Minimality for SLL Sort Prop
  with SLF_ind' := Minimality for SLF Sort Prop.
Combined Scheme SL_mutind from SL_ind', SLL_ind', SLF_ind'.

(* the JSON-like value a constant literal denotes *)
Fixpoint json_of (l : value) : jv :=
  match l with
  | VVar _ => JNull
  | VInt z => JInt z
  | VFloat n d => JFloat n d
  | VStr s => JStr s
  | VBool b => JBool b
  | VEnum n => JStr n
  | VList ls => JList (map json_of ls)
  | VObj fs => JObj (map (fun kv => (fst kv, json_of (snd kv))) fs)
  end.
