(* Shared vocabulary of the execution family (C01, C04, C05, C13, C20, C18 paths):
   names, types, input values, documents, schemas, resolver results, responses. *)
From Coq Require Import List ZArith NArith String Bool Ascii.
Import ListNotations.
Open Scope string_scope.

Definition name := string.

(* ---- association lists keyed by names (Go maps; keys unique by construction) ---- *)
Fixpoint alookup {A} (k : name) (l : list (name * A)) : option A :=
  match l with
  | [] => None
  | (k', v) :: r => if String.eqb k k' then Some v else alookup k r
  end.

Fixpoint amem {A} (k : name) (l : list (name * A)) : bool :=
  match l with
  | [] => false
  | (k', _) :: r => String.eqb k k' || amem k r
  end.

Fixpoint nmem (k : name) (l : list name) : bool :=
  match l with
  | [] => false
  | k' :: r => String.eqb k k' || nmem k r
  end.

(* ---- type references ---- *)
Inductive tyref :=
| TNamed (n : name)
| TList (t : tyref)
| TNonNull (t : tyref).

Fixpoint named_of (t : tyref) : name :=
  match t with
  | TNamed n => n
  | TList t' => named_of t'
  | TNonNull t' => named_of t'
  end.

Definition is_nonnull (t : tyref) : bool :=
  match t with TNonNull _ => true | _ => false end.

(* ---- JSON-like input / coerced values.  JFloat n d is the dyadic rational n/d ---- *)
Inductive jv :=
| JNull
| JBool (b : bool)
| JInt (z : Z)
| JFloat (n : Z) (d : positive)
| JStr (s : string)
| JList (l : list jv)
| JObj (l : list (name * jv)).

(* ---- value literals of the query language (no null literal in this edition) ---- *)
Inductive value :=
| VVar (n : name)
| VInt (z : Z)
| VFloat (n : Z) (d : positive)
| VStr (s : string)
| VBool (b : bool)
| VEnum (n : name)
| VList (l : list value)
| VObj (l : list (name * value)).

Record directive := { d_name : name; d_args : list (name * value) }.

(* node ids are the byte offsets of the nodes' first tokens (Loc.Start) *)
Inductive selection :=
| SField (id : N) (alias : option name) (nm : name) (args : list (name * value))
         (dirs : list directive) (sub : list selection)
| SSpread (id : N) (nm : name) (dirs : list directive)
| SInline (id : N) (tc : option name) (dirs : list directive) (sub : list selection).

Record vardef := { v_name : name; v_type : tyref; v_default : option value }.

Inductive opkind := OpQuery | OpMutation | OpSubscription.

Record operation := {
  o_kind : opkind; o_name : option name; o_vars : list vardef; o_sel : list selection }.

Record fragment := { fr_name : name; fr_cond : name; fr_sel : list selection }.

Record document := { d_ops : list operation; d_frags : list fragment }.

(* ---- schemas ---- *)
Inductive scalar_kind := SInt | SFloat | SString | SBoolean | SID | SOdd.
  (* SOdd: the harness's custom scalar; accepts odd integers only *)

Record argdef := { a_name : name; a_type : tyref; a_default : option jv }.
Record fielddef := { f_name : name; f_args : list argdef; f_type : tyref }.

Inductive typedef :=
| TScalar (k : scalar_kind)
| TEnum (vals : list (name * jv))          (* value name, internal value *)
| TObject (fields : list fielddef) (ifaces : list name)
| TInterface (fields : list fielddef)
| TUnion (members : list name)
| TInputObject (fields : list argdef).

Record schema := {
  s_types : list (name * typedef);
  s_query : name;
  s_mutation : option name }.

Definition lookup_type (S : schema) (n : name) : option typedef := alookup n (s_types S).

Fixpoint find_field (n : name) (fs : list fielddef) : option fielddef :=
  match fs with
  | [] => None
  | f :: r => if String.eqb n (f_name f) then Some f else find_field n r
  end.

Definition object_fields (S : schema) (obj : name) : list fielddef :=
  match lookup_type S obj with
  | Some (TObject fs _) => fs
  | _ => []
  end.

(* is [obj] one of the possible object types of the named type [t]? *)
Definition possible_type (S : schema) (t obj : name) : bool :=
  match lookup_type S t with
  | Some (TObject _ _) => String.eqb t obj
  | Some (TInterface _) =>
    match lookup_type S obj with
    | Some (TObject _ ifs) => nmem t ifs
    | _ => false
    end
  | Some (TUnion ms) =>
    match lookup_type S obj with
    | Some (TObject _ _) => nmem obj ms
    | _ => false
    end
  | _ => false
  end.

(* ---- what resolvers return ---- *)
Inductive rv :=
| RNull
| RBool (b : bool)
| RInt (z : Z)
| RFloat (n : Z) (d : positive)
| RStr (s : string)
| RList (l : list rv)
| RObj (id : N) (ty : name)   (* a harness object *node{ID, Type} *)
| RNilPtr                      (* typed nil pointer *)
| RNaN
| RChan.                       (* a Go value of a kind no output position accepts *)

Inductive outcome :=
| OVal (v : rv)
| OErr
| OValErr (v : rv)
| OPanicErr
| OPanicStr
| OPanicOther
| OThunk (o : outcome).

(* ---- responses ---- *)
Inductive pseg := PKey (k : name) | PIdx (i : N).
Definition path := list pseg.

Inductive resp :=
| PNull
| PLeaf (v : jv)
| PList (l : list resp)
| PObj (l : list (name * resp)).

Record gerr := { e_path : path; e_nodes : list N }.

Record call := {
  c_path : path; c_parent : name; c_field : name; c_source : rv;
  c_args : list (name * jv); c_nodes : list N }.

(* ---- equality tests used by the correspondence runner ---- *)
Definition pseg_eqb (a b : pseg) : bool :=
  match a, b with
  | PKey x, PKey y => String.eqb x y
  | PIdx x, PIdx y => N.eqb x y
  | _, _ => false
  end.

Fixpoint path_eqb (a b : path) : bool :=
  match a, b with
  | [], [] => true
  | x :: a', y :: b' => pseg_eqb x y && path_eqb a' b'
  | _, _ => false
  end.

Fixpoint jv_eqb (a b : jv) {struct a} : bool :=
  match a, b with
  | JNull, JNull => true
  | JBool x, JBool y => Bool.eqb x y
  | JInt x, JInt y => Z.eqb x y
  | JFloat n d, JFloat n' d' => Z.eqb n n' && Pos.eqb d d'
  | JStr x, JStr y => String.eqb x y
  | JList l, JList l' =>
    (fix go (l l' : list jv) : bool :=
       match l, l' with
       | [], [] => true
       | x :: r, y :: r' => jv_eqb x y && go r r'
       | _, _ => false
       end) l l'
  | JObj l, JObj l' =>
    (* as maps: same size and every key of l is bound to an equal value in l' *)
    Nat.eqb (List.length l) (List.length l') &&
    (fix go (l : list (name * jv)) : bool :=
       match l with
       | [] => true
       | (k, x) :: r =>
         match alookup k l' with
         | Some y => jv_eqb x y && go r
         | None => false
         end
       end) l
  | _, _ => false
  end.

Fixpoint rv_eqb (a b : rv) {struct a} : bool :=
  match a, b with
  | RNull, RNull => true
  | RBool x, RBool y => Bool.eqb x y
  | RInt x, RInt y => Z.eqb x y
  | RFloat n d, RFloat n' d' => Z.eqb n n' && Pos.eqb d d'
  | RStr x, RStr y => String.eqb x y
  | RList l, RList l' =>
    (fix go (l l' : list rv) : bool :=
       match l, l' with
       | [], [] => true
       | x :: r, y :: r' => rv_eqb x y && go r r'
       | _, _ => false
       end) l l'
  | RObj i t, RObj i' t' => N.eqb i i' && String.eqb t t'
  | RNilPtr, RNilPtr => true
  | RNaN, RNaN => true
  | RChan, RChan => true
  | _, _ => false
  end.

Fixpoint resp_eqb (a b : resp) {struct a} : bool :=
  match a, b with
  | PNull, PNull => true
  | PLeaf x, PLeaf y => jv_eqb x y
  | PList l, PList l' =>
    (fix go (l l' : list resp) : bool :=
       match l, l' with
       | [], [] => true
       | x :: r, y :: r' => resp_eqb x y && go r r'
       | _, _ => false
       end) l l'
  | PObj l, PObj l' =>
    Nat.eqb (List.length l) (List.length l') &&
    (fix go (l : list (name * resp)) : bool :=
       match l with
       | [] => true
       | (k, x) :: r =>
         match alookup k l' with
         | Some y => resp_eqb x y && go r
         | None => false
         end
       end) l
  | _, _ => false
  end.

Fixpoint nlist_eqb (a b : list N) : bool :=
  match a, b with
  | [], [] => true
  | x :: a', y :: b' => N.eqb x y && nlist_eqb a' b'
  | _, _ => false
  end.
