(* The execution algorithm: GetOperation, CoerceVariableValues, CollectFields,
   ExecuteSelectionSet, ExecuteField, CompleteValue with error propagation,
   written over an oracle for resolver outcomes (path -> outcome) and for
   runtime type resolution.  This is the reference semantics the Go executor
   (plan.go) is compared with, and the object the C01/C04/C13/C18/C20
   theorems are about. *)
From Coq Require Import List ZArith NArith String Bool.
From GQL Require Import Exec.Syntax Exec.Coerce.
Import ListNotations.
Open Scope string_scope.
Open Scope list_scope.

(* ---- directives ---- *)
Fixpoint last_directive (n : name) (ds : list directive) (acc : option directive) : option directive :=
  match ds with
  | [] => acc
  | d :: r => last_directive n r (if String.eqb (d_name d) n then Some d else acc)
  end.

Definition bool_arg (S : schema) (d : directive) (vars : list (name * jv)) : jv :=
  match value_from_ast 3 S (TNonNull (TNamed "Boolean")) (alookup "if" (d_args d)) (Some vars) with
  | Some v => v
  | None => JNull
  end.

(* a selection is included iff it is not skipped and, when @include is present, included *)
Definition included (S : schema) (ds : list directive) (vars : list (name * jv)) : bool :=
  let skipped :=
      match last_directive "skip" ds None with
      | Some d => match bool_arg S d vars with JBool true => true | _ => false end
      | None => false
      end in
  let excluded :=
      match last_directive "include" ds None with
      | Some d => match bool_arg S d vars with JBool false => true | _ => false end
      | None => false
      end in
  negb skipped && negb excluded.

(* ---- CollectFields ---- *)
Record occ := { oc_id : N; oc_name : name; oc_args : list (name * value); oc_sub : list selection }.
Definition groups := list (name * list occ).

Fixpoint add_occ (k : name) (o : occ) (g : groups) : groups :=
  match g with
  | [] => [(k, [o])]
  | (k', os) :: r => if String.eqb k k' then (k', os ++ [o]) :: r else (k', os) :: add_occ k o r
  end.

Fixpoint find_fragment (n : name) (fs : list fragment) : option fragment :=
  match fs with
  | [] => None
  | f :: r => if String.eqb n (fr_name f) then Some f else find_fragment n r
  end.

Definition fragment_matches (S : schema) (cond : option name) (obj : name) : bool :=
  match cond with
  | None => true
  | Some c =>
    match lookup_type S c with
    | None => false
    | Some _ => String.eqb c obj || possible_type S c obj
    end
  end.

Fixpoint collect (fuel : nat) (S : schema) (D : document) (vars : list (name * jv)) (obj : name)
         (sels : list selection) (visited : list name) (g : groups) : option (groups * list name) :=
  match fuel with
  | O => None
  | S fuel' =>
    match sels with
    | [] => Some (g, visited)
    | SField id al nm args ds sub :: rest =>
      if included S ds vars then
        let k := match al with Some a => a | None => nm end in
        collect fuel' S D vars obj rest visited
                (add_occ k {| oc_id := id; oc_name := nm; oc_args := args; oc_sub := sub |} g)
      else collect fuel' S D vars obj rest visited g
    | SInline id tc ds sub :: rest =>
      if included S ds vars && fragment_matches S tc obj then
        match collect fuel' S D vars obj sub visited g with
        | Some (g', v') => collect fuel' S D vars obj rest v' g'
        | None => None
        end
      else collect fuel' S D vars obj rest visited g
    | SSpread id nm ds :: rest =>
      if included S ds vars && negb (nmem nm visited) then
        match find_fragment nm (d_frags D) with
        | None => collect fuel' S D vars obj rest visited g
        | Some f =>
          if fragment_matches S (Some (fr_cond f)) obj then
            match collect fuel' S D vars obj (fr_sel f) (nm :: visited) g with
            | Some (g', v') => collect fuel' S D vars obj rest v' g'
            | None => None
            end
          else collect fuel' S D vars obj rest (nm :: visited) g
        end
      else collect fuel' S D vars obj rest visited g
    end
  end.

(* the merged sub-selection of a field group: all occurrences' selection sets, one visited set *)
Fixpoint collect_all (fuel : nat) (S : schema) (D : document) (vars : list (name * jv)) (obj : name)
         (sets : list (list selection)) (visited : list name) (g : groups) : option groups :=
  match sets with
  | [] => Some g
  | s :: r =>
    match collect fuel S D vars obj s visited g with
    | Some (g', v') => collect_all fuel S D vars obj r v' g'
    | None => None
    end
  end.

(* ---- leaf serialisation (Serialize of the scalars, Enum.Serialize) on resolver results ---- *)
Definition rv_nullish (v : rv) : bool :=
  match v with RNull | RNilPtr | RNaN => true | _ => false end.

Definition rv_to_jv (v : rv) : jv :=
  match v with
  | RBool b => JBool b
  | RInt z => JInt z
  | RFloat n d => JFloat n d
  | RStr s => JStr s
  | _ => JNull
  end.

Definition serialize_scalar (k : scalar_kind) (v : rv) : jv :=
  match v with
  | RBool _ | RInt _ | RFloat _ _ | RStr _ => parse_value_scalar k (rv_to_jv v)
  | _ => match k with SBoolean => JBool false | SString | SID => JStr "<unmodelled %v formatting>" | _ => JNull end
  end.

Fixpoint enum_name_of (vals : list (name * jv)) (v : jv) : jv :=
  match vals with
  | [] => JNull
  | (n, iv) :: r => if jv_eqb iv v then JStr n else enum_name_of r v
  end.

Definition serialize_enum (vals : list (name * jv)) (v : rv) : jv :=
  match v with
  | RBool _ | RInt _ | RStr _ => enum_name_of vals (rv_to_jv v)
  | _ => JNull
  end.

(* ---- execution state and results ---- *)
Record st := {
  st_errs : list gerr;        (* field errors, in the order they were recorded *)
  st_calls : list call;       (* resolver invocations, in execution order *)
  st_tcalls : list (path * rv); (* runtime type resolutions: path of the field being completed, value *)
  st_missing : list path;     (* resolver invocations the oracle has no outcome for *)
  st_escape : bool }.         (* a failure crossed a deferred (thunk) non-null boundary *)

Definition st0 : st := {| st_errs := []; st_calls := []; st_tcalls := []; st_missing := []; st_escape := false |}.

Definition add_err (e : gerr) (s : st) : st :=
  {| st_errs := st_errs s ++ [e]; st_calls := st_calls s; st_tcalls := st_tcalls s;
     st_missing := st_missing s; st_escape := st_escape s |}.
Definition add_call (c : call) (s : st) : st :=
  {| st_errs := st_errs s; st_calls := st_calls s ++ [c]; st_tcalls := st_tcalls s;
     st_missing := st_missing s; st_escape := st_escape s |}.
Definition add_tcall (p : path * rv) (s : st) : st :=
  {| st_errs := st_errs s; st_calls := st_calls s; st_tcalls := st_tcalls s ++ [p];
     st_missing := st_missing s; st_escape := st_escape s |}.
Definition add_missing (p : path) (s : st) : st :=
  {| st_errs := st_errs s; st_calls := st_calls s; st_tcalls := st_tcalls s;
     st_missing := st_missing s ++ [p]; st_escape := st_escape s |}.
Definition set_escape (s : st) : st :=
  {| st_errs := st_errs s; st_calls := st_calls s; st_tcalls := st_tcalls s;
     st_missing := st_missing s; st_escape := true |}.

(* responses under construction: deferred values (thunks in nullable positions) stay
   unevaluated until the dethunk pass, as in the implementation *)
Inductive presp :=
| QNull
| QLeaf (v : jv)
| QList (l : list presp)
| QObj (l : list (name * presp))
| QThunk (t : tyref) (nodes : list N) (occs : list occ) (p : path) (o : outcome).

Inductive xres (A : Type) :=
| XOk (a : A) (s : st)
| XRaise (e : gerr) (s : st)
| XFuel.
Arguments XOk {A}. Arguments XRaise {A}. Arguments XFuel {A}.

Definition oracle := path -> option outcome.
Definition toracle := rv -> option name.

Record env := {
  en_S : schema; en_D : document; en_vars : list (name * jv);
  en_or : oracle; en_tor : toracle;
  en_serial : bool }.   (* mutation: each top-level field is forced completely before the next starts *)

(* a null at a non-null boundary, or a failure, is caught at the nearest nullable boundary *)
Definition catch_at (t : tyref) (r : xres presp) : xres presp :=
  match r with
  | XRaise e s => if is_nonnull t then XRaise e s else XOk QNull (add_err e s)
  | _ => r
  end.

(* the outcome of a resolver after forcing deferred values; [thunked] remembers whether a thunk was crossed *)
Fixpoint force (o : outcome) : outcome * bool :=
  match o with
  | OThunk o' => (fst (force o'), true)
  | _ => (o, false)
  end.

(* ExecuteField for one response key of one object value; parameterised by the recursive calls *)
Definition exec_field (fuel' : nat)
           (cmp : tyref -> list N -> list occ -> path -> path -> rv -> st -> xres presp)
           (dth : presp -> st -> xres presp)
           (E : env) (obj : name) (src : rv) (k : name) (occs : list occ) (p : path) (s : st)
  : xres (option presp) :=
  let fname := match occs with o :: _ => oc_name o | [] => "" end in
  let fargs := match occs with o :: _ => oc_args o | [] => [] end in
  let nodes := map oc_id occs in
  let fp := p ++ [PKey k] in
  if String.eqb fname "__typename" then XOk (Some (QLeaf (JStr obj))) s
  else match find_field fname (object_fields (en_S E) obj) with
  | None => XOk None s
  | Some fd =>
    match get_argument_values fuel' (en_S E) (f_args fd) fargs (Some (en_vars E)) with
    | None => XFuel
    | Some args =>
      let s1 := add_call {| c_path := fp; c_parent := obj; c_field := fname; c_source := src;
                            c_args := args; c_nodes := nodes |} s in
      let '(o, thunked) :=
          match en_or E fp with
          | Some o => force o
          | None => (OVal RNull, false)
          end in
      let s2 := match en_or E fp with Some _ => s1 | None => add_missing fp s1 end in
      let c0 := match o with
                | OVal v => cmp (f_type fd) nodes occs fp fp v s2
                | _ => XRaise {| e_path := fp; e_nodes := nodes |} s2
                end in
      let r1 :=
          if thunked && negb (is_nonnull (f_type fd)) then
            (* deferred: completed by the dethunk pass, if it is still part of the response then *)
            XOk (QThunk (f_type fd) nodes occs fp o) s2
          else
            match c0 with
            | XRaise e s' => if thunked then XRaise e (set_escape s') else c0
            | _ => c0
            end in
      match catch_at (f_type fd) r1 with
      | XOk y s' =>
        if en_serial E && match p with [] => true | _ => false end
        then match dth y s' with
             | XOk y' s'' => XOk (Some y') s''
             | XRaise e s'' => XRaise e s''
             | XFuel => XFuel
             end
        else XOk (Some y) s'
      | XRaise e s' => XRaise e s'
      | XFuel => XFuel
      end
    end
  end.

(* loops of the executor, parameterised by the recursive call (so that the mutual
   definition below stays small and the loops can be reasoned about once) *)
Fixpoint items_loop (cmp : N -> rv -> st -> xres presp) (l : list rv) (i : N) (s : st) : xres (list presp) :=
  match l with
  | [] => XOk [] s
  | x :: r =>
    match cmp i x s with
    | XOk y s' =>
      match items_loop cmp r (i + 1)%N s' with
      | XOk ys s'' => XOk (y :: ys) s''
      | XRaise e s'' => XRaise e s''
      | XFuel => XFuel
      end
    | XRaise e s' => XRaise e s'
    | XFuel => XFuel
    end
  end.

Fixpoint dethunk_list (f : presp -> st -> xres presp) (l : list presp) (s : st) : xres (list presp) :=
  match l with
  | [] => XOk [] s
  | x :: r =>
    match f x s with
    | XOk y s' => match dethunk_list f r s' with
                  | XOk ys s'' => XOk (y :: ys) s''
                  | XRaise e s'' => XRaise e s''
                  | XFuel => XFuel
                  end
    | XRaise e s' => XRaise e s'
    | XFuel => XFuel
    end
  end.

Fixpoint dethunk_fields (f : presp -> st -> xres presp) (l : list (name * presp)) (s : st)
  : xres (list (name * presp)) :=
  match l with
  | [] => XOk [] s
  | (k, x) :: r =>
    match f x s with
    | XOk y s' => match dethunk_fields f r s' with
                  | XOk ys s'' => XOk ((k, y) :: ys) s''
                  | XRaise e s'' => XRaise e s''
                  | XFuel => XFuel
                  end
    | XRaise e s' => XRaise e s'
    | XFuel => XFuel
    end
  end.

Fixpoint complete (fuel : nat) (E : env) (t : tyref) (nodes : list N) (occs : list occ)
         (fpath p : path) (v : rv) (s : st) {struct fuel} : xres presp :=
  match fuel with
  | O => XFuel
  | S fuel' =>
    match t with
    | TNonNull t' =>
      match complete fuel' E t' nodes occs fpath p v s with
      | XOk QNull s' => XRaise {| e_path := p; e_nodes := nodes |} s'
      | r => r
      end
    | _ =>
      if rv_nullish v then XOk QNull s
      else match t with
      | TNonNull _ => XFuel (* unreachable *)
      | TList t' =>
        match v with
        | RList l =>
          match items_loop (fun i x s0 => catch_at t' (complete fuel' E t' nodes occs fpath (p ++ [PIdx i]) x s0)) l 0%N s
          with
          | XOk ys s' => XOk (QList ys) s'
          | XRaise e s' => XRaise e s'
          | XFuel => XFuel
          end
        | _ => XRaise {| e_path := p; e_nodes := nodes |} s
        end
      | TNamed n =>
        match lookup_type (en_S E) n with
        | Some (TScalar k) =>
          let j := serialize_scalar k v in XOk (if nullish j then QNull else QLeaf j) s
        | Some (TEnum vals) =>
          let j := serialize_enum vals v in XOk (if nullish j then QNull else QLeaf j) s
        | Some (TObject _ _) => exec_object fuel' E n occs p v s
        | Some (TInterface _) | Some (TUnion _) =>
          let s1 := add_tcall (fpath, v) s in
          match en_tor E v with
          | Some rt =>
            if possible_type (en_S E) n rt then exec_object fuel' E rt occs p v s1
            else XRaise {| e_path := p; e_nodes := nodes |} s1
          | None => XRaise {| e_path := p; e_nodes := nodes |} s1
          end
        | _ => XRaise {| e_path := p; e_nodes := nodes |} s
        end
      end
    end
  end

with exec_object (fuel : nat) (E : env) (obj : name) (occs : list occ) (p : path) (src : rv) (s : st)
     {struct fuel} : xres presp :=
  match fuel with
  | O => XFuel
  | S fuel' =>
    match collect_all fuel' (en_S E) (en_D E) (en_vars E) obj (map oc_sub occs) [] [] with
    | None => XFuel
    | Some g =>
      match exec_groups fuel' E obj src g p s with
      | XOk fs s' => XOk (QObj fs) s'
      | XRaise e s' => XRaise e s'
      | XFuel => XFuel
      end
    end
  end

with exec_groups (fuel : nat) (E : env) (obj : name) (src : rv) (g : groups) (p : path) (s : st)
     {struct fuel} : xres (list (name * presp)) :=
  match fuel with
  | O => XFuel
  | S fuel' =>
    match g with
    | [] => XOk [] s
    | (k, occs) :: rest =>
      match exec_field fuel' (complete fuel' E) (dethunk fuel' E) E obj src k occs p s with
      | XOk y s' =>
        match exec_groups fuel' E obj src rest p s' with
        | XOk ys s'' => XOk (match y with Some y => (k, y) :: ys | None => ys end) s''
        | XRaise e s'' => XRaise e s''
        | XFuel => XFuel
        end
      | XRaise e s' => XRaise e s'
      | XFuel => XFuel
      end
    end
  end

(* the dethunk pass: forces what is still deferred in a response under construction.
   Every deferred value sits at a nullable position, so this pass never raises. *)
with dethunk (fuel : nat) (E : env) (q : presp) (s : st) {struct fuel} : xres presp :=
  match fuel with
  | O => XFuel
  | S fuel' =>
    match q with
    | QNull => XOk QNull s
    | QLeaf v => XOk (QLeaf v) s
    | QList l =>
      match dethunk_list (dethunk fuel' E) l s
      with
      | XOk ys s' => XOk (QList ys) s'
      | XRaise e s' => XRaise e s'
      | XFuel => XFuel
      end
    | QObj l =>
      match dethunk_fields (dethunk fuel' E) l s
      with
      | XOk ys s' => XOk (QObj ys) s'
      | XRaise e s' => XRaise e s'
      | XFuel => XFuel
      end
    | QThunk t nodes occs p o =>
      let r := match o with
               | OVal v => complete fuel' E t nodes occs p p v s
               | _ => XRaise {| e_path := p; e_nodes := nodes |} s
               end in
      match catch_at t r with
      | XOk y s' => dethunk fuel' E y s'
      | r' => r'
      end
    end
  end.

(* responses without deferred parts *)
Fixpoint to_resp (q : presp) : resp :=
  match q with
  | QNull => PNull
  | QLeaf v => PLeaf v
  | QList l => PList (map to_resp l)
  | QObj l => PObj (map (fun kv => (fst kv, to_resp (snd kv))) l)
  | QThunk _ _ _ _ _ => PLeaf (JStr "<deferred value left in the response>")
  end.
