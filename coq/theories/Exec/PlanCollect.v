(* Model of the two-phase collection of plan.go (after fix 403d89a):
   at plan time collectInto folds @skip/@include whose `if` is a literal and only
   *records* that a variable-driven directive was seen (collectState.sawDynamic);
   a level where one was seen is collected again at execute time with the request's
   variables (Plan.collectAtRuntime), otherwise the plan-time result serves every request. *)
From Coq Require Import List ZArith NArith String Bool.
From GQL Require Import Exec.Syntax Exec.Coerce Exec.Exec.
Import ListNotations.
Open Scope string_scope.
Open Scope list_scope.

(* valueHasVariables *)
Fixpoint has_vars (v : value) : bool :=
  match v with
  | VVar _ => true
  | VList l => (fix go (l : list value) : bool := match l with [] => false | x :: r => has_vars x || go r end) l
  | VObj l => (fix go (l : list (name * value)) : bool := match l with [] => false | (_, x) :: r => has_vars x || go r end) l
  | _ => false
  end.

(* astHasVariables over a directive's arguments *)
Fixpoint args_have_vars (args : list (name * value)) : bool :=
  match args with
  | [] => false
  | (_, v) :: r => has_vars v || args_have_vars r
  end.

(* getArgumentValues(Skip/IncludeDirective.Args, args, nil)["if"] *)
Definition bool_arg_static (S : schema) (d : directive) : jv :=
  match value_from_ast 3 S (TNonNull (TNamed "Boolean")) (alookup "if" (d_args d)) None with
  | Some v => v
  | None => JNull
  end.

(* planDirectives with cs.runtime = false: (alwaysSkip, sawDynamic) *)
Definition plan_directives (S : schema) (ds : list directive) : bool * bool :=
  let '(skip_now, saw1) :=
      match last_directive "skip" ds None with
      | Some d => if args_have_vars (d_args d) then (false, true)
                  else (match bool_arg_static S d with JBool true => true | _ => false end, false)
      | None => (false, false)
      end in
  if skip_now then (true, saw1)
  else
    match last_directive "include" ds None with
    | Some d => if args_have_vars (d_args d) then (false, true)
                else (match bool_arg_static S d with JBool false => true | _ => false end, saw1)
    | None => (false, saw1)
    end.

(* collectInto at plan time: selections under a variable-driven directive are collected as if included *)
Fixpoint plan_collect (fuel : nat) (S : schema) (D : document) (obj : name)
         (sels : list selection) (visited : list name) (g : groups) (saw : bool)
  : option (groups * list name * bool) :=
  match fuel with
  | O => None
  | S fuel' =>
    match sels with
    | [] => Some (g, visited, saw)
    | SField id al nm args ds sub :: rest =>
      let '(skip, dyn) := plan_directives S ds in
      if skip then plan_collect fuel' S D obj rest visited g (saw || dyn)
      else
        let k := match al with Some a => a | None => nm end in
        plan_collect fuel' S D obj rest visited
                     (add_occ k {| oc_id := id; oc_name := nm; oc_args := args; oc_sub := sub |} g) (saw || dyn)
    | SInline id tc ds sub :: rest =>
      let '(skip, dyn) := plan_directives S ds in
      if negb skip && fragment_matches S tc obj then
        match plan_collect fuel' S D obj sub visited g (saw || dyn) with
        | Some (g', v', saw') => plan_collect fuel' S D obj rest v' g' saw'
        | None => None
        end
      else plan_collect fuel' S D obj rest visited g (saw || dyn)
    | SSpread id nm ds :: rest =>
      let '(skip, dyn) := plan_directives S ds in
      if negb skip && negb (nmem nm visited) then
        match find_fragment nm (d_frags D) with
        | None => plan_collect fuel' S D obj rest visited g (saw || dyn)
        | Some f =>
          if fragment_matches S (Some (fr_cond f)) obj then
            match plan_collect fuel' S D obj (fr_sel f) (nm :: visited) g (saw || dyn) with
            | Some (g', v', saw') => plan_collect fuel' S D obj rest v' g' saw'
            | None => None
            end
          else plan_collect fuel' S D obj rest (nm :: visited) g (saw || dyn)
        end
      else plan_collect fuel' S D obj rest visited g (saw || dyn)
    end
  end.

(* what executePlannedSelection works with: the plan-time groups, or -- for a dynamic level --
   the groups collected again with the request's variables *)
Definition two_phase_collect (fuel : nat) (S : schema) (D : document) (vars : list (name * jv)) (obj : name)
           (sels : list selection) : option groups :=
  match plan_collect fuel S D obj sels [] [] false with
  | None => None
  | Some (g, _, false) => Some g
  | Some (_, _, true) =>
    match collect fuel S D vars obj sels [] [] with
    | Some (g, _) => Some g
    | None => None
    end
  end.

(* ---- the static structure of a prepared plan (PlanQuery): per level, whether it is dynamic, and
        for a static level the merged fields with their occurrences and, for fields of object type,
        the eagerly planned sub-level (abstract fields are planned lazily at execute time) ---- *)
Inductive ptree := PT (dynamic : bool) (fields : list (name * list N * option ptree)).

Fixpoint plan_all (fuel : nat) (S : schema) (D : document) (obj : name) (sets : list (list selection))
         (visited : list name) (g : groups) (saw : bool) : option (groups * list name * bool) :=
  match sets with
  | [] => Some (g, visited, saw)
  | s :: r =>
    match plan_collect fuel S D obj s visited g saw with
    | Some (g', v', saw') => plan_all fuel S D obj r v' g' saw'
    | None => None
    end
  end.

Definition is_object_type (S : schema) (n : name) : bool :=
  match lookup_type S n with Some (TObject _ _) => true | _ => false end.

Fixpoint plan_tree (fuel : nat) (S : schema) (D : document) (obj : name) (sets : list (list selection))
  : option ptree :=
  match fuel with
  | O => None
  | S fuel' =>
    match plan_all fuel' S D obj sets [] [] false with
    | None => None
    | Some (_, _, true) => Some (PT true [])
    | Some (g, _, false) =>
      match omap (fun ko : name * list occ =>
                    let '(k, occs) := ko in
                    let fname := match occs with o :: _ => oc_name o | [] => "" end in
                    let sub :=
                        match find_field fname (object_fields S obj) with
                        | Some fd =>
                          if is_object_type S (named_of (f_type fd))
                          then match plan_tree fuel' S D (named_of (f_type fd)) (map oc_sub occs) with
                               | Some t => Some (Some t)
                               | None => None
                               end
                          else Some None
                        | None => Some None
                        end in
                    match sub with
                    | Some st => Some (k, map oc_id occs, st)
                    | None => None
                    end) g with
      | Some fs => Some (PT false fs)
      | None => None
      end
    end
  end.

Fixpoint ptree_eqb (a b : ptree) {struct a} : bool :=
  match a, b with
  | PT d fs, PT d' fs' =>
    Bool.eqb d d' &&
    (fix go (l l' : list (name * list N * option ptree)) : bool :=
       match l, l' with
       | [], [] => true
       | (k, ns, st) :: r, (k', ns', st') :: r' =>
         String.eqb k k' && nlist_eqb ns ns' &&
         match st, st' with
         | None, None => true
         | Some x, Some y => ptree_eqb x y
         | _, _ => false
         end && go r r'
       | _, _ => false
       end) fs fs'
  end.
