(* Model of input coercion in values.go / scalars.go:
   isValidInputValue, coerceValue, valueFromAST, getVariableValues,
   getArgumentValues and the built-in scalars' ParseValue / ParseLiteral.
   Recursion goes through schema lookups (input object field types), so the
   functions take fuel; [None] is "out of fuel", never a normal-looking value. *)
From Coq Require Import List ZArith NArith String Bool Ascii.
From Coq Require Import DecimalString.
From GQL Require Import Exec.Syntax.
Import ListNotations.
Open Scope string_scope.

Definition nullish (v : jv) : bool := match v with JNull => true | _ => false end.

Definition in_int32 (z : Z) : bool := ((-2147483648 <=? z) && (z <=? 2147483647))%Z.

Definition z_to_string (z : Z) : string := NilZero.string_of_int (Z.to_int z).

(* ---- ParseValue of the scalars (coerceInt, coerceFloat, coerceString, coerceBool) ---- *)
Definition parse_value_scalar (k : scalar_kind) (v : jv) : jv :=
  match k with
  | SInt =>
    match v with
    | JInt z => if in_int32 z then JInt z else JNull
    | JFloat n d =>
      if ((n <? -2147483648 * Zpos d) || (n >? 2147483647 * Zpos d))%Z then JNull
      else JInt (Z.quot n (Zpos d))
    | JBool b => JInt (if b then 1 else 0)
    | _ => JNull                      (* strings: only non-numeric ones are generated *)
    end
  | SFloat =>
    match v with
    | JInt z => JFloat z 1
    | JFloat n d => JFloat n d
    | JBool b => JFloat (if b then 1 else 0) 1
    | _ => JNull
    end
  | SString | SID =>
    match v with
    | JStr s => JStr s
    | JInt z => JStr (z_to_string z)
    | JBool b => JStr (if b then "true" else "false")
    | JNull => JNull
    | _ => JStr "<unmodelled %v formatting>"
    end
  | SBoolean =>
    match v with
    | JBool b => JBool b
    | JStr s => JBool (negb (String.eqb s "" || String.eqb s "false"))
    | JInt z => JBool (negb (Z.eqb z 0))
    | JFloat n _ => JBool (negb (Z.eqb n 0))
    | _ => JBool false
    end
  | SOdd =>
    match v with
    | JInt z => if Z.odd z then JInt z else JNull
    | _ => JNull
    end
  end.

Definition parse_enum (vals : list (name * jv)) (v : jv) : jv :=
  match v with
  | JStr n => match alookup n vals with Some iv => iv | None => JNull end
  | _ => JNull
  end.

(* ---- ParseLiteral ---- *)
Definition parse_literal_scalar (k : scalar_kind) (l : value) : jv :=
  match k, l with
  | SInt, VInt z => if in_int32 z then JInt z else JNull
  | SFloat, VFloat n d => JFloat n d
  | SFloat, VInt z => JFloat z 1
  | SString, VStr s => JStr s
  | SBoolean, VBool b => JBool b
  | SID, VInt z => JStr (z_to_string z)
  | SID, VStr s => JStr s
  | SOdd, VInt z => if Z.odd z then JInt z else JNull
  | _, _ => JNull
  end.

Definition parse_literal_enum (vals : list (name * jv)) (l : value) : jv :=
  match l with
  | VEnum n => match alookup n vals with Some iv => iv | None => JNull end
  | _ => JNull
  end.

Definition is_input_type (S : schema) (t : tyref) : bool :=
  match lookup_type S (named_of t) with
  | Some (TScalar _) | Some (TEnum _) | Some (TInputObject _) => true
  | _ => false
  end.

Definition jlookup (k : name) (m : list (name * jv)) : jv :=
  match alookup k m with Some v => v | None => JNull end.

(* sequencing over option (fuel) *)
Fixpoint omap {A B} (f : A -> option B) (l : list A) : option (list B) :=
  match l with
  | [] => Some []
  | x :: r => match f x, omap f r with
              | Some y, Some ys => Some (y :: ys)
              | _, _ => None
              end
  end.

Fixpoint oall {A} (f : A -> option bool) (l : list A) : option bool :=
  match l with
  | [] => Some true
  | x :: r => match f x, oall f r with
              | Some b, Some bs => Some (b && bs)
              | _, _ => None
              end
  end.

(* ---- isValidInputValue ---- *)
Fixpoint valid_input (fuel : nat) (S : schema) (t : tyref) (v : jv) : option bool :=
  match fuel with
  | O => None
  | S fuel' =>
    if nullish v then Some (negb (is_nonnull t))
    else match t with
    | TNonNull t' => valid_input fuel' S t' v
    | TList t' =>
      match v with
      | JList l => oall (valid_input fuel' S t') l
      | _ => valid_input fuel' S t' v
      end
    | TNamed n =>
      match lookup_type S n with
      | Some (TInputObject fs) =>
        match v with
        | JObj m =>
          match oall (fun f => valid_input fuel' S (a_type f) (jlookup (a_name f) m)) fs with
          | Some b => Some (forallb (fun kv => existsb (fun f => String.eqb (fst kv) (a_name f)) fs) m && b)
          | None => None
          end
        | _ => Some false
        end
      | Some (TScalar k) => Some (negb (nullish (parse_value_scalar k v)))
      | Some (TEnum vals) => Some (negb (nullish (parse_enum vals v)))
      | _ => Some true
      end
    end
  end.

(* ---- coerceValue ---- *)
Fixpoint coerce_value (fuel : nat) (S : schema) (t : tyref) (v : jv) : option jv :=
  match fuel with
  | O => None
  | S fuel' =>
    if nullish v then Some JNull
    else match t with
    | TNonNull t' => coerce_value fuel' S t' v
    | TList t' =>
      match v with
      | JList l => match omap (coerce_value fuel' S t') l with Some l' => Some (JList l') | None => None end
      | _ => match coerce_value fuel' S t' v with Some x => Some (JList [x]) | None => None end
      end
    | TNamed n =>
      match lookup_type S n with
      | Some (TInputObject fs) =>
        let m := match v with JObj m => m | _ => [] end in
        match omap (fun f =>
                      match coerce_value fuel' S (a_type f) (jlookup (a_name f) m) with
                      | Some fv =>
                        let fv := if nullish fv then match a_default f with Some d => d | None => JNull end else fv in
                        Some (a_name f, fv)
                      | None => None
                      end) fs with
        | Some kvs => Some (JObj (filter (fun kv => negb (nullish (snd kv))) kvs))
        | None => None
        end
      | Some (TScalar k) => Some (parse_value_scalar k v)
      | Some (TEnum vals) => Some (parse_enum vals v)
      | _ => Some JNull
      end
    end
  end.

(* ---- valueFromAST; [lit = None] is a nil AST; [vars = None] is a nil variables map ---- *)
Fixpoint value_from_ast (fuel : nat) (S : schema) (t : tyref) (lit : option value)
         (vars : option (list (name * jv))) : option jv :=
  match fuel with
  | O => None
  | S fuel' =>
    match lit with
    | None => Some JNull
    | Some (VVar n) => match vars with Some m => Some (jlookup n m) | None => Some JNull end
    | Some l =>
      match t with
      | TNonNull t' => value_from_ast fuel' S t' lit vars
      | TList t' =>
        match l with
        | VList ls =>
          match omap (fun x => value_from_ast fuel' S t' (Some x) vars) ls with
          | Some l' => Some (JList l') | None => None end
        | _ => match value_from_ast fuel' S t' lit vars with Some x => Some (JList [x]) | None => None end
        end
      | TNamed n =>
        match lookup_type S n with
        | Some (TInputObject fs) =>
          match l with
          | VObj lfs =>
            match omap (fun f =>
                          match value_from_ast fuel' S (a_type f) (alookup (a_name f) lfs) vars with
                          | Some fv =>
                            let fv := if nullish fv then match a_default f with Some d => d | None => JNull end else fv in
                            Some (a_name f, fv)
                          | None => None
                          end) fs with
            | Some kvs => Some (JObj (filter (fun kv => negb (nullish (snd kv))) kvs))
            | None => None
            end
          | _ => Some JNull
          end
        | Some (TScalar k) => Some (parse_literal_scalar k l)
        | Some (TEnum vals) => Some (parse_literal_enum vals l)
        | _ => Some JNull
        end
      end
    end
  end.

(* ---- getArgumentValues ---- *)
Definition get_argument_values (fuel : nat) (S : schema) (defs : list argdef)
           (args : list (name * value)) (vars : option (list (name * jv))) : option (list (name * jv)) :=
  match omap (fun a =>
                match value_from_ast fuel S (a_type a) (alookup (a_name a) args) vars with
                | Some v =>
                  let v := if nullish v then match a_default a with Some d => d | None => JNull end else v in
                  Some (a_name a, v)
                | None => None
                end) defs with
  | Some kvs => Some (filter (fun kv => negb (nullish (snd kv))) kvs)
  | None => None
  end.

(* ---- getVariableValues: Some (inl vals) ok, Some (inr name) = error on that variable ---- *)
Definition get_variable_value (fuel : nat) (S : schema) (d : vardef) (input : jv) : option (jv + unit) :=
  if negb (is_input_type S (v_type d)) then Some (inr tt)
  else match valid_input fuel S (v_type d) input with
       | None => None
       | Some false => Some (inr tt)
       | Some true =>
         if nullish input then
           match v_default d with
           | Some dv => match value_from_ast fuel S (v_type d) (Some dv) None with Some x => Some (inl x) | None => None end
           | None => Some (inl JNull)
           end
         else match coerce_value fuel S (v_type d) input with Some x => Some (inl x) | None => None end
       end.

Fixpoint get_variable_values (fuel : nat) (S : schema) (ds : list vardef) (inputs : list (name * jv))
  : option (list (name * jv) + name) :=
  match ds with
  | [] => Some (inl [])
  | d :: r =>
    match get_variable_value fuel S d (jlookup (v_name d) inputs) with
    | None => None
    | Some (inr _) => Some (inr (v_name d))
    | Some (inl x) =>
      match get_variable_values fuel S r inputs with
      | None => None
      | Some (inr e) => Some (inr e)
      | Some (inl m) => Some (inl ((v_name d, x) :: m))
      end
    end
  end.
