(* The order in which the executor resolves the fields of an operation
   (plan.go executePlannedSelection / resolvePlannedField / completePlannedValue,
   executor.go dethunkMapWithBreadthFirstTraversal / dethunkValueDepthFirst),
   as far as the extension notifications depend on it: one resolve
   notification per executed field, at any depth, in execution order.

   A request is a tree of field instances.  A resolver returns a value, an
   error, panics, or returns a value whose completion fails (RBad: nil for a
   non-null type, a non-list for a list type).  Every such failure is one
   field error; on a field of non-null type (nn) it escapes to the enclosing
   selection, which is abandoned, and further through non-null parents up to
   the nearest nullable field or the root.  A value may be deferred (a thunk): the notification of the field is
   finished when the resolver returns; the selection below it runs when the
   thunk is forced -- breadth first in response-key order for queries, depth
   first after each root field for mutations.  Children are listed in
   response-key order (= document order in the generated requests).
   No proofs here. *)
From Coq Require Import List NArith Bool.
Import ListNotations.
Open Scope N_scope.

Inductive rbeh := ROk | RErr | RPanic | RBad.
(* the resolver itself failed: its notification is finished with an error *)
Definition rfails (fb : rbeh) : bool := match fb with RErr | RPanic => true | _ => false end.
(* the field contributes an error of its own *)
Definition rerrs (fb : rbeh) : bool := match fb with ROk => false | _ => true end.

(* the value: delivered now, a thunk that yields it, a thunk that fails *)
Inductive tbeh := TNow | TLater | TLaterFail.

Inductive node := Node (id : N) (nn : bool) (rb : rbeh) (th : tbeh) (ch : list node).

(* one resolver call: which field, what the resolver did *)
Definition step := (N * rbeh)%type.

(* resolvePlannedField + completePlannedValue on one field: the resolver
   calls made before it returns, and whether a non-null error escapes *)
Fixpoint imm (n : node) : list step * bool :=
  match n with
  | Node id nn rb th ch =>
    let sub := (fix sel (l : list node) : list step * bool :=
                  match l with
                  | [] => ([], false)
                  | c :: r => let sc := imm c in
                              if snd sc then (fst sc, true)
                              else let sr := sel r in (fst sc ++ fst sr, snd sr)
                  end) ch in
    ((id, rb) :: match rb, th with ROk, TNow => fst sub | _, _ => [] end,
     (* the error escapes this field iff its type is non-null and it failed
        itself or an error escaped the selection below its (undeferred) value;
        deferred values of non-null type whose forcing fails are outside the
        model: they are treated as nullable *)
     nn && (rerrs rb || match rb, th with ROk, TNow => snd sub | _, _ => false end))
  end.

(* executePlannedSelection: fields in order, aborted by an escaping error *)
Fixpoint imm_sel (l : list node) : list step * bool :=
  match l with
  | [] => ([], false)
  | c :: r => let sc := imm c in
              if snd sc then (fst sc, true)
              else let sr := imm_sel r in (fst sc ++ fst sr, snd sr)
  end.

(* a chunk of later work: resolver calls, and thunks that failed when forced *)
Definition chunk := (list step * N)%type.
Definition chunk_app (a b : chunk) : chunk := (fst a ++ fst b, snd a + snd b).
Fixpoint zip_chunks (a b : list chunk) : list chunk :=
  match a, b with
  | [], _ => b
  | _, [] => a
  | x :: r, y :: s => chunk_app x y :: zip_chunks r s
  end.

(* is the field's value, once forced, a response map (or a leaf)? *)
Definition present (rb : rbeh) (th : tbeh) (ch : list node) : bool :=
  match rb, th with
  | ROk, TNow | ROk, TLater => negb (snd (imm_sel ch))
  | _, _ => false
  end.
(* forcing the entry of a visited map *)
Definition forced (rb : rbeh) (th : tbeh) (ch : list node) : chunk :=
  match rb, th with
  | ROk, TLater => (fst (imm_sel ch), 0)
  | ROk, TLaterFail => ([], 1)
  | _, _ => ([], 0)
  end.

(* breadth first: what forcing this entry does at the level of its map, and
   at each deeper level *)
Fixpoint lev (n : node) : chunk * list chunk :=
  match n with
  | Node id nn rb th ch =>
    let sub := (fix levs (l : list node) : chunk * list chunk :=
                  match l with
                  | [] => (([], 0), [])
                  | c :: r => let a := lev c in let b := levs r in
                              (chunk_app (fst a) (fst b), zip_chunks (snd a) (snd b))
                  end) ch in
    (forced rb th ch, if present rb th ch then fst sub :: snd sub else [])
  end.
Fixpoint levs (l : list node) : chunk * list chunk :=
  match l with
  | [] => (([], 0), [])
  | c :: r => let a := lev c in let b := levs r in
              (chunk_app (fst a) (fst b), zip_chunks (snd a) (snd b))
  end.

(* depth first (mutations) *)
Fixpoint dfs (n : node) : chunk :=
  match n with
  | Node id nn rb th ch =>
    let sub := (fix ds (l : list node) : chunk :=
                  match l with
                  | [] => ([], 0)
                  | c :: r => chunk_app (dfs c) (ds r)
                  end) ch in
    if present rb th ch then chunk_app (forced rb th ch) sub else forced rb th ch
  end.

(* query: all root fields, then dethunkMapWithBreadthFirstTraversal; a
   non-null error at the root ends the execution *)
Definition query_sel (roots : list node) : chunk :=
  let s := imm_sel roots in
  if snd s then (fst s, 0)
  else let lv := levs roots in
       chunk_app (fst s, 0) (fold_right chunk_app ([], 0) (fst lv :: snd lv)).

(* mutation: every root field is forced to the end before the next one *)
Fixpoint mut_sel (roots : list node) : chunk :=
  match roots with
  | [] => ([], 0)
  | c :: r => let sc := imm c in
              if snd sc then (fst sc, 0)
              else chunk_app (fst sc, 0) (chunk_app (dfs c) (mut_sel r))
  end.

Definition run_order (mutation : bool) (roots : list node) : chunk :=
  if mutation then mut_sel roots else query_sel roots.
