(* C12 -- order-oracle models of the places where the library ranges over a
   Go map while building user-visible output.  A Go map is an association
   list; "for k, v := range m" yields its entries in an order chosen by an
   oracle (any permutation, possibly a different one at every evaluation).
   Each site is modelled as coded after the fixes c828a94, 653bd3d, 7066144,
   a99a8eb, 72c5f31: collect from the map, sort, then build the output.
   No proofs here. *)
From Coq Require Import List NArith Bool.
Import ListNotations.
Open Scope N_scope.

Section Sites.
  Variable K : Type.                       (* names *)
  Variable V : Type.                       (* map values *)
  Variable O : Type.                       (* output items: messages, errors, introspection entries *)
  Variable leb : K -> K -> bool.           (* the order sort.Strings uses *)

  Definition gomap := list (K * V).
  (* the order oracle of one range statement *)
  Definition oracle := gomap -> gomap.

  (* sorting as coded: any algorithm is allowed (sort.Sort is not stable); the
     reference instance is insertion sort *)
  Fixpoint insert {A} (le : A -> A -> bool) (a : A) (l : list A) : list A :=
    match l with
    | [] => [a]
    | b :: r => if le a b then a :: l else b :: insert le a r
    end.
  Fixpoint isort {A} (le : A -> A -> bool) (l : list A) : list A :=
    match l with
    | [] => []
    | a :: r => insert le a (isort le r)
    end.

  (* keys := range m; sort.Strings(keys) -- executor.go sortedKeys,
     values.go isValidInputValue, rules.go isValidLiteralValue,
     introspection.go (types, fields, inputFields, possibleTypes),
     definition.go (argument order, enum value order), plan.go *)
  Definition sorted_keys (o : oracle) (m : gomap) : list K :=
    isort leb (map fst (o m)).

  (* for _, k := range sortedKeys { out = append(out, f k ...) } :
     introspection lists, per-field messages of invalid input objects,
     errors of forced thunks (in the order the thunks are forced) *)
  Definition site_by_name (f : K -> list O) (o : oracle) (m : gomap) : list O :=
    flat_map f (sorted_keys o m).

  (* did-you-mean lists, rules.go suggestionList: options come from a map
     range, are filtered by a distance threshold and sorted by (distance,
     name) *)
  Variable dist : K -> K -> N.             (* lexicalDistance *)
  Variable keep : K -> K -> N -> bool.     (* the threshold test *)

  Definition lex_leb (a b : N * K) : bool :=
    (fst a <? fst b) || ((fst a =? fst b) && leb (snd a) (snd b)).

  Definition site_suggestions (input : K) (o : oracle) (m : gomap) : list K :=
    let options := map fst (o m) in
    let scored := map (fun k => (dist input k, k)) options in
    let kept := filter (fun dk => keep input (snd dk) (fst dk)) scored in
    map snd (isort lex_leb kept).
End Sites.

Arguments insert {A}.
Arguments isort {A}.
