(* C12 -- what persists between two requests on one schema value and one plan
   cache, as a state machine.  Persisted slots (listed from the code by the
   harness scan of fields written after construction):
     - lazily built tables of the type system: Object/Interface fields and
       interfaces, Union types, InputObject fields, Enum lookup tables,
       keyed by the type;
     - cached plans: PlanCache entries keyed by (request text, operation
       name); parts of a plan built at execution time (sub-plans of abstract
       fields per concrete type), keyed by (plan, field, concrete type);
     - counters (cache hits / misses) and the LRU order, which no request reads.
   A request is any program that reads slots -- an empty slot is initialised
   on the way -- and finally answers.  Between requests the cache may evict
   entries or be reset.  No proofs here. *)
From Coq Require Import List NArith Bool.
Import ListNotations.
Open Scope N_scope.

Section History.
  Variable val : Type.      (* what a slot holds *)
  Variable resp : Type.     (* responses *)
  (* the value an empty slot is initialised with: determined by the schema and
     the slot's key alone (idempotent initialisation) *)
  Variable init : N -> val.

  Inductive prog :=
  | Answer (r : resp)
  | Read (s : N) (k : val -> prog).

  Record state := mkState { slots : N -> option val; hits : N; misses : N }.
  Definition empty : state := mkState (fun _ => None) 0 0.

  Definition set_slot (f : N -> option val) (s : N) (v : option val) : N -> option val :=
    fun s' => if s' =? s then v else f s'.

  Fixpoint exec (p : prog) (st : state) : resp * state :=
    match p with
    | Answer r => (r, st)
    | Read s k =>
      match slots st s with
      | Some v => exec (k v) (mkState (slots st) (hits st + 1) (misses st))
      | None => let v := init s in
                exec (k v) (mkState (set_slot (slots st) s (Some v)) (hits st) (misses st + 1))
      end
    end.

  Inductive op :=
  | Request (p : prog)
  | Evict (s : N)           (* LRU eviction of one entry *)
  | Reset.                  (* PlanCache.Reset *)

  Definition step (st : state) (o : op) : state :=
    match o with
    | Request p => snd (exec p st)
    | Evict s => mkState (set_slot (slots st) s None) (hits st) (misses st)
    | Reset => empty
    end.

  Definition run_from (st : state) (h : list op) : state := fold_left step h st.
  Definition run (h : list op) : state := run_from empty h.

  (* every filled slot holds the value its initialisation gives *)
  Definition wf (st : state) : Prop := forall s v, slots st s = Some v -> v = init s.

  (* the response to a request alone *)
  Fixpoint answer (p : prog) : resp :=
    match p with
    | Answer r => r
    | Read s k => answer (k (init s))
    end.
End History.
