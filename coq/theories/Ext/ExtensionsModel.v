(* Model of the extension pipeline of graphql.Do (extensions.go, graphql.go Do,
   executor.go Execute, plan.go ExecutePlan / resolvePlannedField), as coded
   after the fix commits 7705658, d3cb778, 14b1b11, 64bd19c, 1a533cb.

   Hooks are user callbacks: their behaviour is an input of the model (the
   record [ext]); theorems quantify over all of them.  A panic is a real
   exception of the model ([Raise]); it is caught exactly where the code has a
   [recover] ([catch]).  Whether a panic can escape [Do] is therefore a theorem
   about the model, not a convention.

   This file contains no proofs. *)
From Coq Require Import List NArith Bool.
From GQL Require Export Ext.ExecOrder.
Import ListNotations.
Open Scope N_scope.

(* ---- inputs ---- *)

(* the value a hook panics with: an error value, a string, anything else *)
Inductive pval := PVErr | PVStr | PVInt.

(* plain hook (Init, GetResult) and finish functions *)
Inductive beh := BOk | BPanic (v : pval).
(* start hooks: return a finish function (with its own behaviour), return a
   nil finish function, or panic *)
Inductive sbeh := SFn (fin : beh) | SNil | SPanic (v : pval).
Inductive hbeh := HTrue | HFalse | HPanic (v : pval).
(* field resolvers (rbeh), deferred values (tbeh) and the tree of field
   instances of a request (node) come from Ext/ExecOrder.v *)

Record ext := mkExt {
  x_name : N;                 (* Name(); may collide with another extension's *)
  x_init : beh;
  x_parse : sbeh;
  x_valid : sbeh;
  x_exec : sbeh;
  x_resolve : list sbeh;      (* per resolver call, in execution order; missing = well-behaved *)
  x_has : hbeh;
  x_get : beh }.

(* outcome class of the request itself *)
Inductive cls :=
| CSyntax                     (* parser.Parse fails *)
| CInvalid (m : N)            (* ValidateDocument reports m+1 errors *)
| COpErr                      (* PlanQuery fails (unknown / missing operation name) *)
| CVarErr                     (* getVariableValues fails *)
| CExec (mutation : bool) (roots : list node).
      (* executes this tree of field instances: field errors / success *)

(* the resolver calls of the request in execution order, and the number of
   deferred values that fail when forced *)
Definition sched (c : cls) : list step :=
  match c with CExec mut roots => fst (run_order mut roots) | _ => [] end.
Definition thunk_fails (c : cls) : N :=
  match c with CExec mut roots => snd (run_order mut roots) | _ => 0 end.

(* ---- observable: the event log recorded by the extensions ---- *)

Inductive phase := PParse | PValid | PExec | PResolve (k : N).
Inductive sres := SROk | SRNil | SRFail.
Inductive hres := HRTrue | HRFalse | HRFail.
Inductive event :=
| EInit (e : N) (ok : bool)                      (* Init entered; ok = returns normally *)
| EStart (e : N) (ph : phase) (r : sres)         (* a ...DidStart hook entered; what it does *)
| EFinish (e : N) (ph : phase) (n : N) (ok : bool)
      (* finish function entered; n = size of the outcome it was given (number of
         errors: parse 0/1, validation len(errs), execution len(result.Errors),
         resolve 0/1); ok = returns normally *)
| EHas (e : N) (r : hres)
| EGet (e : N) (ok : bool).

(* ---- writer + exception monad ---- *)

Inductive res (A : Type) := Ret (a : A) | Raise (v : pval).
Arguments Ret {A} a.
Arguments Raise {A} v.
Definition M (A : Type) := (list event * res A)%type.

Definition ret {A} (a : A) : M A := ([], Ret a).
Definition bind {A B} (m : M A) (f : A -> M B) : M B :=
  match m with
  | (l, Raise v) => (l, Raise v)
  | (l, Ret a) => let '(l', r) := f a in (l ++ l', r)
  end.
(* func() { defer func() { if r := recover(); r != nil { h } }(); m }() :
   every recover block of extensions.go handles any panic value *)
Definition catch {A} (m : M A) (h : pval -> M A) : M A :=
  match m with
  | (l, Ret a) => (l, Ret a)
  | (l, Raise v) => let '(l', r) := h v in (l ++ l', r)
  end.

(* ---- hook calls ---- *)

Definition is_ok (b : beh) : bool := match b with BOk => true | BPanic _ => false end.

Definition call_init (i : N) (x : ext) : M unit :=
  match x_init x with
  | BOk => ([EInit i true], Ret tt)
  | BPanic v => ([EInit i false], Raise v)
  end.

Definition start_beh (ph : phase) (x : ext) : sbeh :=
  match ph with
  | PParse => x_parse x
  | PValid => x_valid x
  | PExec => x_exec x
  | PResolve k => nth (N.to_nat k) (x_resolve x) (SFn BOk)
  end.

(* the finish function an extension handed back: None = a nil func *)
Definition call_start (ph : phase) (i : N) (x : ext) : M (option beh) :=
  match start_beh ph x with
  | SFn f => ([EStart i ph SROk], Ret (Some f))
  | SNil => ([EStart i ph SRNil], Ret None)
  | SPanic v => ([EStart i ph SRFail], Raise v)
  end.

Definition call_finish (ph : phase) (n : N) (i : N) (f : option beh) : M unit :=
  match f with
  | None => ([], Raise PVErr)            (* calling a nil func: runtime error *)
  | Some BOk => ([EFinish i ph n true], Ret tt)
  | Some (BPanic v) => ([EFinish i ph n false], Raise v)
  end.

Definition call_has (i : N) (x : ext) : M bool :=
  match x_has x with
  | HTrue => ([EHas i HRTrue], Ret true)
  | HFalse => ([EHas i HRFalse], Ret false)
  | HPanic v => ([EHas i HRFail], Raise v)
  end.

Definition call_get (i : N) (x : ext) : M unit :=
  match x_get x with
  | BOk => ([EGet i true], Ret tt)
  | BPanic v => ([EGet i false], Raise v)
  end.

(* ---- the handleExtensions* helpers; each returns the number of errors it
        collected.  Extensions are identified by their registration index. ---- *)

Fixpoint handle_inits (xs : list (N * ext)) : M N :=
  match xs with
  | [] => ret 0
  | (i, x) :: r =>
    bind (catch (bind (call_init i x) (fun _ => ret 0)) (fun _ => ret 1)) (fun a =>
    bind (handle_inits r) (fun b => ret (a + b)))
  end.

(* ...DidStart: errors, and the slice fs of (extension, finish function) in
   registration order, only for the extensions whose hook returned *)
Fixpoint handle_start (ph : phase) (xs : list (N * ext)) : M (N * list (N * option beh)) :=
  match xs with
  | [] => ret (0, [])
  | (i, x) :: r =>
    bind (catch (bind (call_start ph i x) (fun f => ret (0, [(i, f)]))) (fun _ => ret (1, []))) (fun a =>
    bind (handle_start ph r) (fun b => ret (fst a + fst b, snd a ++ snd b)))
  end.

(* the returned ...FinishFuncHandler applied to an outcome of size n *)
Fixpoint run_finish (ph : phase) (n : N) (fs : list (N * option beh)) : M N :=
  match fs with
  | [] => ret 0
  | (i, f) :: r =>
    bind (catch (bind (call_finish ph n i f) (fun _ => ret 0)) (fun _ => ret 1)) (fun a =>
    bind (run_finish ph n r) (fun b => ret (a + b)))
  end.

(* addExtensionResults: errors, and the keys written to Result.Extensions *)
Fixpoint add_results (xs : list (N * ext)) : M (N * list N) :=
  match xs with
  | [] => ret (0, [])
  | (i, x) :: r =>
    bind (catch (bind (call_has i x) (fun h =>
                   if h then bind (call_get i x) (fun _ => ret (0, [x_name x])) else ret (0, [])))
                (fun _ => ret (1, []))) (fun a =>
    bind (add_results r) (fun b => ret (fst a + fst b, snd a ++ snd b)))
  end.

(* ---- resolvePlannedField for the k-th resolver call: returns the errors
        appended to eCtx.Errors.  The finish functions are given the field's
        value / error: rout = 2 * field id + (1 if the resolver failed) ---- *)

Definition rout (st : step) : N := 2 * fst st + (if rfails (snd st) then 1 else 0).

Definition resolve_field (k : N) (st : step) (xs : list (N * ext)) : M N :=
  bind (handle_start (PResolve k) xs) (fun sf =>
    match snd st with
    | ROk => bind (run_finish (PResolve k) (rout st) (snd sf)) (fun e2 => ret (fst sf + e2))
    | RErr =>
      (* finish(result, err); panic(err) -> deferred recover, handleFieldError
         (which re-panics for a non-null field: the order model accounts for it) *)
      bind (run_finish (PResolve k) (rout st) (snd sf)) (fun e2 => ret (fst sf + e2 + 1))
    | RBad =>
      (* finish(result, nil); completing the value fails afterwards: the
         notification is already finished, the recover blocks must not finish
         it again *)
      bind (run_finish (PResolve k) (rout st) (snd sf)) (fun e2 => ret (fst sf + e2 + 1))
    | RPanic => (* deferred recover: the pending notification is finished with an error *)
      bind (run_finish (PResolve k) (rout st) (snd sf)) (fun e2 => ret (fst sf + e2 + 1))
    end).

Fixpoint exec_fields (k : N) (steps : list step) (xs : list (N * ext)) : M N :=
  match steps with
  | [] => ret 0
  | st :: r =>
    bind (resolve_field k st xs) (fun a =>
    bind (exec_fields (k + 1) r xs) (fun b => ret (a + b)))
  end.

(* the goroutine of ExecutePlan: number of errors of its result *)
Definition run_body (c : cls) (xs : list (N * ext)) : M N :=
  match c with
  | CVarErr => ret 1
  | CExec _ _ =>
    (* a deferred value that fails when forced is one more field error *)
    bind (exec_fields 0 (sched c) xs) (fun a => ret (a + thunk_fails c))
  | _ => ret 0
  end.

Definition nz (n : N) : bool := negb (n =? 0).

(* ExecutePlan *)
Definition execute_plan (c : cls) (xs : list (N * ext)) : M (N * list N) :=
  bind (handle_start PExec xs) (fun sf =>
    if nz (fst sf) then
      (* result = &Result{Errors: extErrs}; finish the started ones; return *)
      bind (run_finish PExec (fst sf) (snd sf)) (fun e' => ret (fst sf + e', []))
    else
      bind (run_body c xs) (fun eb =>
      (* deferred: executionFinishFn(result); addExtensionResults *)
      bind (run_finish PExec eb (snd sf)) (fun e6 =>
      bind (add_results xs) (fun a => ret (eb + e6 + fst a, snd a))))).

(* Do *)
Definition do_m (c : cls) (xs : list (N * ext)) : M (N * list N) :=
  bind (handle_inits xs) (fun e0 =>
  if nz e0 then ret (e0, []) else
  bind (handle_start PParse xs) (fun sf =>
  if nz (fst sf) then bind (run_finish PParse 1 (snd sf)) (fun e' => ret (fst sf + e', [])) else
  match c with
  | CSyntax => bind (run_finish PParse 1 (snd sf)) (fun e => ret (e + 1, []))
  | _ =>
  bind (run_finish PParse 0 (snd sf)) (fun e2 =>
  if nz e2 then ret (e2, []) else
  bind (handle_start PValid xs) (fun sv =>
  if nz (fst sv) then bind (run_finish PValid (fst sv) (snd sv)) (fun e' => ret (fst sv + e', [])) else
  match c with
  | CInvalid m => bind (run_finish PValid (m + 1) (snd sv)) (fun e => ret (e + (m + 1), []))
  | _ =>
  bind (run_finish PValid 0 (snd sv)) (fun e4 =>
  if nz e4 then ret (e4, []) else
  match c with
  | COpErr => ret (1, [])          (* Execute: PlanQuery failed *)
  | _ => execute_plan c xs
  end)
  end))
  end)).

Fixpoint index_from {A} (i : N) (l : list A) : list (N * A) :=
  match l with
  | [] => []
  | a :: r => (i, a) :: index_from (i + 1) r
  end.

Inductive result :=
| Crash (log : list event)                       (* a panic escaped Do *)
| Done (log : list event) (nerr : N) (keys : list N).
      (* len(Result.Errors), names written to Result.Extensions *)

Definition do_model (c : cls) (exts : list ext) : result :=
  match do_m c (index_from 0 exts) with
  | (l, Ret (n, keys)) => Done l n keys
  | (l, Raise _) => Crash l
  end.

Definition result_log (r : result) : list event :=
  match r with Crash l => l | Done l _ _ => l end.
