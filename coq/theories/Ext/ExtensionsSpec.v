(* Specification of property C17 as decidable predicates on an event log
   (whoever produced it: the model or the Go implementation).  No proofs. *)
From Coq Require Import List NArith Bool.
From GQL Require Import Ext.ExtensionsModel.
Import ListNotations.
Open Scope N_scope.

Definition ev_ext (ev : event) : N :=
  match ev with
  | EInit e _ | EStart e _ _ | EFinish e _ _ _ | EHas e _ | EGet e _ => e
  end.

(* what one extension sees *)
Definition proj (e : N) (l : list event) : list event :=
  filter (fun ev => ev_ext ev =? e) l.

Definition phase_eqb (a b : phase) : bool :=
  match a, b with
  | PParse, PParse | PValid, PValid | PExec, PExec => true
  | PResolve j, PResolve k => j =? k
  | _, _ => false
  end.

(* ---- balanced: a phase is started when its ...DidStart hook hands back a
        finish function (EStart _ _ SROk); it is finished when that function
        is entered (EFinish) ---- *)

Definition is_start (e : N) (ph : phase) (ev : event) : bool :=
  match ev with
  | EStart e' ph' SROk => (e' =? e) && phase_eqb ph' ph
  | _ => false
  end.
Definition is_finish (e : N) (ph : phase) (ev : event) : bool :=
  match ev with
  | EFinish e' ph' _ _ => (e' =? e) && phase_eqb ph' ph
  | _ => false
  end.
Definition count (p : event -> bool) (l : list event) : N := N.of_nat (length (filter p l)).
Definition starts_of (e : N) (ph : phase) (l : list event) : N := count (is_start e ph) l.
Definition finishes_of (e : N) (ph : phase) (l : list event) : N := count (is_finish e ph) l.

(* every started phase of every extension is finished exactly once, and
   nothing is finished that was not started *)
Definition balanced (l : list event) : Prop :=
  forall e ph, starts_of e ph l = finishes_of e ph l /\ starts_of e ph l <= 1.

(* executable form used by the runner: checks the pairs that occur *)
Definition balanced_at (l : list event) (ev : event) : bool :=
  match ev with
  | EStart e ph SROk => (starts_of e ph l =? 1) && (finishes_of e ph l =? 1)
  | EFinish e ph _ _ => (starts_of e ph l =? 1) && (finishes_of e ph l =? 1)
  | _ => true
  end.
Definition balancedb (l : list event) : bool := forallb (balanced_at l) l.

(* ---- nested: the phases of one extension are well bracketed ---- *)

Fixpoint wb (l : list event) (stack : list phase) : option (list phase) :=
  match l with
  | [] => Some stack
  | EStart _ ph SROk :: r => wb r (ph :: stack)
  | EFinish _ ph _ _ :: r =>
    match stack with
    | top :: s => if phase_eqb top ph then wb r s else None
    | [] => None
    end
  | _ :: r => wb r stack
  end.
Definition nested_ext (e : N) (l : list event) : bool :=
  match wb (proj e l) [] with Some [] => true | _ => false end.

Fixpoint exts_of (l : list event) : list N :=
  match l with
  | [] => []
  | ev :: r => let s := exts_of r in if existsb (N.eqb (ev_ext ev)) s then s else ev_ext ev :: s
  end.
Definition nestedb (l : list event) : bool := forallb (fun e => nested_ext e l) (exts_of l).

(* ---- order: pipeline position of an event, compared lexicographically ---- *)

Definition rank (ev : event) : N * N :=
  match ev with
  | EInit _ _ => (0, 0)
  | EStart _ PParse _ => (1, 0)
  | EFinish _ PParse _ _ => (2, 0)
  | EStart _ PValid _ => (3, 0)
  | EFinish _ PValid _ _ => (4, 0)
  | EStart _ PExec _ => (5, 0)
  | EStart _ (PResolve k) _ => (6, 2 * k)
  | EFinish _ (PResolve k) _ _ => (6, 2 * k + 1)
  | EFinish _ PExec _ _ => (7, 0)
  | EHas _ _ => (8, 0)
  | EGet _ _ => (9, 0)
  end.

Definition lt2 (a b : N * N) : bool :=
  (fst a <? fst b) || ((fst a =? fst b) && (snd a <? snd b)).

Fixpoint increasing (l : list (N * N)) : bool :=
  match l with
  | a :: ((b :: _) as r) => lt2 a b && increasing r
  | _ => true
  end.

(* each extension sees its notifications in pipeline order, each at most once *)
Definition ordered_ext (e : N) (l : list event) : bool := increasing (map rank (proj e l)).
Definition orderedb (l : list event) : bool := forallb (fun e => ordered_ext e l) (exts_of l).

(* later phases do not start once an earlier one failed the request.  An
   event that fails the request: Init panics; a parse/validation/execution
   start hook panics; a parse/validation start hook returns a nil finish
   function (calling it fails); a parse/validation finish function is given
   a failed outcome or panics. *)
Definition fails_request (ev : event) : option N :=   (* the major rank up to which events may follow *)
  match ev with
  | EInit _ false => Some 0
  | EStart _ PParse SRFail | EStart _ PParse SRNil => Some 2
  | EFinish _ PParse n ok => if (0 <? n) || negb ok then Some 2 else None
  | EStart _ PValid SRFail | EStart _ PValid SRNil => Some 4
  | EFinish _ PValid n ok => if (0 <? n) || negb ok then Some 4 else None
  | EStart _ PExec SRFail => Some 7
  | _ => None
  end.
Definition allowed_after (bound : N) (ev : event) : bool :=
  let m := fst (rank ev) in
  (m <=? bound) && negb ((bound =? 7) && (m =? 6)).
Fixpoint stopsb (l : list event) : bool :=
  match l with
  | [] => true
  | ev :: r =>
    match fails_request ev with
    | Some b => forallb (allowed_after b) r
    | None => true
    end && stopsb r
  end.

(* ---- isolated: failures are reported, nothing escapes ---- *)

Definition is_failure (ev : event) : bool :=
  match ev with
  | EInit _ ok | EGet _ ok | EFinish _ _ _ ok => negb ok
  | EStart _ _ SRFail => true
  | EStart _ _ SRNil => true     (* the nil finish function fails when the phase is finished *)
  | EHas _ HRFail => true
  | _ => false
  end.
(* a hook that panics is reported as an error in the result *)
Definition reportedb (l : list event) (nerr : N) : bool := count is_failure l <=? nerr.

(* ---- finish outcome: the finish function receives the outcome of its phase.
        Outcome sizes that the request class determines: ---- *)

Definition start_failed (ph : phase) (ev : event) : bool :=
  match ev with EStart _ ph' SRFail => phase_eqb ph' ph | _ => false end.

(* the request's own errors when it reaches execution: one per failed
   field (resolver or completion of its value), one per deferred value that fails when forced *)
Definition class_errors (c : cls) : N :=
  match c with
  | CVarErr => 1
  | CExec _ _ => N.of_nat (length (filter (fun st : step => rerrs (snd st)) (sched c))) + thunk_fails c
  | _ => 0
  end.

Definition is_exec_finish (ev : event) : bool :=
  match ev with EFinish _ PExec _ _ => true | _ => false end.
Fixpoint before_exec_finish (l : list event) : list event :=
  match l with
  | [] => []
  | ev :: r => if is_exec_finish ev then [] else ev :: before_exec_finish r
  end.

Definition nil_exec_start (ev : event) : bool :=
  match ev with EStart _ PExec SRNil => true | _ => false end.

Definition outcome_ok (c : cls) (l : list event) (ev : event) : bool :=
  match ev with
  | EFinish _ PParse n _ =>
    (* failed iff the document does not parse or a ParseDidStart hook failed *)
    Bool.eqb (0 <? n) (match c with CSyntax => true | _ => false end || existsb (start_failed PParse) l)
  | EFinish _ PValid n _ =>
    (* the validation errors; or the errors of the failed ValidationDidStart hooks *)
    if existsb (start_failed PValid) l then n =? count (start_failed PValid) l
    else n =? match c with CInvalid m => m + 1 | _ => 0 end
  | EFinish _ (PResolve k) n _ =>
    (* the k-th notification is about the k-th resolver call: its field and
       whether it failed (rout) *)
    match nth_error (sched c) (N.to_nat k) with
    | Some st => n =? rout st
    | None => false
    end
  | EFinish _ PExec n _ =>
    (* the result: one error per hook that failed so far, plus the request's
       own errors when the execution ran *)
    n =? count (fun ev => is_failure ev && negb (nil_exec_start ev)) (before_exec_finish l)
         + (if existsb (start_failed PExec) l then 0 else class_errors c)
  | _ => true
  end.
Definition outcomesb (c : cls) (l : list event) : bool := forallb (outcome_ok c l) l.

(* ---- the whole Spec applied to an observed run: request class, event log,
        len(Result.Errors) ---- *)
Definition spec_ok (c : cls) (log : list event) (nerr : N) : bool :=
  balancedb log && nestedb log && orderedb log && stopsb log && reportedb log nerr && outcomesb c log.
