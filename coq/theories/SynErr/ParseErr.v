(* Where language/parser/parser.go reports a syntax error.

   Syntax/Parser.v models WHAT the parser accepts and builds; its Err carries no
   position.  This file is a second, independent reading of parser.go as a
   recogniser that keeps no AST but says WHERE it stops: every failure is
   `expect` / `expectKeyWord` / `unexpected(parser, Token{})` on parser.Token, i.e.
   at the start of the token the parser is looking at, so the recogniser returns
   the remaining token list at the point of failure ([ErrE rest]: "failed looking
   at the head of rest").  It is written with a handful of combinators
   (sequence, one-token test, branch on the current token, the loops of
   reverse() / parseDirectives / the &- and |-separated lists) so that facts
   about all productions follow from facts about the combinators
   (Proofs/SynErrWB.v); Proofs/SynErrErase.v proves, function by function, that
   it fails exactly when the parser model fails (and runs out of fuel exactly
   when that one does).

   Three places where the unrepaired parser.go reported a token other than the one
   it was looking at are modelled as repaired (fixes/C18-*.patch):
     - an empty `{ }` / `( )` where a non-empty list is required was reported at
       the opening token (unexpectedEmpty), now at the closing token;
     - a description in front of fragment / query / mutation / subscription /
       schema / extend was reported at the description, now at the keyword;
     - an operation type that is not query / mutation / subscription was reported
       after advancing past it (so a lexical error in the NEXT lexeme won), now
       before advancing.
   parseType's leniency at the end of input (a missing type or "]" is left to the
   caller's next expect) is not modelled separately: the parser is then looking at
   the EOF token, and so is every later expect -- the position is the same.

   The Go parser lexes lazily: `advance` lexes the next token.  A lexical error in
   lexeme k is therefore reported iff the parser advances past token k-1, i.e. iff
   it does not fail at one of the tokens 0..k-1.  [parse_err_ext] models this by
   running the recogniser on the tokens lexed so far followed by an end marker: a
   failure at one of those tokens is the parser's report, anything else means the
   parser asked for lexeme k and the lexer's report is returned. *)
From Coq Require Import String List NArith Bool.
From GQL Require Import Base.Bytes Syntax.Lexer Syntax.Parser SynErr.LexErr.
Import ListNotations.
Open Scope N_scope.

Inductive resE := OkE (rest : list token) | ErrE (at_ : list token) | FuelE.
Definition R := list token -> resE.

(* ---- combinators ---- *)
Definition okE : R := fun ts => OkE ts.
Definition failE : R := fun ts => ErrE ts.
Definition fuelE : R := fun _ => FuelE.
Definition seqE (f g : R) : R :=
  fun ts => match f ts with OkE r => g r | ErrE a => ErrE a | FuelE => FuelE end.
Infix ";;;" := seqE (at level 61, right associativity).
(* branch on the current token *)
Definition caseE (sel : option token -> R) : R := fun ts => sel (hd_error ts) ts.
(* one token satisfying p: expect / expectKeyWord / advance *)
Definition tokE (p : token -> bool) : R :=
  fun ts => match ts with t :: r => if p t then OkE r else ErrE ts | [] => ErrE [] end.
Definition ifE (p : token -> bool) (f g : R) : R :=
  caseE (fun o => match o with Some t => if p t then f else g | None => g end).

Definition is_k (k : tkind) (t : token) : bool := tkind_beq (tk t) k.
Definition is_kwd (w : bytes) (t : token) : bool := tkind_beq (tk t) NAME && bytes_eqb (tval t) w.
Definition is_desc (t : token) : bool := is_k STRING t || is_k BLOCK_STRING t.

Definition expectE (k : tkind) : R := tokE (is_k k).
Definition expect_kwE (w : bytes) : R := tokE (is_kwd w).
Definition anyE : R := tokE (fun _ => true).
(* skip(k) *)
Definition optE (k : tkind) : R := ifE (is_k k) anyE okE.
(* the end of the token list (after the EOF token) *)
Definition endE : R := fun ts => match ts with [] => OkE [] | _ :: _ => ErrE ts end.

(* the loop of reverse(): items until the closing token, which is consumed *)
Fixpoint manyE (fuel : nat) (item : R) (close : tkind) : R :=
  match fuel with
  | O => fuelE
  | S f => ifE (is_k close) anyE (item ;;; manyE f item close)
  end.
(* the same loop when at least one item is required: the closing token in first
   position is the error *)
Definition many1E (fuel : nat) (item : R) (close : tkind) : R :=
  match fuel with
  | O => fuelE
  | S f => ifE (is_k close) failE (item ;;; manyE f item close)
  end.
Definition reverseE (fuel : nat) (open : tkind) (item : R) (close : tkind) (nonempty : bool) : R :=
  expectE open ;;; (if nonempty then many1E fuel item close else manyE fuel item close).
Fixpoint whileE (fuel : nat) (k : tkind) (item : R) : R :=
  match fuel with
  | O => fuelE
  | S f => ifE (is_k k) (item ;;; whileE f k item) okE
  end.
Fixpoint sep_byE (fuel : nat) (sep : tkind) (item : R) : R :=
  match fuel with
  | O => fuelE
  | S f => item ;;; ifE (is_k sep) (anyE ;;; sep_byE f sep item) okE
  end.

(* ---- values, types ---- *)
Definition parse_nameE : R := expectE NAME.
Definition parse_variableE : R := expectE DOLLAR ;;; parse_nameE.
Definition parse_objfieldE (pv : R) : R := parse_nameE ;;; expectE COLON ;;; pv.

Fixpoint parse_valueE (fuel : nat) (c : bool) : R :=
  match fuel with
  | O => fuelE
  | S f =>
    caseE (fun o =>
      match o with
      | None => failE
      | Some t =>
        match tk t with
        | BRACKET_L => reverseE f BRACKET_L (parse_valueE f c) BRACKET_R false
        | BRACE_L => reverseE f BRACE_L (parse_objfieldE (parse_valueE f c)) BRACE_R false
        | INT | FLOAT | STRING | BLOCK_STRING => anyE
        | NAME =>
          if bytes_eqb (tval t) (kw "true") then anyE
          else if bytes_eqb (tval t) (kw "false") then anyE
          else if bytes_eqb (tval t) (kw "null") then failE
          else anyE
        | DOLLAR => if c then failE else parse_variableE
        | _ => failE
        end
      end)
  end.

Fixpoint parse_typeE (fuel : nat) : R :=
  match fuel with
  | O => fuelE
  | S f =>
    caseE (fun o =>
      match o with
      | None => failE
      | Some t =>
        (match tk t with
         | BRACKET_L => anyE ;;; parse_typeE f ;;; expectE BRACKET_R
         | NAME => parse_nameE
         | _ => failE
         end) ;;; optE BANG
      end)
  end.

(* ---- arguments, directives ---- *)
Definition parse_argumentE (fuel : nat) : R := parse_nameE ;;; expectE COLON ;;; parse_valueE fuel false.
Definition parse_argumentsE (fuel : nat) : R :=
  ifE (is_k PAREN_L) (reverseE fuel PAREN_L (parse_argumentE fuel) PAREN_R true) okE.
Definition parse_directiveE (fuel : nat) : R := expectE AT ;;; parse_nameE ;;; parse_argumentsE fuel.
Definition parse_directivesE (fuel : nat) : R := whileE fuel AT (parse_directiveE fuel).

(* ---- selection sets ---- *)
Definition parse_fieldE (psel : R) (fuel : nat) : R :=
  parse_nameE ;;; ifE (is_k COLON) (anyE ;;; parse_nameE) okE ;;;
  parse_argumentsE fuel ;;; parse_directivesE fuel ;;; ifE (is_k BRACE_L) psel okE.
Definition parse_fragment_nameE : R := ifE (is_kwd (kw "on")) failE parse_nameE.
Definition parse_fragmentE (psel : R) (fuel : nat) : R :=
  expectE SPREAD ;;;
  ifE (fun t => is_k NAME t && negb (is_kwd (kw "on") t))
      (parse_fragment_nameE ;;; parse_directivesE fuel)
      (ifE (is_kwd (kw "on")) (anyE ;;; parse_nameE) okE ;;; parse_directivesE fuel ;;; psel).
Definition parse_selectionE (psel : R) (fuel : nat) : R :=
  ifE (is_k SPREAD) (parse_fragmentE psel fuel) (parse_fieldE psel fuel).
Fixpoint parse_selsetE (fuel : nat) : R :=
  match fuel with
  | O => fuelE
  | S f => reverseE f BRACE_L (parse_selectionE (parse_selsetE f) f) BRACE_R true
  end.

(* ---- operations, fragments ---- *)
Definition is_optype (t : token) : bool :=
  is_k NAME t && (bytes_eqb (tval t) (kw "query") || bytes_eqb (tval t) (kw "mutation")
                  || bytes_eqb (tval t) (kw "subscription")).
Definition parse_optypeE : R := tokE is_optype.
Definition parse_defaultE (fuel : nat) : R := ifE (is_k EQUALS) (anyE ;;; parse_valueE fuel true) okE.
Definition parse_vardefE (fuel : nat) : R :=
  expectE DOLLAR ;;; parse_nameE ;;; expectE COLON ;;; parse_typeE fuel ;;; parse_defaultE fuel.
Definition parse_vardefsE (fuel : nat) : R :=
  ifE (is_k PAREN_L) (reverseE fuel PAREN_L (parse_vardefE fuel) PAREN_R true) okE.
Definition parse_operationE (fuel : nat) : R :=
  ifE (is_k BRACE_L) (parse_selsetE fuel)
      (parse_optypeE ;;; ifE (is_k NAME) parse_nameE okE ;;; parse_vardefsE fuel ;;;
       parse_directivesE fuel ;;; parse_selsetE fuel).
Definition parse_fragment_definitionE (fuel : nat) : R :=
  expect_kwE (kw "fragment") ;;; parse_fragment_nameE ;;; expect_kwE (kw "on") ;;; parse_nameE ;;;
  parse_directivesE fuel ;;; parse_selsetE fuel.

(* ---- type-system definitions; *_bodyE: after the optional description ---- *)
Definition descE : R := ifE is_desc anyE okE.
Definition parse_optypedefE : R := parse_optypeE ;;; expectE COLON ;;; parse_nameE.
Definition parse_schemaE (fuel : nat) : R :=
  expect_kwE (kw "schema") ;;; parse_directivesE fuel ;;; reverseE fuel BRACE_L parse_optypedefE BRACE_R true.
Definition scalar_bodyE (fuel : nat) : R :=
  expect_kwE (kw "scalar") ;;; parse_nameE ;;; parse_directivesE fuel.
Definition parse_ivdefE (fuel : nat) : R :=
  descE ;;; parse_nameE ;;; expectE COLON ;;; parse_typeE fuel ;;; parse_defaultE fuel ;;; parse_directivesE fuel.
Definition parse_argdefsE (fuel : nat) : R :=
  ifE (is_k PAREN_L) (reverseE fuel PAREN_L (parse_ivdefE fuel) PAREN_R true) okE.
Definition parse_fielddefE (fuel : nat) : R :=
  descE ;;; parse_nameE ;;; parse_argdefsE fuel ;;; expectE COLON ;;; parse_typeE fuel ;;; parse_directivesE fuel.
Definition parse_implementsE (fuel : nat) : R :=
  ifE (is_kwd (kw "implements")) (anyE ;;; optE AMP ;;; sep_byE fuel AMP parse_nameE) okE.
Definition objdef_bodyE (fuel : nat) : R :=
  expect_kwE (kw "type") ;;; parse_nameE ;;; parse_implementsE fuel ;;; parse_directivesE fuel ;;;
  reverseE fuel BRACE_L (parse_fielddefE fuel) BRACE_R false.
Definition interface_bodyE (fuel : nat) : R :=
  expect_kwE (kw "interface") ;;; parse_nameE ;;; parse_directivesE fuel ;;;
  reverseE fuel BRACE_L (parse_fielddefE fuel) BRACE_R false.
Definition union_bodyE (fuel : nat) : R :=
  expect_kwE (kw "union") ;;; parse_nameE ;;; parse_directivesE fuel ;;; expectE EQUALS ;;;
  sep_byE fuel PIPE parse_nameE.
Definition parse_enumvaldefE (fuel : nat) : R := descE ;;; parse_nameE ;;; parse_directivesE fuel.
Definition enum_bodyE (fuel : nat) : R :=
  expect_kwE (kw "enum") ;;; parse_nameE ;;; parse_directivesE fuel ;;;
  reverseE fuel BRACE_L (parse_enumvaldefE fuel) BRACE_R false.
Definition input_bodyE (fuel : nat) : R :=
  expect_kwE (kw "input") ;;; parse_nameE ;;; parse_directivesE fuel ;;;
  reverseE fuel BRACE_L (parse_ivdefE fuel) BRACE_R false.
Definition parse_extendE (fuel : nat) : R := expect_kwE (kw "extend") ;;; descE ;;; objdef_bodyE fuel.
Definition directive_bodyE (fuel : nat) : R :=
  expect_kwE (kw "directive") ;;; expectE AT ;;; parse_nameE ;;; parse_argdefsE fuel ;;;
  expect_kwE (kw "on") ;;; sep_byE fuel PIPE parse_nameE.

(* the definition selected by the keyword the parser is looking at; [d]: a description precedes it *)
Definition tsd_kwE (fuel : nat) (d : bool) : R :=
  caseE (fun o =>
    match o with
    | None => failE
    | Some k =>
      if negb (is_k NAME k) then failE
      else
        let v := tval k in
        if bytes_eqb v (kw "fragment") then (if d then failE else parse_fragment_definitionE fuel)
        else if bytes_eqb v (kw "query") || bytes_eqb v (kw "mutation") || bytes_eqb v (kw "subscription")
             then (if d then failE else parse_operationE fuel)
        else if bytes_eqb v (kw "schema") then (if d then failE else parse_schemaE fuel)
        else if bytes_eqb v (kw "scalar") then scalar_bodyE fuel
        else if bytes_eqb v (kw "type") then objdef_bodyE fuel
        else if bytes_eqb v (kw "interface") then interface_bodyE fuel
        else if bytes_eqb v (kw "union") then union_bodyE fuel
        else if bytes_eqb v (kw "enum") then enum_bodyE fuel
        else if bytes_eqb v (kw "input") then input_bodyE fuel
        else if bytes_eqb v (kw "extend") then (if d then failE else parse_extendE fuel)
        else if bytes_eqb v (kw "directive") then directive_bodyE fuel
        else failE
    end).
Definition parse_tsdE (fuel : nat) : R := ifE is_desc (anyE ;;; tsd_kwE fuel true) (tsd_kwE fuel false).

Definition parse_definitionE (fuel : nat) : R :=
  ifE (is_k BRACE_L) (parse_operationE fuel)
      (ifE (fun t => is_k NAME t || is_k STRING t || is_k BLOCK_STRING t) (parse_tsdE fuel) failE).

(* parseDocument: Definition+ up to the EOF token, which is the last token there is *)
Definition parse_documentE (fuel : nat) : R := many1E fuel (parse_definitionE fuel) EOF ;;; endE.
Definition parse_tokensE (ts : list token) : resE := parse_documentE (S (2 * List.length ts)) ts.

(* ---- parser.Parse on a byte string: the reported offset, and the extent
        [lo, hi] (inclusive) of the token / malformed lexeme it belongs to ---- *)
Definition end_marker (p : N) : token := mktok EOF p p [].
Definition tok_ext (t : token) : N * N * N := (tstart t, tstart t, N.max (tstart t) (tend t - 1)).

Definition parse_err_ext (src : bytes) : option (N * N * N) :=
  match lexE src with
  | (ts, LDone) =>
    match parse_tokensE ts with
    | ErrE (t :: _) => Some (tok_ext t)
    | ErrE [] => Some (tok_ext (last ts (end_marker (nlen src))))   (* not reached: a lexed stream ends with its EOF token *)
    | _ => None
    end
  | (ts, LBad s e) =>
    match parse_tokensE (ts ++ [end_marker s]) with
    | ErrE (t :: _ :: _) => Some (tok_ext t)
    | _ => Some (e, s, e)
    end
  | (_, LFuel) => None
  end.

Definition parse_err (src : bytes) : option N :=
  match parse_err_ext src with Some (off, _, _) => Some off | None => None end.
