(* The specification of a syntax-error location, made executable.

   C18: "for a syntax error [the location] falls within the first token (or
   malformed lexeme) at which the text stops being the beginning of any valid
   document".  For a token t reported after the tokens u this is two facts:

     (1) no valid document has a token stream beginning with u ++ [t]
         -- proved for whatever the model reports (Proofs/SynErrMain.v,
         parse_err_position: no_extension u t);
     (2) some valid document has a token stream beginning with u.

   (2) is established per input by a witness: [complete] searches greedily for
   tokens that close what u leaves open and returns them only if the proved-correct
   recogniser accepts u followed by them.  A returned witness is a proof of (2)
   (Proofs/SynErrViable.v, complete_sound); a failed search proves nothing and is
   treated as "unknown". *)
From Coq Require Import String List NArith Bool.
From GQL Require Import Base.Bytes Syntax.Lexer Syntax.Parser SynErr.LexErr SynErr.ParseErr.
Import ListNotations.
Open Scope N_scope.

Definition wtok (k : tkind) (v : string) : token := mktok k 0 0 (of_string v).
Definition weof : token := wtok EOF "".

(* closing tokens first, so that the search closes what is open before it opens more *)
Definition candidates : list token :=
  [ wtok BRACE_R ""; wtok PAREN_R ""; wtok BRACKET_R ""; wtok COLON ""; wtok NAME "x"; wtok INT "1";
    wtok BRACE_L ""; wtok NAME "on"; wtok NAME "type"; wtok NAME "query"; wtok EQUALS ""; wtok AT "";
    wtok DOLLAR "" ].

(* the recogniser gets past every token of u when u is followed by the end of input *)
Definition gets_past (u : list token) : bool :=
  match parse_tokensE (u ++ [weof]) with
  | OkE _ => true
  | ErrE r => Nat.leb (List.length r) 1
  | FuelE => false
  end.

Definition accepts (u : list token) : bool :=
  match parse_tokensE (u ++ [weof]) with OkE [] => true | _ => false end.

Fixpoint complete (n : nat) (u : list token) : option (list token) :=
  if accepts u then Some []
  else
    match n with
    | O => None
    | S n' =>
      match find (fun c => gets_past (u ++ [c])) candidates with
      | Some c => match complete n' (u ++ [c]) with Some w => Some (c :: w) | None => None end
      | None => None
      end
    end.

(* tokens that followed by the end of input make u a document, if the search finds them *)
Definition viable_witness (u : list token) : option (list token) := complete 40 u.

(* ---- what the model reports, with the tokens the parser had consumed ---- *)
Record report := mkreport {
  r_off : N;                 (* reported byte offset *)
  r_lo : N; r_hi : N;        (* extent of the offending token / malformed lexeme, inclusive *)
  r_before : list token;     (* the tokens before it *)
  r_lexical : bool           (* reported by the lexer *)
}.

Definition before (tokens r : list token) : list token :=
  firstn (Nat.sub (List.length tokens) (List.length r)) tokens.

Definition parse_report (src : bytes) : option report :=
  match lexE src with
  | (ts, LDone) =>
    match parse_tokensE ts with
    | ErrE (t :: r) => let '(o, l, h) := tok_ext t in Some (mkreport o l h (before ts (t :: r)) false)
    | ErrE [] => let '(o, l, h) := tok_ext (last ts (end_marker (nlen src))) in Some (mkreport o l h (removelast ts) false)
    | _ => None
    end
  | (ts, LBad s e) =>
    match parse_tokensE (ts ++ [end_marker s]) with
    | ErrE (t :: t2 :: r) =>
      let '(o, l, h) := tok_ext t in Some (mkreport o l h (before (ts ++ [end_marker s]) (t :: t2 :: r)) false)
    | _ => Some (mkreport e s e ts true)
    end
  | (_, LFuel) => None
  end.
