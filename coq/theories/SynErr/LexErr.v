(* Where language/lexer/lexer.go reports a lexical error.

   Syntax/Lexer.v says only THAT the lexer fails (Err).  This file adds, without
   touching that model, the byte offset the Go code hands to NewSyntaxError:

     readToken      invalid control character / unexpected character / "." that is
                    not "...":  the first byte of the lexeme;
     readNumber     a digit after a leading 0: that digit; a missing digit after the
                    sign, after "." or after the exponent marker (and its sign): the
                    byte where the digit should be (readDigits);
     readString     an invalid character (< 0x20 except TAB): that character;
                    a bad escape: the byte after the backslash (for \u with fewer
                    than four hex digits: the "u"); unterminated: the line terminator
                    or the end of input where the scan stopped;
     readBlockString an invalid character: that character; unterminated: end of input.

   The Go lexer reports `runePosition`, which equals the byte position as long as no
   multi-byte character precedes it in the lexeme or in the ignored stretch before it;
   the model works in bytes (finding C18-mixed-offset-units covers the difference),
   so model and code are compared on ASCII inputs.

   Each *_err function walks the same path as the function of Syntax/Lexer.v it
   belongs to and is consulted only when that function returns Err; hence the
   token stream of [lexE] is, by construction, the one [lex] produces. *)
From Coq Require Import List NArith Bool.
From GQL Require Import Base.Bytes Syntax.Lexer.
Import ListNotations.
Open Scope N_scope.

(* offset, relative to the first byte of the lexeme, of the error of readNumber *)
Definition read_number_err (s : bytes) : N :=
  let '(o0, s1) := match s with c :: r => if c =? 45 then (1, r) else (0, s) | [] => (0, s) end in
  match read_int_part s1 with
  | None => match s1 with c :: _ => if c =? 48 then o0 + 1 else o0 | [] => o0 end
  | Some (ip, s2) =>
    match read_frac_part s2 with
    | None => o0 + nlen ip + 1
    | Some (fp, _, s3) =>
      match s3 with
      | _ :: r =>
        let sg := match r with c :: _ => if (c =? 43) || (c =? 45) then 1 else 0 | [] => 0 end in
        o0 + nlen ip + nlen fp + 1 + sg
      | [] => o0 + nlen ip + nlen fp
      end
    end
  end.

(* s starts after the opening quote, at byte offset pos *)
Fixpoint read_string_err (fuel : nat) (s : bytes) (pos : N) : N :=
  match fuel with
  | O => pos
  | S f =>
    match rune_at s with
    | None => pos
    | Some (code, n) =>
      if (code =? 10) || (code =? 13) then pos
      else if code =? 34 then pos
      else if (code <? 32) && negb (code =? 9) then pos
      else if code =? 92 then
        match dropN 1 s with
        | [] => pos + 1
        | e :: r =>
          match simple_escape e with
          | Some _ => read_string_err f r (pos + 2)
          | None =>
            if e =? 117 then
              match r with
              | a :: b :: c :: d :: r' =>
                match uni_char_code a b c d with
                | Some _ => read_string_err f r' (pos + 6)
                | None => pos + 1
                end
              | _ => pos + 1
              end
            else pos + 1
          end
        end
      else read_string_err f (dropN n s) (pos + n)
    end
  end.

(* s starts after the opening triple quote *)
Fixpoint read_block_err (fuel : nat) (s : bytes) (pos : N) : N :=
  match fuel with
  | O => pos
  | S f =>
    match rune_at s with
    | None => pos
    | Some (code, n) =>
      if (code =? 34) && starts_with [34; 34] (dropN 1 s) then pos
      else if (code <? 32) && negb (code =? 9) && negb (code =? 10) && negb (code =? 13) then pos
      else if (code =? 92) && starts_with [34; 34; 34] (dropN 1 s) then read_block_err f (dropN 4 s) (pos + 4)
      else read_block_err f (dropN n s) (pos + n)
    end
  end.

(* s is the source from the lexeme's first byte, at byte offset pos *)
Definition read_token_err (fuel : nat) (s : bytes) (pos : N) : N :=
  match rune_at s with
  | None => pos
  | Some (code, n) =>
    if (code <? 32) && negb (code =? 9) && negb (code =? 10) && negb (code =? 13) then pos
    else
      match punct1 code with
      | Some _ => pos
      | None =>
        if code =? 46 then pos
        else if is_name_start code then pos
        else if (code =? 45) || is_digit code then pos + read_number_err s
        else if code =? 34 then
          if starts_with [34; 34] (dropN 1 s) then read_block_err fuel (dropN 3 s) (pos + 3)
          else read_string_err fuel (dropN 1 s) (pos + 1)
        else pos
      end
  end.

(* how lexing ended: at the EOF token, or at a malformed lexeme that starts at
   byte [lexeme_start] with the error reported at byte [err] *)
Inductive lexout := LDone | LBad (lexeme_start err : N) | LFuel.

(* the tokens lexed before lexing ended, and how it ended *)
Fixpoint lex_allE (fuel : nat) (s : bytes) (pos : N) : list token * lexout :=
  match fuel with
  | O => ([], LFuel)
  | S f =>
    match skip_ws fuel s pos false with
    | Ok (s1, p1, _) =>
      match read_token fuel s1 p1 with
      | Ok (t, s2, p2) =>
        match tk t with
        | EOF => ([t], LDone)
        | _ => let '(ts, o) := lex_allE f s2 p2 in (t :: ts, o)
        end
      | Err => ([], LBad p1 (read_token_err fuel s1 p1))
      | OutOfFuel => ([], LFuel)
      end
    | Err => ([], LBad pos pos)
    | OutOfFuel => ([], LFuel)
    end
  end.

Definition lexE (src : bytes) : list token * lexout := lex_allE (S (length src)) src 0.

(* the position lexer.Lex reports for a source it rejects *)
Definition lex_err (src : bytes) : option N :=
  match snd (lexE src) with LBad _ e => Some e | _ => None end.

Definition ascii_only (s : bytes) : bool := forallb (fun c => c <? 128) s.
