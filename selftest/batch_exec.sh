#!/bin/bash
# runs the exec-family mutants sequentially; output to .work/mutants-exec.txt
cd /verif
M=/verif/design-notes/mutants
{
for pm in "C01 c01_include_dyn_ignored_when_skip_dyn" "C01 c01_object_value_vars_not_detected" "C05 c01_object_value_vars_not_detected" "C04 c04_thunk_error_swallowed" "C05 c05_input_field_default_dropped_for_vars" "C13 c13_mutation_breadth_first" "C20 c20_static_args_shared" "C20 c20_ctx_not_forwarded_to_istypeof" "C20 c20_fragments_missing" "C20 c20_variable_values_raw"; do
  set -- $pm
  selftest/run_mutant $M/$2.patch $1
done
} > .work/mutants-exec.txt 2>&1
