#!/bin/bash
# selftest/c06/run.sh PATCH [tier]: apply PATCH to $VERIF_REPO, run bin/check C06 from this tree, undo. Prints CAUGHT/MISSED/GREEN.
here="$(cd "$(dirname "$0")/../.." && pwd)"
patch="$1"; tier="${2:-quick}"
REPO="${VERIF_REPO:-/repo}"
cd "$REPO" || exit 2
if ! git diff --quiet; then echo "repo dirty"; exit 2; fi
git apply "$patch" || { echo "PATCH-DOES-NOT-APPLY $patch"; exit 3; }
out=$(cd "$here" && bin/check C06 "$tier" 2>&1); rc=$?
git -C "$REPO" checkout -- . ; git -C "$REPO" clean -fdq
v=$(echo "$out" | grep ^VIOLATION | head -1)
if [ $rc -eq 1 ] && [ -n "$v" ]; then echo "CAUGHT $(basename $patch): $v"
elif [ $rc -eq 0 ]; then echo "GREEN $(basename $patch)"
else echo "ERROR($rc) $(basename $patch): $(echo "$out" | tail -5)"; fi
