(* Design probe, 2026-09-23 (not part of any build): the explicit-stack visitor loop (one step
   per iteration) produces the event list of the plain recursive walk, with skip and break,
   over nodes whose child slots are optional nodes or lists.  Control skeleton only: key,
   parent, path and ancestors are functions of the stack and are added as an invariant in the
   real development.  coqc 8.16.1, no axioms. *)
From Coq Require Import List Arith Lia Bool.
Import ListNotations.

Inductive node := Node (id:nat) (slots:list slot)
with slot := One (o:option node) | Many (l:list node).
Inductive action := Continue | Skip | Break.
Inductive event := Enter (id:nat) | Leave (id:nat).

(* a trace with a "stopped" flag, and sequencing that respects it *)
Definition tr := (list event * bool)%type.
Definition seq (p q:tr) : tr := let '(e,b) := p in if b then (e,true) else let '(e',b') := q in (e ++ e', b').
Definition nil_tr : tr := ([], false).
Lemma seq_nil_l q : seq nil_tr q = q. Proof. destruct q; reflexivity. Qed.
Lemma seq_nil_r p : seq p nil_tr = p. Proof. destruct p as [e []]; cbn; rewrite ?app_nil_r; reflexivity. Qed.
Lemma seq_assoc p q r : seq (seq p q) r = seq p (seq q r).
Proof. destruct p as [e []], q as [e' []], r as [e'' b'']; cbn; rewrite ?app_assoc; reflexivity. Qed.
Lemma fst_seq_cont e q : fst (seq (e,false) q) = e ++ fst q. Proof. destruct q; reflexivity. Qed.

Section W.
Variable pol : nat -> bool -> action.       (* node id, leaving? *)
Definition leave (id:nat) : tr := match pol id true with Break => ([Leave id], true) | _ => ([Leave id], false) end.

Fixpoint walk (n:node) : tr :=
  match n with
  | Node id slots =>
    match pol id false with
    | Break => ([Enter id], true)
    | Skip => ([Enter id], false)
    | Continue =>
      seq ([Enter id], false)
        (seq ((fix ws (ss:list slot) : tr :=
                 match ss with
                 | [] => nil_tr
                 | s :: r => seq (match s with
                                  | One None => nil_tr
                                  | One (Some c) => walk c
                                  | Many l => (fix wl (l:list node) : tr := match l with [] => nil_tr | c :: l' => seq (walk c) (wl l') end) l
                                  end) (ws r)
                 end) slots)
             (leave id))
    end
  end.
Fixpoint wlist (l:list node) : tr := match l with [] => nil_tr | c :: l' => seq (walk c) (wlist l') end.
Definition wslot (s:slot) : tr := match s with One None => nil_tr | One (Some c) => walk c | Many l => wlist l end.
Fixpoint wslots (ss:list slot) : tr := match ss with [] => nil_tr | s :: r => seq (wslot s) (wslots r) end.

Lemma walk_unfold id slots :
  walk (Node id slots) = match pol id false with
                         | Break => ([Enter id], true) | Skip => ([Enter id], false)
                         | Continue => seq ([Enter id], false) (seq (wslots slots) (leave id)) end.
Proof. reflexivity. Qed.

Inductive frame := FNode (id:nat) (rest:list slot) | FList (rest:list node).

Fixpoint run (fuel:nat) (st:list frame) (acc:list event) : option (list event) :=
  match fuel with
  | 0 => None
  | S f =>
    match st with
    | [] => Some (rev acc)
    | FNode id [] :: st' =>
        match pol id true with
        | Break => Some (rev (Leave id :: acc))
        | _ => run f st' (Leave id :: acc)
        end
    | FNode id (One None :: ss) :: st' => run f (FNode id ss :: st') acc
    | FNode id (One (Some c) :: ss) :: st' => run f (FList [c] :: FNode id ss :: st') acc
    | FNode id (Many l :: ss) :: st' => run f (FList l :: FNode id ss :: st') acc
    | FList [] :: st' => run f st' acc
    | FList (Node id slots :: l) :: st' =>
        match pol id false with
        | Break => Some (rev (Enter id :: acc))
        | Skip => run f (FList l :: st') (Enter id :: acc)
        | Continue => run f (FNode id slots :: FList l :: st') (Enter id :: acc)
        end
    end
  end.

(* the meaning of a stack: what remains to be emitted *)
Fixpoint kont (st:list frame) : tr :=
  match st with
  | [] => nil_tr
  | FNode id ss :: st' => seq (wslots ss) (seq (leave id) (kont st'))
  | FList l :: st' => seq (wlist l) (kont st')
  end.

Theorem run_is_kont : forall fuel st acc evs,
  run fuel st acc = Some evs -> evs = rev acc ++ fst (kont st).
Proof.
  induction fuel as [|f IH]; intros st acc evs H; [discriminate|].
  destruct st as [|fr st']; cbn [run] in H.
  - inversion H; subst. cbn. rewrite app_nil_r. reflexivity.
  - destruct fr as [id ss|l].
    + destruct ss as [|s ss].
      * cbn [kont wslots]. rewrite seq_nil_l. unfold leave.
        destruct (pol id true) eqn:Ep.
        -- apply IH in H. rewrite H. cbn [rev]. rewrite fst_seq_cont, <- app_assoc. reflexivity.
        -- apply IH in H. rewrite H. cbn [rev]. rewrite fst_seq_cont, <- app_assoc. reflexivity.
        -- inversion H; subst. reflexivity.
      * destruct s as [[c|]|l]; apply IH in H; rewrite H; f_equal; cbn [kont wslots wslot wlist].
        -- rewrite seq_nil_r, seq_assoc. reflexivity.
        -- rewrite seq_nil_l. reflexivity.
        -- rewrite seq_assoc. reflexivity.
    + destruct l as [|[id slots] l].
      * apply IH in H. rewrite H. cbn [kont wlist]. rewrite seq_nil_l. reflexivity.
      * cbn [kont wlist]. rewrite walk_unfold.
        destruct (pol id false) eqn:Ep.
        -- apply IH in H. rewrite H. cbn [rev kont].
           rewrite !seq_assoc, fst_seq_cont, <- app_assoc. reflexivity.
        -- apply IH in H. rewrite H. cbn [rev kont].
           rewrite seq_assoc, fst_seq_cont, <- app_assoc. reflexivity.
        -- inversion H; subst. reflexivity.
Qed.

Corollary visit_is_walk : forall fuel n evs,
  run fuel [FList [n]] [] = Some evs -> evs = fst (walk n).
Proof.
  intros fuel n evs H. apply run_is_kont in H. rewrite H. cbn [rev app kont wlist].
  rewrite !seq_nil_r. reflexivity.
Qed.
End W.
Print Assumptions visit_is_walk.
