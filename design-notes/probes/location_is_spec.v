(* Design probe, 2026-09-23 (not part of any build): language/location.GetLocation as written
   (all matches of "\r\n|[\n\r]" left to right, then a scan) equals a single-pass specification
   of line and byte column, for LF, CR and CRLF.  Byte offsets; the code-point column of the
   real Spec adds UTF-8 decoding on top.  coqc 8.16.1, no axioms. *)
From Coq Require Import List NArith ZArith Lia Bool.
Import ListNotations.
Open Scope N_scope.
Definition byte := N.

Fixpoint matches (s:list byte) (i:N) : list (N*N) :=
  match s with
  | [] => []
  | c :: r =>
    if c =? 13 then
      match r with
      | d :: r' => if d =? 10 then (i, 2) :: matches r' (i+2) else (i,1) :: matches r (i+1)
      | [] => [(i,1)]
      end
    else if c =? 10 then (i,1) :: matches r (i+1)
    else matches r (i+1)
  end.
Fixpoint scan (ms:list (N*N)) (position:N) (line:N) (column:Z) : N*Z :=
  match ms with
  | [] => (line, column)
  | (mi,l) :: r => if mi <? position then scan r position (line+1) (Z.of_N position + 1 - Z.of_N (mi + l))%Z
                   else (line, column)
  end.
Definition get_location (s:list byte) (position:N) : N*Z :=
  scan (matches s 0) position 1 (Z.of_N position + 1)%Z.

Fixpoint spec_go (s:list byte) (i:N) (position:N) (line:N) (lstart:N) : N*Z :=
  match s with
  | [] => (line, (Z.of_N position + 1 - Z.of_N lstart)%Z)
  | c :: r =>
    if position <=? i then (line, (Z.of_N position + 1 - Z.of_N lstart)%Z)
    else if c =? 13 then
      match r with
      | d :: r' => if d =? 10 then spec_go r' (i+2) position (line+1) (i+2)
                   else spec_go r (i+1) position (line+1) (i+1)
      | [] => (line+1, (Z.of_N position + 1 - Z.of_N (i+1))%Z)
      end
    else if c =? 10 then spec_go r (i+1) position (line+1) (i+1)
    else spec_go r (i+1) position line lstart
  end.
Definition spec_location s position := spec_go s 0 position 1 0.

Lemma scan_stop : forall ms position line column,
  (forall m l, In (m,l) ms -> position <= m) -> scan ms position line column = (line, column).
Proof.
  intros [|[m l] r] position line column H; simpl; auto.
  destruct (m <? position) eqn:E; auto.
  apply N.ltb_lt in E. specialize (H m l (or_introl eq_refl)). lia.
Qed.

Lemma matches_lb : forall n s i m l, (length s <= n)%nat -> In (m,l) (matches s i) -> i <= m.
Proof.
  induction n as [|n IH]; intros s i m l Hn H.
  - destruct s; simpl in *; [contradiction|lia].
  - destruct s as [|c r]; simpl in H; [contradiction|]. simpl in Hn.
    destruct (c =? 13).
    + destruct r as [|d r'].
      * destruct H as [H|[]]; inversion H; lia.
      * simpl in Hn. destruct (d =? 10).
        -- destruct H as [H|H]; [inversion H; lia|]. apply IH in H; lia.
        -- destruct H as [H|H]; [inversion H; lia|]. apply IH in H; simpl; lia.
    + destruct (c =? 10).
      * destruct H as [H|H]; [inversion H; lia|]. apply IH in H; lia.
      * apply IH in H; lia.
Qed.

Lemma model_is_spec_gen : forall n s i position line lstart,
  (length s <= n)%nat -> lstart <= i ->
  scan (matches s i) position line (Z.of_N position + 1 - Z.of_N lstart)%Z
  = spec_go s i position line lstart.
Proof.
  induction n as [|n IH]; intros s i position line lstart Hn Hl.
  - destruct s; simpl in *; [reflexivity|lia].
  - destruct s as [|c r]; [reflexivity|]. simpl in Hn.
    cbn [spec_go].
    destruct (position <=? i) eqn:Ep.
    + apply N.leb_le in Ep. apply scan_stop. intros m l H.
      apply (matches_lb (S n)) in H; simpl; lia.
    + apply N.leb_gt in Ep. cbn [matches].
      destruct (c =? 13) eqn:E13.
      * destruct r as [|d r'].
        -- cbn [scan]. replace (i <? position) with true by (symmetry; apply N.ltb_lt; lia). reflexivity.
        -- simpl in Hn. destruct (d =? 10) eqn:E10.
           ++ cbn [scan]. replace (i <? position) with true by (symmetry; apply N.ltb_lt; lia).
              apply IH; lia.
           ++ cbn [scan]. replace (i <? position) with true by (symmetry; apply N.ltb_lt; lia).
              apply IH; simpl; lia.
      * destruct (c =? 10) eqn:E10.
        -- cbn [scan]. replace (i <? position) with true by (symmetry; apply N.ltb_lt; lia).
           apply IH; lia.
        -- apply IH; lia.
Qed.

Theorem C18_location : forall s position, get_location s position = spec_location s position.
Proof.
  intros. unfold get_location, spec_location.
  replace (Z.of_N position + 1)%Z with (Z.of_N position + 1 - Z.of_N 0)%Z by lia.
  apply (model_is_spec_gen (length s)); lia.
Qed.
Print Assumptions C18_location.
Example ex1 : get_location [123;32;97;32;125;13;10;32;32;37] 9 = (2, 3%Z). Proof. reflexivity. Qed.
