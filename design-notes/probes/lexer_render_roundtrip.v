(* Design probe, 2026-09-23 (not part of any build): lexing the rendering of a token list gives the
   token list back (maximal munch, one separating space), the string-level half of the C08
   round trip; span_all is the token-boundary lemma.  Mini lexer: names, ints, braces, spaces.
   coqc 8.16.1, no axioms. *)
From Coq Require Import List Arith Lia Bool.
Import ListNotations.

(* characters as nat codes: 32 space, 123 {, 125 }, 97..122 letters, 48..57 digits *)
Definition is_alpha c := (97 <=? c) && (c <=? 122).
Definition is_digit c := (48 <=? c) && (c <=? 57).
Inductive tok := TName (s:list nat) | TInt (s:list nat) | TL | TR.

(* maximal munch of a character class *)
Fixpoint span (p:nat->bool) (s:list nat) : list nat * list nat :=
  match s with
  | c :: r => if p c then let '(a,b) := span p r in (c::a, b) else ([], s)
  | [] => ([], [])
  end.

Fixpoint lex (fuel:nat) (s:list nat) : option (list tok) :=
  match fuel with
  | 0 => None
  | S f =>
    match s with
    | [] => Some []
    | c :: r =>
      if c =? 32 then lex f r
      else if c =? 123 then option_map (cons TL) (lex f r)
      else if c =? 125 then option_map (cons TR) (lex f r)
      else if is_alpha c then let '(a,b) := span is_alpha s in option_map (cons (TName a)) (lex f b)
      else if is_digit c then let '(a,b) := span is_digit s in option_map (cons (TInt a)) (lex f b)
      else None
    end
  end.

(* printer: tokens separated by one space *)
Definition render1 (t:tok) : list nat := match t with TName s => s | TInt s => s | TL => [123] | TR => [125] end.
Fixpoint render (ts:list tok) : list nat := match ts with [] => [] | t :: r => render1 t ++ 32 :: render r end.

Definition wf_tok (t:tok) := match t with
  | TName s => s <> [] /\ Forall (fun c => is_alpha c = true) s
  | TInt s => s <> [] /\ Forall (fun c => is_digit c = true) s
  | _ => True end.

Lemma span_all : forall p s r, Forall (fun c => p c = true) s -> (match r with [] => True | c :: _ => p c = false end) ->
  span p (s ++ r) = (s, r).
Proof.
  induction s as [|c s IH]; intros r Hs Hr; simpl.
  - destruct r as [|d r']; [reflexivity|]. simpl. rewrite Hr. reflexivity.
  - inversion Hs; subst. rewrite H1. rewrite IH; auto.
Qed.

Lemma alpha_not_special : forall c, is_alpha c = true -> (c =? 32) = false /\ (c =? 123) = false /\ (c =? 125) = false.
Proof. unfold is_alpha. intros c H. apply andb_true_iff in H as [H1 H2]. apply Nat.leb_le in H1, H2.
  repeat split; apply Nat.eqb_neq; lia. Qed.
Lemma digit_not_special : forall c, is_digit c = true -> (c =? 32) = false /\ (c =? 123) = false /\ (c =? 125) = false /\ is_alpha c = false.
Proof. unfold is_digit, is_alpha. intros c H. apply andb_true_iff in H as [H1 H2]. apply Nat.leb_le in H1, H2.
  repeat split; try (apply Nat.eqb_neq; lia). apply andb_false_iff. left. apply Nat.leb_gt. lia. Qed.

Theorem lex_render : forall ts, Forall wf_tok ts -> forall fuel, fuel > 2 * length (render ts) -> lex fuel (render ts) = Some ts.
Proof.
  induction ts as [|t ts IH]; intros Hwf fuel Hf.
  - destruct fuel; [simpl in Hf; lia|]. reflexivity.
  - inversion Hwf as [|? ? Ht Hts]; subst.
    assert (Hlen: length (render (t :: ts)) = length (render1 t) + S (length (render ts))) by (cbn [render]; rewrite app_length; reflexivity).
    destruct t as [s|s| |]; cbn [render render1] in *.
    + (* name *) destruct Ht as [Hne Hall]. destruct s as [|c s]; [congruence|].
      destruct fuel; [lia|]. cbn [app lex].
      inversion Hall as [|? ? Hc Hs]; subst.
      destruct (alpha_not_special c Hc) as (E1 & E2 & E3). rewrite E1, E2, E3, Hc.
      change (c :: s ++ 32 :: render ts) with ((c :: s) ++ 32 :: render ts).
      rewrite span_all; [|assumption|reflexivity].
      (* now the separating space *)
      destruct fuel; [simpl in *; lia|]. cbn [lex]. cbn [Nat.eqb].
      rewrite IH; [reflexivity|assumption|]. simpl in *. rewrite app_length in *. simpl in *. lia.
    + (* int *) destruct Ht as [Hne Hall]. destruct s as [|c s]; [congruence|].
      destruct fuel; [lia|]. cbn [app lex].
      inversion Hall as [|? ? Hc Hs]; subst.
      destruct (digit_not_special c Hc) as (E1 & E2 & E3 & E4). rewrite E1, E2, E3, E4, Hc.
      change (c :: s ++ 32 :: render ts) with ((c :: s) ++ 32 :: render ts).
      rewrite span_all; [|assumption|reflexivity].
      destruct fuel; [simpl in *; lia|]. cbn [lex]. cbn [Nat.eqb].
      rewrite IH; [reflexivity|assumption|]. simpl in *. rewrite app_length in *. simpl in *. lia.
    + destruct fuel; [lia|]. cbn [app lex]. cbn [Nat.eqb].
      destruct fuel; [simpl in *; lia|]. cbn [lex]. cbn [Nat.eqb].
      rewrite IH; [reflexivity|assumption|]. simpl in *. lia.
    + destruct fuel; [lia|]. cbn [app lex]. cbn [Nat.eqb].
      destruct fuel; [simpl in *; lia|]. cbn [lex]. cbn [Nat.eqb].
      rewrite IH; [reflexivity|assumption|]. simpl in *. lia.
Qed.
Print Assumptions lex_render.
