(* Design probe, 2026-09-23 (not part of any build): the overlap-rule decomposition
   (within / fields-vs-fragment / fragment-vs-fragment / sub-selections, step E in its
   intended form) accepts exactly what the brute-force pairwise check accepts, on a reduced
   syntax (fields with key/name/sub-selection, named spreads, acyclic fragments by rank;
   no inline fragments, arguments, parent types or type conflicts).  coqc 8.16.1, no axioms. *)
From Coq Require Import List Arith Lia Bool Wf_nat.
Import ListNotations.

(* reduced syntax: fields (key, name, sub-selection) and named spreads *)
Inductive sel := F (key name : nat) (sub : list sel) | S (g : nat).
Definition keyof (s:sel) := match s with F k _ _ => k | S _ => 0 end.
Definition is_field (s:sel) := match s with F _ _ _ => True | _ => False end.

Section Doc.
Variable body : nat -> list sel.           (* fragment definitions *)

(* fields reachable on one selection-set level through any chain of spreads *)
Inductive InE : list sel -> sel -> Prop :=
| InE_d : forall ss k n sub, In (F k n sub) ss -> InE ss (F k n sub)
| InE_s : forall ss g x, In (S g) ss -> InE (body g) x -> InE ss x.

Lemma InE_field : forall ss x, InE ss x -> is_field x.
Proof. induction 1; simpl; auto. Qed.

(* L1: brute force *)
Inductive compat : sel -> sel -> Prop :=
| compat_i : forall k1 n s1 k2 s2,
    (forall a b, InE s1 a -> InE s2 b -> keyof a = keyof b -> compat a b) ->
    compat (F k1 n s1) (F k2 n s2).
Definition L1 (ss:list sel) := forall a b, InE ss a -> InE ss b -> keyof a = keyof b -> compat a b.

Lemma compat_sym : forall a b, compat a b -> compat b a.
Proof. induction 1 as [k1 n s1 k2 s2 H IH]. constructor. intros a b Ha Hb Hk. apply IH; auto. Qed.

(* L2: the decomposition the library uses (step E in its intended form), as "all checks pass" *)
Inductive fc : sel -> sel -> Prop :=
| fc_i : forall k1 n s1 k2 s2, subsets s1 s2 -> fc (F k1 n s1) (F k2 n s2)
with subsets : list sel -> list sel -> Prop :=
| sub_i : forall s1 s2,
    (forall a b, In a s1 -> In b s2 -> is_field a -> is_field b -> keyof a = keyof b -> fc a b) ->
    (forall g, In (S g) s2 -> FF s1 g) ->
    (forall g, In (S g) s1 -> FF s2 g) ->
    (forall g1 g2, In (S g1) s1 -> In (S g2) s2 -> FrFr g1 g2) ->
    subsets s1 s2
with FF : list sel -> nat -> Prop :=     (* direct fields of [fs] against fragment g, recursively *)
| ff_i : forall fs g,
    (forall a b, In a fs -> In b (body g) -> is_field a -> is_field b -> keyof a = keyof b -> fc a b) ->
    (forall h, In (S h) (body g) -> FF fs h) ->
    FF fs g
with FrFr : nat -> nat -> Prop :=
| frfr_same : forall g, FrFr g g
| frfr_i : forall g1 g2,
    (forall a b, In a (body g1) -> In b (body g2) -> is_field a -> is_field b -> keyof a = keyof b -> fc a b) ->
    (forall h, In (S h) (body g2) -> FrFr g1 h) ->
    (forall h, In (S h) (body g1) -> FrFr h g2) ->
    FrFr g1 g2.

Scheme fc_ind' := Induction for fc Sort Prop
with subsets_ind' := Induction for subsets Sort Prop
with FF_ind' := Induction for FF Sort Prop
with FrFr_ind' := Induction for FrFr Sort Prop.
Combined Scheme L2_mutind from fc_ind', subsets_ind', FF_ind', FrFr_ind'.

Definition within (ss:list sel) :=
  (forall a b, In a ss -> In b ss -> is_field a -> is_field b -> keyof a = keyof b -> fc a b) /\
  (forall g, In (S g) ss -> FF ss g) /\
  (forall g1 g2, In (S g1) ss -> In (S g2) ss -> FrFr g1 g2).

(* ---- acyclicity: every fragment occurring anywhere inside body g has smaller rank ---- *)
Variable rk : nat -> nat.
Inductive Occ : list sel -> nat -> Prop :=
| Occ_here : forall ss g, In (S g) ss -> Occ ss g
| Occ_sub : forall ss k n sub g, In (F k n sub) ss -> Occ sub g -> Occ ss g.
Definition bounded (n:nat) (ss:list sel) := forall g, Occ ss g -> rk g < n.
Hypothesis acyclic : forall g, bounded (rk g) (body g).

Lemma bounded_mono : forall n m ss, n <= m -> bounded n ss -> bounded m ss.
Proof. intros n m ss L B g O. specialize (B g O). lia. Qed.
Lemma bounded_sub : forall n ss k m sub, bounded n ss -> In (F k m sub) ss -> bounded n sub.
Proof. intros n ss k m sub B I g O. apply B. eapply Occ_sub; eauto. Qed.
Lemma bounded_body : forall n g, rk g < n -> bounded n (body g).
Proof. intros n g L. eapply bounded_mono; [|apply acyclic]. lia. Qed.
Lemma bounded_one : forall n ss a, bounded n ss -> In a ss -> bounded n [a].
Proof.
  intros n ss a B I g O. apply B. inversion O as [ss' g' Hin | ss' k m sub g' Hin Hs]; subst.
  - destruct Hin as [E|[]]; subst a. apply Occ_here; auto.
  - destruct Hin as [E|[]]; subst a. eapply Occ_sub; eauto.
Qed.
Lemma InE_bounded : forall n ss x, InE ss x -> bounded n ss -> bounded n [x].
Proof.
  induction 1 as [ss k m sub Hin | ss g x Hin Hx IH]; intros B.
  - eapply bounded_one; eauto.
  - apply IH. apply bounded_body. apply B. apply Occ_here; auto.
Qed.

(* ---- L2 => L1 below rank n, given L1 for all fragment bodies of rank < n ---- *)
Section L2_to_L1.
Variable n : nat.
Hypothesis frag_ok : forall h, rk h < n -> L1 (body h).

Lemma cover :
  (forall a b, fc a b -> bounded n [a] -> bounded n [b] -> compat a b) /\
  (forall s1 s2, subsets s1 s2 -> bounded n s1 -> bounded n s2 ->
      forall a b, InE s1 a -> InE s2 b -> keyof a = keyof b -> compat a b) /\
  (forall fs g, FF fs g -> bounded n fs -> rk g < n ->
      forall a b, In a fs -> is_field a -> InE (body g) b -> keyof a = keyof b -> compat a b) /\
  (forall g1 g2, FrFr g1 g2 -> rk g1 < n -> rk g2 < n ->
      forall a b, InE (body g1) a -> InE (body g2) b -> keyof a = keyof b -> compat a b).
Proof.
  apply L2_mutind.
  - (* fc *) intros k1 m s1 k2 s2 Hs IH B1 B2. constructor. intros a b Ha Hb Hk.
    eapply IH; eauto.
    + eapply bounded_sub; [apply B1|left; reflexivity].
    + eapply bounded_sub; [apply B2|left; reflexivity].
  - (* subsets *) intros s1 s2 Hdd IHdd Hf2 IHf2 Hf1 IHf1 Hff IHff B1 B2 a b Ha Hb Hk.
    destruct Ha as [s1 k m sub Hin1 | s1 g1 a Hin1 Ha1]; destruct Hb as [s2 k' m' sub' Hin2 | s2 g2 b Hin2 Hb2].
    + apply IHdd; simpl; auto; [apply (bounded_one n s1); auto | apply (bounded_one n s2); auto].
    + apply (IHf2 g2 Hin2 B1 (B2 g2 (Occ_here _ _ Hin2)) (F k m sub) b); simpl; auto.
    + apply compat_sym. apply (IHf1 g1 Hin1 B2 (B1 g1 (Occ_here _ _ Hin1)) (F k' m' sub') a); simpl; auto.
    + apply (IHff g1 g2 Hin1 Hin2 (B1 g1 (Occ_here _ _ Hin1)) (B2 g2 (Occ_here _ _ Hin2))); auto.
  - (* FF *) intros fs g Hd IHd Hn IHn Bf Lg a b Ha Hfa Hb Hk.
    remember (body g) as bg eqn:E. revert g E Hd IHd Hn IHn Lg.
    induction Hb as [bg k m sub Hin | bg h b Hin Hb IHb]; intros g E Hd IHd Hn IHn Lg; subst bg.
    + apply IHd; simpl; auto.
      * apply (bounded_one n fs); auto.
      * apply (bounded_one n (body g)); auto. apply bounded_body; auto.
    + assert (Lh: rk h < n). { pose proof (acyclic g h (Occ_here _ _ Hin)). lia. }
      apply (IHn h Hin Bf Lh a b); auto.
  - (* FrFr same *) intros g L1g _ a b Ha Hb Hk. apply (frag_ok g L1g); auto.
  - (* FrFr *) intros g1 g2 Hd IHd H2 IH2 H1 IH1 L1g L2g a b Ha Hb Hk.
    inversion Ha as [ss k m sub Hin1 | ss h1 a' Hin1 Ha1]; subst.
    + inversion Hb as [ss2 k' m' sub' Hin2 | ss2 h2 b' Hin2 Hb2]; subst.
      * apply IHd; simpl; auto;
          [apply (bounded_one n (body g1)); auto; apply bounded_body; auto
          |apply (bounded_one n (body g2)); auto; apply bounded_body; auto].
      * assert (Lh: rk h2 < n). { pose proof (acyclic g2 h2 (Occ_here _ _ Hin2)). lia. }
        apply (IH2 h2 Hin2 L1g Lh); auto.
    + assert (Lh: rk h1 < n). { pose proof (acyclic g1 h1 (Occ_here _ _ Hin1)). lia. }
      apply (IH1 h1 Hin1 Lh L2g); auto.
Qed.

Lemma within_L1 : forall ss, bounded n ss -> within ss -> L1 ss.
Proof.
  intros ss B (Hd & Hf & Hff) a b Ha Hb Hk.
  destruct cover as (Cfc & _ & Cff & Cfrfr).
  destruct Ha as [ss k m sub Hin1 | ss g1 a Hin1 Ha1]; destruct Hb as [ss k' m' sub' Hin2 | ss g2 b Hin2 Hb2].
  - apply Cfc; [apply Hd; simpl; auto | apply (bounded_one n ss); auto | apply (bounded_one n ss); auto].
  - apply (Cff ss g2 (Hf g2 Hin2) B (B g2 (Occ_here _ _ Hin2)) (F k m sub) b); simpl; auto.
  - apply compat_sym. apply (Cff ss g1 (Hf g1 Hin1) B (B g1 (Occ_here _ _ Hin1)) (F k' m' sub') a); simpl; auto.
  - apply (Cfrfr g1 g2 (Hff g1 g2 Hin1 Hin2) (B g1 (Occ_here _ _ Hin1)) (B g2 (Occ_here _ _ Hin2))); auto.
Qed.
End L2_to_L1.

(* ---- closing the induction on rank: if every fragment body passes "within", every one satisfies L1 ---- *)
Theorem fragments_L1 : (forall h, within (body h)) -> forall h, L1 (body h).
Proof.
  intros W h. remember (rk h) as m eqn:E. revert h E.
  induction m as [m IH] using lt_wf_ind. intros h E.
  apply (within_L1 (rk h)).
  - intros g L. apply (IH (rk g)); [lia|reflexivity].
  - apply acyclic.
  - apply W.
Qed.

(* ---- converse: every check the decomposition performs is implied by L1 ---- *)
Lemma FF_build : forall m fs g, rk g < m ->
  (forall a b, In a fs -> is_field a -> InE (body g) b -> keyof a = keyof b -> fc a b) -> FF fs g.
Proof.
  induction m as [|m IH]; intros fs g L H; [lia|].
  constructor.
  - intros a b Ha Hb Fa Fb Hk. apply H; auto. destruct b; [constructor; auto|destruct Fb].
  - intros h Hin. apply IH.
    + pose proof (acyclic g h (Occ_here _ _ Hin)). lia.
    + intros a b Ha Fa Hb Hk. apply H; auto. eapply InE_s; eauto.
Qed.

Lemma FrFr_build : forall m g1 g2, rk g1 + rk g2 < m ->
  (forall a b, InE (body g1) a -> InE (body g2) b -> keyof a = keyof b -> fc a b) -> FrFr g1 g2.
Proof.
  induction m as [|m IH]; intros g1 g2 L H; [lia|].
  apply frfr_i.
  - intros a b Ha Hb Fa Fb Hk. apply H; auto.
    + destruct a; [constructor; auto|destruct Fa].
    + destruct b; [constructor; auto|destruct Fb].
  - intros h Hin. apply IH.
    + pose proof (acyclic g2 h (Occ_here _ _ Hin)). lia.
    + intros a b Ha Hb Hk. apply H; auto. eapply InE_s; eauto.
  - intros h Hin. apply IH.
    + pose proof (acyclic g1 h (Occ_here _ _ Hin)). lia.
    + intros a b Ha Hb Hk. apply H; auto. eapply InE_s; eauto.
Qed.

Lemma subsets_build : forall s1 s2,
  (forall a b, InE s1 a -> InE s2 b -> keyof a = keyof b -> fc a b) ->
  (forall a b, InE s2 a -> InE s1 b -> keyof a = keyof b -> fc a b) ->
  subsets s1 s2.
Proof.
  intros s1 s2 H Hs. constructor.
  - intros a b Ha Hb Fa Fb Hk. apply H; auto.
    + destruct a; [constructor; auto|destruct Fa].
    + destruct b; [constructor; auto|destruct Fb].
  - intros g Hin. apply (FF_build (1 + rk g)); [lia|].
    intros a b Ha Fa Hb Hk. apply H; auto.
    + destruct a; [constructor; auto|destruct Fa].
    + eapply InE_s; eauto.
  - intros g Hin. apply (FF_build (1 + rk g)); [lia|].
    intros a b Ha Fa Hb Hk. apply Hs; auto.
    + destruct a; [constructor; auto|destruct Fa].
    + eapply InE_s; eauto.
  - intros g1 g2 Hin1 Hin2. apply (FrFr_build (1 + (rk g1 + rk g2))); [lia|].
    intros a b Ha Hb Hk. apply H; auto; eapply InE_s; eauto.
Qed.

Lemma compat_fc : forall a b, compat a b -> fc a b /\ fc b a.
Proof.
  induction 1 as [k1 m s1 k2 s2 H IH]. split; constructor; apply subsets_build.
  - intros a b Ha Hb Hk. apply (proj1 (IH a b Ha Hb Hk)).
  - intros a b Ha Hb Hk. apply (proj2 (IH b a Hb Ha (eq_sym Hk))).
  - intros a b Ha Hb Hk. apply (proj2 (IH b a Hb Ha (eq_sym Hk))).
  - intros a b Ha Hb Hk. apply (proj1 (IH a b Ha Hb Hk)).
Qed.

Lemma In_field_InE : forall ss a, In a ss -> is_field a -> InE ss a.
Proof. intros ss [k m sub|g] Hin Hf; [apply InE_d; auto|destruct Hf]. Qed.

Lemma L1_within : forall ss, L1 ss -> within ss.
Proof.
  intros ss H. split; [|split].
  - intros a b Ha Hb Fa Fb Hk. apply compat_fc. apply H; auto using In_field_InE.
  - intros g Hin. apply (FF_build (1 + rk g)); [lia|].
    intros a b Ha Fa Hb Hk. apply compat_fc. apply H; auto using In_field_InE.
    eapply InE_s; eauto.
  - intros g1 g2 Hin1 Hin2. apply (FrFr_build (1 + (rk g1 + rk g2))); [lia|].
    intros a b Ha Hb Hk.
    apply (proj1 (compat_fc a b (H a b (InE_s ss g1 a Hin1 Ha) (InE_s ss g2 b Hin2 Hb) Hk))).
Qed.

(* the document-level equivalence for fragment bodies *)
Theorem decomposition_iff : (forall h, within (body h)) <-> (forall h, L1 (body h)).
Proof. split; [apply fragments_L1 | intros H h; apply L1_within, H]. Qed.

End Doc.
Print Assumptions decomposition_iff.
