(* Design probe, 2026-09-23 (not part of any build): completeness of a recursive-descent model
   written with the parser's helper vocabulary, via one generic lemma for the
   reverse(open, item, close) helper.  Mini grammar  Value := INT | '[' Value* ']'.
   coqc 8.16.1, no axioms. *)
From Coq Require Import List Arith Lia Bool.
Import ListNotations.

Record tok := T { kind : nat; pay : nat }.
Definition K_INT := 0. Definition K_LB := 1. Definition K_RB := 2.
Inductive value := VInt (n:nat) | VList (l:list value).

(* grammar: relational semantics *)
Inductive DValue : list tok -> value -> Prop :=
| DInt : forall n, DValue [T K_INT n] (VInt n)
| DList : forall pres vs, DValues pres vs -> DValue (T K_LB 0 :: concat pres ++ [T K_RB 0]) (VList vs)
with DValues : list (list tok) -> list value -> Prop :=
| DVnil : DValues [] []
| DVcons : forall p v ps vs, DValue p v -> DValues ps vs -> DValues (p::ps) (v::vs).
Scheme DValue_ind' := Induction for DValue Sort Prop
with DValues_ind' := Induction for DValues Sort Prop.
Combined Scheme D_mutind from DValue_ind', DValues_ind'.

(* parser model *)
Definition parser A := list tok -> option (A * list tok).
Fixpoint many {A} (fuel:nat) (item:parser A) (close:nat) (ts:list tok) : option (list A * list tok) :=
  match fuel with
  | 0 => None
  | S f =>
    match ts with
    | [] => None
    | t :: r => if kind t =? close then Some ([], r)
                else match item ts with
                     | None => None
                     | Some (a, r') => match many f item close r' with
                                       | None => None
                                       | Some (l, r'') => Some (a :: l, r'')
                                       end
                     end
    end
  end.
Fixpoint pvalue (fuel:nat) (ts:list tok) : option (value * list tok) :=
  match fuel with
  | 0 => None
  | S f =>
    match ts with
    | [] => None
    | t :: r =>
      if kind t =? K_INT then Some (VInt (pay t), r)
      else if kind t =? K_LB then
        match many f (pvalue f) K_RB r with Some (l, r') => Some (VList l, r') | None => None end
      else None
    end
  end.

(* generic helper lemma: items derive non-empty prefixes not starting with [close]; the item
   parser is complete on them for every continuation *)
Lemma many_complete {A} (item:parser A) (G:list tok -> A -> Prop) close :
  forall pres l, Forall2 G pres l ->
  (forall p a, In p pres -> G p a -> exists t p', p = t :: p' /\ kind t <> close) ->
  (forall p a r, In p pres -> G p a -> item (p ++ r) = Some (a, r)) ->
  forall fuel tc r, kind tc = close -> fuel > length pres ->
  many fuel item close (concat pres ++ tc :: r) = Some (l, r).
Proof.
  intros pres l H. induction H as [|p a ps l' Hpa Hrest IH]; intros Hne Hit fuel tc r Hk Hf.
  - destruct fuel; [simpl in Hf; lia|]. simpl. rewrite Hk, Nat.eqb_refl. reflexivity.
  - destruct fuel; [simpl in Hf; lia|]. simpl in Hf.
    destruct (Hne p a (or_introl eq_refl) Hpa) as (t & p' & -> & Hkt).
    cbn [concat app many].
    destruct (kind t =? close) eqn:E; [apply Nat.eqb_eq in E; contradiction|].
    change (t :: p' ++ concat ps ++ tc :: r) with ((t :: p') ++ (concat ps ++ tc :: r)).
    rewrite <- app_assoc.
    change (t :: (p' ++ concat ps ++ tc :: r)) with ((t :: p') ++ concat ps ++ tc :: r).
    rewrite (Hit (t::p') a (concat ps ++ tc :: r) (or_introl eq_refl) Hpa).
    rewrite (IH (fun q b Hin => Hne q b (or_intror Hin)) (fun q b r0 Hin => Hit q b r0 (or_intror Hin)) fuel tc r Hk ltac:(lia)).
    reflexivity.
Qed.

Lemma DValue_first : forall p v, DValue p v -> exists t p', p = t :: p' /\ (kind t = K_INT \/ kind t = K_LB).
Proof. intros p v H; destruct H; eexists; eexists; split; try reflexivity; simpl; auto. Qed.

Theorem pvalue_complete :
  (forall p v, DValue p v -> forall fuel r, fuel > 2 * length p -> pvalue fuel (p ++ r) = Some (v, r)) /\
  (forall ps vs, DValues ps vs -> forall fuel, fuel > 2 * length (concat ps) ->
       Forall2 (fun p v => forall r, pvalue fuel (p ++ r) = Some (v, r)) ps vs).
Proof.
  apply D_mutind.
  - intros n fuel r Hf. destruct fuel; [simpl in Hf; lia|]. reflexivity.
  - intros pres vs Hd IH fuel r Hf. destruct fuel; [simpl in Hf; lia|].
    cbn [app pvalue kind]. cbn [Nat.eqb K_LB K_INT].
    rewrite <- app_assoc. cbn [app].
    assert (Hlen: length (T K_LB 0 :: concat pres ++ [T K_RB 0]) = S (length (concat pres) + 1)) by (cbn; rewrite app_length; reflexivity).
    rewrite Hlen in Hf.
    specialize (IH fuel ltac:(lia)).
    erewrite (many_complete (pvalue fuel) (fun p v => forall r, pvalue fuel (p ++ r) = Some (v, r)) K_RB pres vs IH).
    + reflexivity.
    + intros p a Hin _.
      clear - Hd Hin. induction Hd as [|p0 v0 ps0 vs0 Hv Hvs IHd]; [contradiction|].
      destruct Hin as [<-|Hin]; [|auto].
      destruct (DValue_first _ _ Hv) as (t & p' & -> & Hk). exists t, p'. split; auto.
      unfold K_RB, K_INT, K_LB in *. lia.
    + intros p a r0 _ Hg. apply Hg.
    + reflexivity.
    + assert (length pres <= length (concat pres)).
      { clear - Hd. induction Hd as [|p0 v0 ps0 vs0 Hv Hvs IHd]; simpl; [lia|].
        destruct (DValue_first _ _ Hv) as (t & p' & -> & _). rewrite app_length. simpl. lia. }
      lia.
  - intros fuel _. constructor.
  - intros p v ps vs Hv IHv Hvs IHvs fuel Hf. cbn [concat] in Hf. rewrite app_length in Hf. constructor.
    + intros r. apply IHv. lia.
    + apply IHvs. lia.
Qed.
Print Assumptions pvalue_complete.
