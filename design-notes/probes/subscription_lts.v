(* Design probe, 2026-09-23 (not part of any build): the subscription forwarder as a labelled
   transition system (source, forwarder, consumer, canceller).  Safety: results are delivered one
   per event in source order.  After cancellation the repaired forwarder (select on the send) is
   never stuck and every library-only run is finite; the unrepaired one has a concrete stuck
   schedule (take, consumer stops, cancel) - the shape of a `_refuted` witness.
   coqc 8.16.1, no axioms. *)
From Coq Require Import List Arith Lia Bool.
Import ListNotations.

Section Sub.
Variable ev res : Type.
Variable exec : ev -> res.                 (* per-event execution, C01's executor *)
Variable fixed : bool.                     (* true: the send also selects on ctx.Done *)

Inductive pc := Recv | Send (v:res) | Done.
Record st := { src : list ev; closed : bool; fwd : pc; out : list res; cancelled : bool; stopped : bool }.

Inductive label := LCancel | LClose | LStop | LTake | LDeliver | LQuitRecv | LQuitSend | LEnd.
Definition lib (l:label) := match l with LTake | LDeliver | LQuitRecv | LQuitSend | LEnd => true | _ => false end.

Inductive step : st -> label -> st -> Prop :=
| s_cancel : forall s, step s LCancel {| src := src s; closed := closed s; fwd := fwd s; out := out s; cancelled := true; stopped := stopped s |}
| s_close  : forall s, step s LClose {| src := src s; closed := true; fwd := fwd s; out := out s; cancelled := cancelled s; stopped := stopped s |}
| s_stop   : forall s, step s LStop {| src := src s; closed := closed s; fwd := fwd s; out := out s; cancelled := cancelled s; stopped := true |}
| s_take   : forall s e r, fwd s = Recv -> src s = e :: r ->
               step s LTake {| src := r; closed := closed s; fwd := Send (exec e); out := out s; cancelled := cancelled s; stopped := stopped s |}
| s_end    : forall s, fwd s = Recv -> src s = [] -> closed s = true ->
               step s LEnd {| src := []; closed := true; fwd := Done; out := out s; cancelled := cancelled s; stopped := stopped s |}
| s_quit_r : forall s, fwd s = Recv -> cancelled s = true ->
               step s LQuitRecv {| src := src s; closed := closed s; fwd := Done; out := out s; cancelled := true; stopped := stopped s |}
| s_deliver: forall s v, fwd s = Send v -> stopped s = false ->
               step s LDeliver {| src := src s; closed := closed s; fwd := Recv; out := out s ++ [v]; cancelled := cancelled s; stopped := false |}
| s_quit_s : forall s v, fixed = true -> fwd s = Send v -> cancelled s = true ->
               step s LQuitSend {| src := src s; closed := closed s; fwd := Done; out := out s; cancelled := true; stopped := stopped s |}.

Definition init (es:list ev) := {| src := es; closed := false; fwd := Recv; out := []; cancelled := false; stopped := false |}.
Inductive reach (es:list ev) : st -> Prop :=
| r0 : reach es (init es)
| rS : forall s l s', reach es s -> step s l s' -> reach es s'.

Definition pending (p:pc) : list res := match p with Send v => [v] | _ => [] end.

(* safety: results are delivered one per event, in source order *)
Theorem delivery_in_order : forall es s, reach es s ->
  exists rest, map exec es = out s ++ pending (fwd s) ++ rest /\ (fwd s <> Done -> rest = map exec (src s)).
Proof.
  intros es s R. induction R as [|s l s' R IH Hs].
  - exists (map exec es). split; [reflexivity|auto].
  - destruct IH as (rest & E & Hr). inversion Hs; subst; cbn [src closed fwd out cancelled stopped pending] in *.
    + exists rest; auto.
    + exists rest; auto.
    + exists rest; auto.
    + rewrite H in E, Hr. cbn [pending app] in E. rewrite (Hr ltac:(discriminate)) in E. rewrite H0 in E. cbn [map] in E.
      exists (map exec r). split; [exact E|auto].
    + rewrite H in E. exists rest. split; [exact E|intros C; congruence].
    + rewrite H in E. exists rest. split; [exact E|intros C; congruence].
    + rewrite H in E, Hr. cbn [pending app] in E. exists rest. split.
      * rewrite <- app_assoc. exact E.
      * intros _. apply Hr. discriminate.
    + rewrite H0 in E. cbn [pending app] in E. exists (v :: rest). split; [exact E|intros C; congruence].
Qed.

(* liveness, as absence of library deadlock after cancellation *)
Definition lib_enabled (s:st) := exists l s', lib l = true /\ step s l s'.

Theorem no_stuck_after_cancel : fixed = true ->
  forall es s, reach es s -> cancelled s = true -> fwd s <> Done -> lib_enabled s.
Proof.
  intros F es s _ C ND. destruct (fwd s) eqn:E.
  - eexists LQuitRecv, _. split; [reflexivity|]. apply s_quit_r; auto.
  - eexists LQuitSend, _. split; [reflexivity|]. eapply s_quit_s; eauto.
  - congruence.
Qed.

(* every library-only run is finite: each library step decreases this measure *)
Definition measure (s:st) : nat := 2 * length (src s) + match fwd s with Recv => 1 | Send _ => 2 | Done => 0 end.
Theorem lib_step_decreases : forall s l s', step s l s' -> lib l = true -> measure s' < measure s.
Proof.
  intros s l s' H L. inversion H; subst; cbn [lib] in L; try discriminate; unfold measure; cbn [src fwd].
  all: repeat match goal with
       | E : fwd _ = _ |- _ => rewrite E; clear E
       | E : src _ = _ |- _ => rewrite E; clear E
       end; simpl; lia.
Qed.
End Sub.

(* the unrepaired forwarder (no select on the send) does get stuck: a concrete schedule *)
Example stuck_without_fix :
  exists s, reach nat nat (fun x => x) false [7] s /\ cancelled _ _ s = true /\ fwd _ _ s <> Done _ /\
            ~ lib_enabled nat nat (fun x => x) false s.
Proof.
  eexists. split; [|split; [|split]].
  - eapply rS; [eapply rS; [eapply rS; [apply r0|]|]|].
    + eapply s_take; reflexivity.
    + apply s_stop.
    + apply s_cancel.
  - reflexivity.
  - cbn. discriminate.
  - intros (l & s' & L & H). inversion H; subst; cbn in *; try discriminate.
Qed.
Print Assumptions no_stuck_after_cancel.
