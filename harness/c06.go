package main

// C06 -- prepared plans and the plan cache are semantically transparent.
//
// A case is a whole history of PlanCache.Get / Reset over a pool of near-miss
// requests, under one cache configuration.  After every Get the returned plan
// is executed (SynthArgs merged into the variables, as plan_cache.go says) and
// its JSON is compared with graphql.Do on the same request; the counters, the
// retained entries (through the `verif` export) and normalizeDocument's effect
// on the caller's document are recorded.  The Coq runner replays the history
// on the model and judges the observations by the Spec.

import (
	"encoding/json"
	"fmt"
	"reflect"
	"sort"
	"strings"

	"github.com/graphql-go/graphql"
	"github.com/graphql-go/graphql/language/ast"
	"github.com/graphql-go/graphql/language/parser"
	"github.com/graphql-go/graphql/language/printer"
	"github.com/graphql-go/graphql/language/source"
)

func init() { props["C06"] = genC06 }

// ---------------------------------------------------------------- schemas

var c06Schemas [3]*graphql.Schema // index 1 and 2: equal shape, different pointer, different resolver stamps

func c06BuildSchema(stamp string) *graphql.Schema {
	color := graphql.NewEnum(graphql.EnumConfig{Name: "Color", Values: graphql.EnumValueConfigMap{
		"RED":   &graphql.EnumValueConfig{Value: 1},
		"GREEN": &graphql.EnumValueConfig{Value: 2},
		"BLUE":  &graphql.EnumValueConfig{Value: "b-internal"},
	}})
	sw := graphql.NewEnum(graphql.EnumConfig{Name: "Switch", Values: graphql.EnumValueConfigMap{
		"ON":  &graphql.EnumValueConfig{Value: "ON"},
		"OFF": &graphql.EnumValueConfig{Value: "OFF"},
	}})
	in := graphql.NewInputObject(graphql.InputObjectConfig{Name: "In", Fields: graphql.InputObjectConfigFieldMap{
		"a": &graphql.InputObjectFieldConfig{Type: graphql.Int, DefaultValue: 7},
		"b": &graphql.InputObjectFieldConfig{Type: graphql.String},
		"c": &graphql.InputObjectFieldConfig{Type: color},
	}})
	node := graphql.NewInterface(graphql.InterfaceConfig{Name: "Node", Fields: graphql.Fields{
		"y": &graphql.Field{Type: graphql.String},
	}})
	obj := graphql.NewObject(graphql.ObjectConfig{Name: "O", Interfaces: []*graphql.Interface{node}, Fields: graphql.Fields{
		"x": &graphql.Field{Type: graphql.Int, Args: graphql.FieldConfigArgument{"n": &graphql.ArgumentConfig{Type: graphql.Int}},
			Resolve: func(p graphql.ResolveParams) (interface{}, error) { return p.Args["n"], nil }},
		"y": &graphql.Field{Type: graphql.String, Resolve: func(p graphql.ResolveParams) (interface{}, error) { return "Y" + stamp, nil }},
	}, IsTypeOf: func(p graphql.IsTypeOfParams) bool { return true }})
	echo := func(name string) graphql.FieldResolveFn {
		return func(p graphql.ResolveParams) (interface{}, error) {
			keys := make([]string, 0, len(p.Args))
			for k := range p.Args {
				keys = append(keys, k)
			}
			sort.Strings(keys)
			var sb strings.Builder
			sb.WriteString(name + stamp)
			for _, k := range keys {
				b, _ := json.Marshal(p.Args[k])
				fmt.Fprintf(&sb, " %s=%s", k, b)
			}
			return sb.String(), nil
		}
	}
	q := graphql.NewObject(graphql.ObjectConfig{Name: "Q", Fields: graphql.Fields{
		"a": &graphql.Field{Type: graphql.String, Resolve: func(p graphql.ResolveParams) (interface{}, error) { return "A" + stamp, nil }},
		"b": &graphql.Field{Type: graphql.String, Resolve: func(p graphql.ResolveParams) (interface{}, error) { return "B" + stamp, nil }},
		"r": &graphql.Field{Type: graphql.String, Resolve: func(p graphql.ResolveParams) (interface{}, error) {
			if m, ok := p.Source.(map[string]interface{}); ok {
				return m["r"], nil
			}
			return nil, nil
		}},
		"f": &graphql.Field{Type: graphql.String, Args: graphql.FieldConfigArgument{"n": &graphql.ArgumentConfig{Type: graphql.Int}}, Resolve: echo("f")},
		"d": &graphql.Field{Type: graphql.String, Args: graphql.FieldConfigArgument{"n": &graphql.ArgumentConfig{Type: graphql.Int, DefaultValue: 5}}, Resolve: echo("d")},
		"g": &graphql.Field{Type: graphql.String, Args: graphql.FieldConfigArgument{
			"p": &graphql.ArgumentConfig{Type: graphql.Int}, "q": &graphql.ArgumentConfig{Type: graphql.Int}}, Resolve: echo("g")},
		"s":     &graphql.Field{Type: graphql.String, Args: graphql.FieldConfigArgument{"t": &graphql.ArgumentConfig{Type: graphql.String}}, Resolve: echo("s")},
		"ratio": &graphql.Field{Type: graphql.String, Args: graphql.FieldConfigArgument{"x": &graphql.ArgumentConfig{Type: graphql.Float}}, Resolve: echo("ratio")},
		"req":   &graphql.Field{Type: graphql.String, Args: graphql.FieldConfigArgument{"n": &graphql.ArgumentConfig{Type: graphql.NewNonNull(graphql.Int)}}, Resolve: echo("req")},
		"li":    &graphql.Field{Type: graphql.String, Args: graphql.FieldConfigArgument{"xs": &graphql.ArgumentConfig{Type: graphql.NewList(graphql.Int)}}, Resolve: echo("li")},
		"e2":    &graphql.Field{Type: graphql.String, Args: graphql.FieldConfigArgument{"c": &graphql.ArgumentConfig{Type: sw}}, Resolve: echo("e2")},
		"b2":    &graphql.Field{Type: graphql.String, Args: graphql.FieldConfigArgument{"v": &graphql.ArgumentConfig{Type: graphql.Boolean}}, Resolve: echo("b2")},
		"i":     &graphql.Field{Type: graphql.String, Args: graphql.FieldConfigArgument{"id": &graphql.ArgumentConfig{Type: graphql.ID}}, Resolve: echo("i")},
		"e": &graphql.Field{Type: color, Args: graphql.FieldConfigArgument{"c": &graphql.ArgumentConfig{Type: color}},
			Resolve: func(p graphql.ResolveParams) (interface{}, error) { return p.Args["c"], nil }},
		"l":   &graphql.Field{Type: graphql.String, Args: graphql.FieldConfigArgument{"xs": &graphql.ArgumentConfig{Type: graphql.NewList(graphql.String)}}, Resolve: echo("l")},
		"o":   &graphql.Field{Type: graphql.String, Args: graphql.FieldConfigArgument{"i": &graphql.ArgumentConfig{Type: in}}, Resolve: echo("o")},
		"sub": &graphql.Field{Type: obj, Resolve: func(p graphql.ResolveParams) (interface{}, error) { return map[string]interface{}{}, nil }},
		"subs": &graphql.Field{Type: graphql.NewList(obj), Resolve: func(p graphql.ResolveParams) (interface{}, error) {
			return []interface{}{map[string]interface{}{}, map[string]interface{}{}}, nil
		}},
		"any": &graphql.Field{Type: node, Resolve: func(p graphql.ResolveParams) (interface{}, error) { return map[string]interface{}{}, nil }},
	}})
	m := graphql.NewObject(graphql.ObjectConfig{Name: "M", Fields: graphql.Fields{
		"set": &graphql.Field{Type: graphql.String, Args: graphql.FieldConfigArgument{"n": &graphql.ArgumentConfig{Type: graphql.Int}}, Resolve: echo("set")},
	}})
	s, err := graphql.NewSchema(graphql.SchemaConfig{Query: q, Mutation: m, Types: []graphql.Type{obj}})
	if err != nil {
		panic(err)
	}
	return &s
}

// ---------------------------------------------------------------- requests

type c06Q struct {
	query string
	op    string
	vars  []map[string]interface{} // variable sets to choose from (nil = no variables)
}

type c06Family struct {
	name string
	qs   []c06Q
}

func c06V(ms ...map[string]interface{}) []map[string]interface{} { return ms }

var c06Families = []c06Family{
	{"literal", []c06Q{{query: `{f(n:1)}`}, {query: `{f(n:2)}`}, {query: `{f(n:1)}`}, {query: `{sub{x(n:1)}}`}, {query: `{sub{x(n:2)}}`}}},
	{"directive", []c06Q{{query: `{a @skip(if:true) b}`}, {query: `{a b}`}, {query: `{a @include(if:true) b}`}, {query: `{a @skip(if:false) b}`},
		{query: `{a @include(if:false) b}`}}},
	{"dirarg", []c06Q{{query: `{f(n:1) @skip(if:true) b}`}, {query: `{f(n:1) @skip(if:false) b}`}, {query: `{f(n:2) @skip(if:false) b}`},
		{query: `query($s:Boolean=true){a @skip(if:$s) b}`, vars: c06V(nil, map[string]interface{}{"s": false})},
		{query: `query($s:Boolean=false){a @skip(if:$s) b}`, vars: c06V(nil, map[string]interface{}{"s": true})}}},
	{"default", []c06Q{{query: `query($x:Int=1){f(n:$x)}`, vars: c06V(nil, map[string]interface{}{"x": 9})},
		{query: `query($x:Int=2){f(n:$x)}`, vars: c06V(nil, map[string]interface{}{"x": 9})},
		{query: `query($x:Int){f(n:$x)}`, vars: c06V(nil, map[string]interface{}{"x": 1}, map[string]interface{}{"x": 2})},
		{query: `{d}`}, {query: `{d(n:5)}`}, {query: `{d(n:6)}`}}},
	{"alias", []c06Q{{query: `{x:a}`}, {query: `{y:a}`}, {query: `{a}`}, {query: `{x:f(n:1)}`}, {query: `{y:f(n:1)}`}}},
	{"argorder", []c06Q{{query: `{g(p:1,q:2)}`}, {query: `{g(q:2,p:1)}`}, {query: `{g(p:2,q:1)}`}, {query: `{g(q:1,p:2)}`},
		{query: `{o(i:{a:1,b:"z"})}`}, {query: `{o(i:{b:"z",a:1})}`}}},
	{"encoding", []c06Q{{query: `{l(xs:["a,sb"])}`}, {query: `{l(xs:["a","b"])}`}, {query: `{l(xs:["a\",\"b"])}`},
		{query: `query($v:String){l(xs:["a,sb",$v])}`, vars: c06V(nil, map[string]interface{}{"v": "w"})},
		{query: `query($v:String){l(xs:["a","b",$v])}`, vars: c06V(nil, map[string]interface{}{"v": "w"})},
		{query: `query($v:String){l(xs:["a","sb",$v])}`, vars: c06V(nil, map[string]interface{}{"v": "w"})}}},
	{"opname", []c06Q{{query: `query A{a} query B{b}`, op: "A"}, {query: `query A{a} query B{b}`, op: "B"}, {query: `query A{a} query B{b}`, op: ""},
		{query: `query A{a} query B{b}`, op: "C"}, {query: `query A1{a} query A{b}`, op: "A1"}, {query: `query A1{a} query A{b}`, op: "A"}}},
	{"opname-nul", []c06Q{{query: "B\x00{a}", op: "A"}, {query: `{a}`, op: "A\x00B"}, {query: `{a}`, op: "A"}, {query: `{a}`, op: ""},
		{query: "\x00{a}", op: ""}, {query: "{a}", op: "\x00"}}},
	{"opname-prefix", []c06Q{{query: `1:a{a}`, op: ""}, {query: `a{a}`, op: "1:"}, {query: `{a}`, op: "1:a"}, {query: `:a{a}`, op: "1"},
		{query: `0:{a}`, op: ""}, {query: `{a}`, op: "0:"}, {query: `query a{a}`, op: "a"}, {query: `1:aquery a{a}`, op: ""}}},
	{"repeat", []c06Q{{query: `{f(n:1) f(n:1)}`}, {query: `{f(n:7) f(n:7)}`}, {query: `{f(n:1) f(n:2)}`}, {query: `{f(n:1)}`},
		{query: `{x:f(n:1) y:f(n:1)}`}, {query: `{x:f(n:1) y:f(n:2)}`}}},
	{"enum", []c06Q{{query: `{e(c:RED)}`}, {query: `{e(c:GREEN)}`}, {query: `{e(c:BLUE)}`}, {query: `{o(i:{c:RED})}`}, {query: `{o(i:{c:BLUE})}`},
		{query: `query($c:Color=RED){e(c:$c)}`, vars: c06V(nil, map[string]interface{}{"c": "GREEN"})}}},
	{"wholedoc", []c06Q{{query: `{a}`}, {query: `{a} fragment F on Q {b}`}, {query: `query A{a}`, op: "A"}, {query: `query A{a} query B{zzz}`, op: "A"},
		{query: `query A{f(n:1)}`, op: "A"}, {query: `query A{f(n:2)} query B{f(n:"x")}`, op: "A"}}},
	{"fragment", []c06Q{{query: `{...F} fragment F on Q {a}`}, {query: `{...F} fragment F on Q {b}`}, {query: `{...F} fragment F on Q {f(n:1)}`},
		{query: `{...F} fragment F on Q {f(n:2)}`}, {query: `{...F f(n:3)} fragment F on Q {f(n:3)}`}, {query: `{... on Q{f(n:1)}}`}, {query: `{... on Q{f(n:2)}}`}}},
	// a named fragment spread only from inside inline fragments (typed, untyped, nested, below a field, through another
	// fragment), with the same response key and literal in the operation and in the fragment
	{"fragment-nested", []c06Q{{query: `{... on Q{...F} f(n:3)} fragment F on Q {f(n:3)}`}, {query: `{... on Q{...F f(n:4)}} fragment F on Q {f(n:4)}`},
		{query: `{... {...F} f(n:5)} fragment F on Q {f(n:5)}`}, {query: `{sub{... on O{...G} x(n:1)}} fragment G on O {x(n:1)}`},
		{query: `{... on Q{... on Q{...F}} f(n:6)} fragment F on Q {f(n:6)}`}, {query: `{...A f(n:7)} fragment A on Q {... on Q {...B}} fragment B on Q {f(n:7)}`},
		{query: `{... on Q{...F} f(n:8)} fragment F on Q {f(n:9)}`}}},
	{"invalid", []c06Q{{query: `{a`}, {query: `{zzz}`}, {query: `{a}}`}, {query: `query A{a}`, op: "B"}, {query: `{f(n:"x")}`}, {query: `{f(n:3000000000)}`},
		{query: `subscription{a}`}, {query: `{sub}`}}},
	{"inputdefault", []c06Q{{query: `{o(i:{b:"z"})}`}, {query: `{o(i:{a:7,b:"z"})}`}, {query: `{o(i:{a:8,b:"z"})}`}, {query: `{o(i:{})}`}, {query: `{o(i:null)}`}, {query: `{o}`}}},
	{"null", []c06Q{{query: `{f(n:null)}`}, {query: `{f}`}, {query: `{f(n:0)}`}, {query: `{s(t:"")}`}, {query: `{s(t:null)}`}, {query: `{s}`}}},
	{"string", []c06Q{{query: `{s(t:"a\nb")}`}, {query: "{s(t:\"\"\"a\nb\"\"\")}"}, {query: `{s(t:"a b")}`}, {query: `{s(t:"a\u0000b")}`}, {query: `{s(t:"a\",t:\"b")}`},
		{query: `{i(id:1)}`}, {query: `{i(id:"1")}`}, {query: `{i(id:"01")}`}}},
	{"abstract", []c06Q{{query: `{any{... on O{x(n:1)}}}`}, {query: `{any{... on O{x(n:2)}}}`}, {query: `{any{y}}`}, {query: `{subs{x(n:1)}}`}, {query: `{subs{x(n:2)}}`}}},
	{"mutation", []c06Q{{query: `mutation{set(n:1)}`}, {query: `mutation{set(n:2)}`}, {query: `mutation{a:set(n:1) b:set(n:1)}`}, {query: `mutation{a:set(n:1) b:set(n:2)}`}}},
	// the same literal text at argument positions of different input types within one operation
	{"samelit", []c06Q{{query: `{f(n:1) ratio(x:1)}`}, {query: `{ratio(x:1) f(n:1)}`}, {query: `{s(t:"7") i(id:"7")}`}, {query: `{i(id:"7") s(t:"7")}`},
		{query: `{i(id:1) f(n:1)}`}, {query: `{f(n:1) req(n:1)}`}, {query: `{req(n:1) f(n:1)}`}, {query: `{l(xs:"a") s(t:"a")}`}, {query: `{s(t:"a") l(xs:"a")}`},
		{query: `{li(xs:1) f(n:1)}`}, {query: `{li(xs:[1]) l(xs:[1])}`}, {query: `{e2(c:ON) s(t:"ON")}`}, {query: `{f(n:1) sub{x(n:1)} g(p:1,q:1)}`},
		{query: `{f(n:2) ratio(x:2) i(id:2) li(xs:2) req(n:2)}`}, {query: `{o(i:{a:1}) f(n:1) ratio(x:1)}`}, {query: `{ratio(x:1.0) f(n:1)}`}}},
	// literals that are not valid for their position
	{"illtyped", []c06Q{{query: `{li(xs:["a"])}`}, {query: `{li(xs:[1,"a"])}`}, {query: `{l(xs:[1])}`}, {query: `{o(i:{a:"x"})}`}, {query: `{li(xs:[1])}`},
		{query: `{b2(v:1)}`}, {query: `{b2(v:true)}`}, {query: `{e2(c:"ON")}`}, {query: `{e2(c:ON)}`}, {query: `{req(n:null)}`}, {query: `{ratio(x:"1")}`}}},
	{"variable", []c06Q{{query: `query($v:Int){f(n:$v)}`, vars: c06V(nil, map[string]interface{}{"v": 1}, map[string]interface{}{"v": 2})},
		{query: `query($v:Int!){f(n:$v)}`, vars: c06V(nil, map[string]interface{}{"v": 1}, map[string]interface{}{"v": "bad"})},
		{query: `query($v:Int){f(n:$v) g(p:1)}`, vars: c06V(nil, map[string]interface{}{"v": 1})},
		{query: `query($__pcv0:Int){f(n:$__pcv0) g(p:1)}`, vars: c06V(nil, map[string]interface{}{"__pcv0": 4})}}},
	// one response key selected three times on a level, the later occurrences behind variable-driven directives:
	// a cached / prepared plan is reused under every assignment
	{"dynmerge", []c06Q{
		{query: `query($x:Boolean!,$y:Boolean!){sub{x(n:1)} sub @include(if:$x){p:x(n:2)} sub @include(if:$y){q:x(n:3)}}`, vars: c06BoolPairs()},
		{query: `query($x:Boolean!,$y:Boolean!){sub{x(n:1)} sub @skip(if:$x){p:x(n:2)} sub @skip(if:$y){q:x(n:3)} a @include(if:$x)}`, vars: c06BoolPairs()},
		{query: `query($x:Boolean!,$y:Boolean!){s:sub{x(n:1)} s:sub @include(if:$x){p:x(n:1)} s:sub @include(if:$y){q:x(n:1)}}`, vars: c06BoolPairs()}}},
}

func c06BoolPairs() []map[string]interface{} {
	return c06V(map[string]interface{}{"x": true, "y": false}, map[string]interface{}{"x": false, "y": true},
		map[string]interface{}{"x": true, "y": true}, map[string]interface{}{"x": false, "y": false})
}

// ---------------------------------------------------------------- one history

type c06Cfg struct {
	nilCache bool
	maxE     int
	maxQ     int
	norm     bool
}

type c06Req struct {
	schema int
	q      c06Q
	family string
}

type c06Op struct {
	reset bool
	idx   int
	vars  map[string]interface{}
}

type c06Intern struct{ m map[string]int }

func (t *c06Intern) id(s string) int {
	if t.m == nil {
		t.m = map[string]int{}
	}
	if v, ok := t.m[s]; ok {
		return v
	}
	v := len(t.m) + 1
	t.m[s] = v
	return v
}

func c06JSON(v interface{}) string {
	b, err := json.Marshal(v)
	if err != nil {
		return "marshal-error:" + err.Error()
	}
	return string(b)
}

func c06Parse(q string) (*ast.Document, error) {
	return parser.Parse(parser.ParseParams{Source: source.NewSource(&source.Source{Body: []byte(q), Name: "GraphQL request"})})
}

// canonical text of a (normalised) document: its definitions, printed, NUL-separated
func c06DocText(doc *ast.Document) string {
	var parts []string
	for _, d := range doc.Definitions {
		parts = append(parts, fmt.Sprint(printer.Print(d)))
	}
	return strings.Join(parts, "\x00")
}

func c06Merge(a, b map[string]interface{}) map[string]interface{} {
	if len(a) == 0 && len(b) == 0 {
		return nil
	}
	out := map[string]interface{}{}
	for k, v := range a {
		out[k] = v
	}
	for k, v := range b {
		out[k] = v
	}
	return out
}

// what parse + normalizeDocument do with a request, observed on its own
type c06Norm struct {
	class    string // "parse" | "normerr" | "norm" | "raw"
	text     string
	synth    string // JSON of the extracted literals
	docSame  bool
	normDoc  *ast.Document
	synthMap map[string]interface{}
}

func c06Normalize(schema *graphql.Schema, q c06Q) c06Norm {
	doc, err := c06Parse(q.query)
	if err != nil {
		return c06Norm{class: "parse", docSame: true, synth: "null"}
	}
	twin, _ := c06Parse(q.query)
	before := fmt.Sprint(printer.Print(doc))
	nd, synth, key, nerr := graphql.VerifNormalizeDocument(schema, doc, q.op)
	after := fmt.Sprint(printer.Print(doc))
	same := before == after && reflect.DeepEqual(doc.Definitions, twin.Definitions)
	if nerr != nil {
		return c06Norm{class: "normerr", docSame: same, synth: "null"}
	}
	var sm map[string]interface{}
	if len(synth) > 0 {
		sm = synth
	}
	if key == "" {
		return c06Norm{class: "raw", docSame: same, synth: c06JSON(sm), normDoc: nd, synthMap: sm}
	}
	return c06Norm{class: "norm", text: c06DocText(nd), docSame: same, synth: c06JSON(sm), normDoc: nd, synthMap: sm}
}

func c06Present(c *graphql.PlanCache, keys *c06Intern) (string, int) {
	ents, mapLen := graphql.VerifPlanCacheEntries(c)
	var xs []string
	for _, en := range ents {
		sid := 3
		for i := 1; i <= 2; i++ {
			if en.Schema == c06Schemas[i] {
				sid = i
			}
		}
		xs = append(xs, fmt.Sprintf("(%d, %d)", keys.id(en.Key), sid))
	}
	n := len(ents)
	if mapLen > n {
		n = mapLen
	}
	return coqList(xs), n
}

func c06Exec(schema *graphql.Schema, pr graphql.PlanResult, vars map[string]interface{}, root map[string]interface{}) string {
	if len(pr.Errors) > 0 || pr.Plan == nil {
		return c06JSON(&graphql.Result{Errors: pr.Errors})
	}
	res := graphql.ExecutePlan(pr.Plan, graphql.ExecuteParams{Schema: *schema, Root: root, Args: c06Merge(vars, pr.SynthArgs)})
	return c06JSON(res)
}

func c06Do(schema *graphql.Schema, q c06Q, vars map[string]interface{}, root map[string]interface{}) string {
	return c06JSON(graphql.Do(graphql.Params{Schema: *schema, RequestString: q.query, OperationName: q.op, VariableValues: vars, RootObject: root}))
}

func c06Short(s string) string {
	if len(s) > 200 {
		return s[:200] + fmt.Sprintf("...(%d bytes)", len(s))
	}
	return s
}

func c06RunHistory(cfg c06Cfg, pool []c06Req, ops []c06Op, tags []string) Case {
	cs := Case{Group: "history"}
	defE, defQ := graphql.VerifPlanCacheDefaults()
	opts := graphql.PlanCacheOptions{MaxEntries: cfg.maxE, MaxQueryBytes: cfg.maxQ, Normalize: cfg.norm}
	keys := &c06Intern{}
	resps := &c06Intern{}
	synths := &c06Intern{}
	effMax := cfg.maxE
	if effMax <= 0 {
		effMax = defE
	}
	effQ := cfg.maxQ
	if effQ <= 0 {
		effQ = defQ
	}

	// the pool, each request observed on its own
	norms := make([]c06Norm, len(pool))
	var poolCoq []string
	var poolDesc []string
	for i, rq := range pool {
		schema := c06Schemas[rq.schema]
		var nm c06Norm
		ikey := "None"
		if pm := guard(func() {
			if cfg.norm {
				nm = c06Normalize(schema, rq.q)
			} else {
				nm = c06Norm{class: "raw", docSame: true, synth: "null"}
			}
			if !cfg.nilCache {
				probe := graphql.NewPlanCache(opts)
				probe.Get(schema, rq.q.query, rq.q.op)
				ents, _ := graphql.VerifPlanCacheEntries(probe)
				if len(ents) == 1 {
					ikey = fmt.Sprintf("(Some %d)", keys.id(ents[0].Key))
				} else if len(ents) > 1 {
					ikey = "(Some 0)"
				}
			}
		}); pm != "" {
			cs.Fail = fmt.Sprintf("normalizeDocument / probe Get on %q op %q: %s", rq.q.query, rq.q.op, pm)
			cs.Desc = map[string]interface{}{"query": rq.q.query, "op": rq.q.op}
			return cs
		}
		norms[i] = nm
		cls := "KRaw"
		switch nm.class {
		case "parse":
			cls = "KParseErr"
		case "normerr":
			cls = "KNormErr"
		case "norm":
			cls = "(KNorm " + coqHex([]byte(nm.text)) + ")"
		}
		poolCoq = append(poolCoq, fmt.Sprintf("Rq %d %s %s %s %s", rq.schema, coqHex([]byte(rq.q.op)), coqHex([]byte(rq.q.query)), cls, ikey))
		poolDesc = append(poolDesc, fmt.Sprintf("#%d schema%d op=%q %s", i, rq.schema, rq.q.op, c06Short(rq.q.query)))
	}

	var cache *graphql.PlanCache
	if !cfg.nilCache {
		cache = graphql.NewPlanCache(opts)
	}
	var opsCoq []string
	var opsDesc []string
	hits, evictions, resets, oversize := 0, 0, 0, 0
	seen := map[string]bool{}
	prevCount := 0
	root := map[string]interface{}{"r": "root"}
	for _, o := range ops {
		if o.reset {
			var present string
			var count int
			if pm := guard(func() { cache.Reset(); present, count = c06Present(cache, keys) }); pm != "" {
				cs.Fail = "Reset: " + pm
				break
			}
			resets++
			prevCount = count
			opsCoq = append(opsCoq, fmt.Sprintf("ResetOp %d %s", count, present))
			opsDesc = append(opsDesc, "Reset")
			continue
		}
		rq := pool[o.idx]
		schema := c06Schemas[rq.schema]
		seen[rq.family] = true
		var pr graphql.PlanResult
		var via, fresh, present string
		var count int
		var h0, m0, h1, m1 uint64
		if pm := guard(func() {
			h0, m0 = cache.HitsMisses()
			pr = cache.Get(schema, rq.q.query, rq.q.op)
			h1, m1 = cache.HitsMisses()
			present, count = c06Present(cache, keys)
			via = c06Exec(schema, pr, o.vars, root)
			fresh = c06Do(schema, rq.q, o.vars, root)
		}); pm != "" {
			cs.Fail = fmt.Sprintf("Get/ExecutePlan/Do on %q op %q vars %v: %s", rq.q.query, rq.q.op, o.vars, pm)
			break
		}
		hit := 3
		switch {
		case h1 == h0 && m1 == m0:
			hit = 0
		case h1 == h0+1 && m1 == m0:
			hit = 1
			hits++
		case h1 == h0 && m1 == m0+1:
			hit = 2
			if count <= prevCount && prevCount >= effMax {
				evictions++
			}
		}
		if len(rq.q.query) > effQ {
			oversize++
		}
		prevCount = count
		own := "null"
		if cfg.norm && !cfg.nilCache && len(rq.q.query) <= effQ {
			own = norms[o.idx].synth
		}
		got := own
		if pr.Plan != nil && len(pr.Errors) == 0 {
			var sm map[string]interface{}
			if len(pr.SynthArgs) > 0 {
				sm = pr.SynthArgs
			}
			got = c06JSON(sm)
		}
		opsCoq = append(opsCoq, fmt.Sprintf("GetOp %d %d %d %s %d %d %d %d %s", o.idx, hit, count, present,
			resps.id(via), resps.id(fresh), synths.id(got), synths.id(own), coqBool(norms[o.idx].docSame)))
		d := fmt.Sprintf("Get #%d vars=%s -> %s count=%d", o.idx, c06JSON(o.vars), []string{"bypass", "hit", "miss", "?"}[hit], count)
		if via != fresh {
			d += " RESPONSE " + c06Short(via) + " FROM-SCRATCH " + c06Short(fresh)
		}
		if got != own {
			d += " SYNTHARGS " + got + " OWN " + own
		}
		if !norms[o.idx].docSame {
			d += " CALLER-DOCUMENT-MODIFIED"
		}
		opsDesc = append(opsDesc, d)
	}
	cs.Coq = fmt.Sprintf("HistCase %s %s %s %s %d %d %s %s", coqBool(cfg.nilCache), coqZ(cfg.maxE), coqZ(cfg.maxQ), coqBool(cfg.norm),
		defE, defQ, coqList(poolCoq), coqList(opsCoq))
	if cs.Fail != "" {
		cs.Coq = ""
	}
	cs.Desc = map[string]interface{}{
		"config": fmt.Sprintf("nil=%v MaxEntries=%d MaxQueryBytes=%d Normalize=%v", cfg.nilCache, cfg.maxE, cfg.maxQ, cfg.norm),
		"pool":   poolDesc, "ops": opsDesc,
	}
	nearMiss := false
	fams := map[string]int{}
	for _, o := range ops {
		if !o.reset {
			fams[pool[o.idx].family+fmt.Sprint(pool[o.idx].schema)] |= 1 << uint(o.idx%60)
		}
	}
	for _, m := range fams {
		if m&(m-1) != 0 {
			nearMiss = true
		}
	}
	cs.NT = nearMiss && hits > 0 && (evictions > 0 || resets > 0)
	if cfg.norm {
		tags = append(tags, "normalize")
	} else {
		tags = append(tags, "plain")
	}
	if cfg.nilCache {
		tags = append(tags, "nil-cache")
	}
	tags = append(tags, fmt.Sprintf("max-entries:%d", cfg.maxE))
	if cfg.maxQ != 0 {
		tags = append(tags, "max-query-bytes-set")
	}
	if oversize > 0 {
		tags = append(tags, "oversize")
	}
	if hits > 0 {
		tags = append(tags, "hit")
	}
	if evictions > 0 {
		tags = append(tags, "eviction")
	}
	if resets > 0 {
		tags = append(tags, "reset")
	}
	var fs []string
	for f := range seen {
		fs = append(fs, "family:"+f)
	}
	sort.Strings(fs)
	cs.Tags = append(tags, fs...)
	return cs
}

// ---------------------------------------------------------------- prepared plans

func c06Prepared(q c06Q, schemaIdx int, runs []map[string]interface{}, roots []map[string]interface{}) Case {
	cs := Case{Group: "prepared", Tags: []string{"prepared"}}
	schema := c06Schemas[schemaIdx]
	resps := &c06Intern{}
	var pairs []string
	var desc []string
	if pm := guard(func() {
		doc, err := c06Parse(q.query)
		var pr graphql.PlanResult
		if err != nil {
			return
		}
		if vr := graphql.ValidateDocument(schema, doc, nil); !vr.IsValid {
			pr = graphql.PlanResult{Errors: vr.Errors}
		} else {
			plan, perr := graphql.PlanQuery(schema, doc, q.op)
			if perr != nil {
				return
			}
			pr = graphql.PlanResult{Plan: plan}
		}
		for i, vars := range runs {
			root := roots[i%len(roots)]
			via := c06Exec(schema, pr, vars, root)
			fresh := c06Do(schema, q, vars, root)
			pairs = append(pairs, fmt.Sprintf("(%d, %d)", resps.id(via), resps.id(fresh)))
			d := fmt.Sprintf("vars=%s root=%s", c06JSON(vars), c06JSON(root))
			if via != fresh {
				d += " PREPARED " + c06Short(via) + " FROM-SCRATCH " + c06Short(fresh)
			}
			desc = append(desc, d)
		}
	}); pm != "" {
		cs.Fail = "PlanQuery/ExecutePlan/Do: " + pm
	}
	cs.Desc = map[string]interface{}{"query": q.query, "op": q.op, "schema": schemaIdx, "runs": desc}
	if cs.Fail == "" {
		cs.Coq = "PrepCase " + coqList(pairs)
	}
	cs.NT = len(pairs) > 1
	return cs
}

// ---------------------------------------------------------------- normalizeDocument on its own

func c06NormCase(q c06Q, schemaIdx int, vars map[string]interface{}, fam string) Case {
	cs := Case{Group: "normalize", Tags: []string{"normalize-direct", "family:" + fam}}
	schema := c06Schemas[schemaIdx]
	var nm c06Norm
	var via, fresh string
	if pm := guard(func() {
		nm = c06Normalize(schema, q)
		fresh = c06Do(schema, q, vars, nil)
		via = fresh
		if nm.normDoc != nil {
			if vr := graphql.ValidateDocument(schema, nm.normDoc, nil); !vr.IsValid {
				via = c06JSON(&graphql.Result{Errors: vr.Errors})
			} else {
				via = c06JSON(graphql.Execute(graphql.ExecuteParams{Schema: *schema, AST: nm.normDoc, OperationName: q.op, Args: c06Merge(vars, nm.synthMap)}))
			}
		}
	}); pm != "" {
		cs.Fail = "normalizeDocument/Execute: " + pm
	}
	d := map[string]interface{}{"query": q.query, "op": q.op, "vars": c06JSON(vars), "class": nm.class, "synth": nm.synth}
	if via != fresh {
		d["normalised"] = c06Short(via)
		d["from_scratch"] = c06Short(fresh)
	}
	if !nm.docSame {
		d["caller_document"] = "modified"
	}
	cs.Desc = d
	if cs.Fail == "" {
		a, b := 1, 1
		if via != fresh {
			b = 2
		}
		cs.Coq = fmt.Sprintf("NormCase %s %d %d", coqBool(nm.docSame), a, b)
	}
	cs.NT = nm.synth != "null"
	return cs
}

// ---------------------------------------------------------------- generator

func c06Fam(name string) c06Family {
	for _, f := range c06Families {
		if f.name == name {
			return f
		}
	}
	panic("no family " + name)
}

// a fixed history: all requests of the named families under schema 1 (and 2 when both), visited in the given order
func c06Corpus(cfg c06Cfg, fams []string, both bool, order []int, tag string) Case {
	var pool []c06Req
	for _, fn := range fams {
		for _, q := range c06Fam(fn).qs {
			pool = append(pool, c06Req{schema: 1, q: q, family: fn})
			if both {
				pool = append(pool, c06Req{schema: 2, q: q, family: fn})
			}
		}
	}
	var ops []c06Op
	for _, ix := range order {
		if ix < 0 {
			ops = append(ops, c06Op{reset: true})
			continue
		}
		ix = ix % len(pool)
		var vars map[string]interface{}
		if vs := pool[ix].q.vars; len(vs) > 0 {
			vars = vs[len(ops)%len(vs)]
		}
		ops = append(ops, c06Op{idx: ix, vars: vars})
	}
	return c06RunHistory(cfg, pool, ops, []string{"corpus", tag})
}

func genC06(tier string, seed uint64, n int, e *Emitter) {
	c06Schemas[1] = c06BuildSchema("1")
	c06Schemas[2] = c06BuildSchema("2")
	if n == 0 {
		n = 300
		if tier == "thorough" {
			n = 5000
		}
	}
	// (0) corpus: every family walked twice in order (second round hits what the first stored), plain and normalising
	seq := func(k, rounds int) []int {
		var o []int
		for r := 0; r < rounds; r++ {
			for i := 0; i < k; i++ {
				o = append(o, i)
			}
		}
		return o
	}
	for _, f := range c06Families {
		for _, norm := range []bool{false, true} {
			e.Emit(c06Corpus(c06Cfg{norm: norm}, []string{f.name}, false, seq(len(f.qs), 2), "family-walk"))
		}
	}
	// evictions with MaxEntries 1, 2, 3 over more distinct requests than fit; then Reset; schema switches
	for _, m := range []int{1, 2, 3} {
		for _, norm := range []bool{false, true} {
			e.Emit(c06Corpus(c06Cfg{maxE: m, norm: norm}, []string{"alias"}, false, []int{0, 1, 2, 3, 4, 0, 0, 1, 4, 4, 3, -1, 3, 3, 2, 1, 0, 0}, "evict"))
			e.Emit(c06Corpus(c06Cfg{maxE: m, norm: norm}, []string{"directive"}, true, []int{0, 1, 0, 1, 2, 3, 2, 0, 1, 4, 5, 4, 0, -1, 1, 0, 1}, "schema-switch"))
		}
	}
	// nil cache, MaxQueryBytes, an over-size query under the default limit
	e.Emit(c06Corpus(c06Cfg{nilCache: true, norm: true}, []string{"literal", "enum"}, false, []int{0, 1, 0, -1, 5, 5, 6}, "nil"))
	e.Emit(c06Corpus(c06Cfg{maxQ: 12, norm: false}, []string{"directive", "alias"}, false, seq(10, 2), "max-query-bytes"))
	e.Emit(c06Corpus(c06Cfg{maxQ: 12, norm: true}, []string{"directive", "alias"}, false, seq(10, 2), "max-query-bytes"))
	{
		_, defQ := graphql.VerifPlanCacheDefaults()
		big := "{a" + strings.Repeat(" ", defQ) + "}"
		edge := "{a" + strings.Repeat(" ", defQ-3) + "}"
		pool := []c06Req{{schema: 1, q: c06Q{query: big}, family: "big"}, {schema: 1, q: c06Q{query: edge}, family: "big"}, {schema: 1, q: c06Q{query: "{a}"}, family: "big"}}
		ops := []c06Op{{idx: 0}, {idx: 0}, {idx: 1}, {idx: 1}, {idx: 2}, {idx: 2}, {idx: 0}}
		e.Emit(c06RunHistory(c06Cfg{}, pool, ops, []string{"corpus", "over-default-size"}))
	}
	// prepared plans: one plan, many executions
	for _, f := range c06Families {
		for _, q := range f.qs {
			if len(q.vars) == 0 {
				continue
			}
			runs := append(append([]map[string]interface{}{}, q.vars...), q.vars...)
			e.Emit(c06Prepared(q, 1, runs, []map[string]interface{}{{"r": "r1"}, {"r": "r2"}, nil}))
		}
	}
	e.Emit(c06Prepared(c06Q{query: `query($v:Int){r f(n:$v) sub{x(n:$v)} any{...on O{x(n:$v)}}}`}, 2,
		[]map[string]interface{}{{"v": 1}, {"v": 2}, nil, {"v": 1}, {"v": 3}}, []map[string]interface{}{{"r": "r1"}, {"r": "r2"}, nil}))
	// normalizeDocument directly on every pool query
	for _, f := range c06Families {
		for _, q := range f.qs {
			var vars map[string]interface{}
			if len(q.vars) > 1 {
				vars = q.vars[1]
			}
			e.Emit(c06NormCase(q, 1, vars, f.name))
		}
	}

	// (1) generated histories
	maxes := []int{1, 1, 2, 2, 3, 3, 0, 4, -1}
	for i := 0; i < n; i++ {
		r := NewRng(seed^0xC06, uint64(i))
		cfg := c06Cfg{norm: r.Bool(), maxE: maxes[r.Intn(len(maxes))]}
		if r.Chance(4) {
			cfg.nilCache = true
		}
		if r.Chance(12) {
			cfg.maxQ = 8 + r.Intn(30)
		}
		// pool: 2-4 families, 6-12 requests; a third of the histories use both schemas
		both := r.Chance(35)
		var pool []c06Req
		nf := 2 + r.Intn(3)
		for k := 0; k < nf && len(pool) < 12; k++ {
			f := c06Families[r.Intn(len(c06Families))]
			take := 2 + r.Intn(3)
			start := r.Intn(len(f.qs))
			for j := 0; j < take && j < len(f.qs) && len(pool) < 12; j++ {
				q := f.qs[(start+j)%len(f.qs)]
				pool = append(pool, c06Req{schema: 1, q: q, family: f.name})
				if both && r.Chance(60) && len(pool) < 12 {
					pool = append(pool, c06Req{schema: 2, q: q, family: f.name})
				}
			}
		}
		nops := 5 + r.Intn(36)
		var ops []c06Op
		last := r.Intn(len(pool))
		for k := 0; k < nops; k++ {
			if r.Chance(6) {
				ops = append(ops, c06Op{reset: true})
				continue
			}
			ix := last
			switch c := r.Intn(10); {
			case c < 3: // again
			case c < 6: // a neighbour (near-miss of the last one)
				if r.Bool() {
					ix = (last + 1) % len(pool)
				} else {
					ix = (last + len(pool) - 1) % len(pool)
				}
			default:
				ix = r.Intn(len(pool))
			}
			last = ix
			var vars map[string]interface{}
			if vs := pool[ix].q.vars; len(vs) > 0 {
				vars = vs[r.Intn(len(vs))]
			}
			ops = append(ops, c06Op{idx: ix, vars: vars})
		}
		e.Emit(c06RunHistory(cfg, pool, ops, nil))
	}
}
