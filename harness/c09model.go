package main

// C09: inputs in the modelled fragment.  Generated schemas and documents (the
// generators of the execution family), run with recording resolvers; the Coq
// runner compares the model's verdict with the implementation's and judges the
// result shape.  "cycle" jobs inject fragment cycles (on one level and through
// fields) into generated documents and hand them, unvalidated, to PlanQuery /
// Execute; the model of the cycle check and the reference executor (whose
// CollectFields has the same visited set) predict what must happen.

import (
	"context"
	"fmt"
	"sort"
	"strings"

	"github.com/graphql-go/graphql"
	"github.com/graphql-go/graphql/gqlerrors"
)

// c09XRun is xRun without the validity gate and with a watchdog (copied from
// harness/xrun.go, which must not be edited).
func c09XRun(rq *xRequest, validate bool) (*xObserved, bool) {
	t := &xTrial{s: rq.s, seed: rq.seed, pol: rq.pol, callPaths: map[string]int{}, tags: map[string]bool{}, ctxTag: int(rq.seed%1000) + 1,
		root: map[string]interface{}{"__root": int(rq.seed % 77)}}
	b, err := rq.s.build(&xHooks{Resolve: t.resolve, ResolveType: t.resolveType})
	if err != nil {
		return &xObserved{fails: []string{"generated schema rejected: " + err.Error()}, invalid: true}, false
	}
	t.b = b
	obs := &xObserved{desc: map[string]interface{}{"query": rq.text, "operationName": rq.op, "variables": rq.inputs, "entry": rq.entry}}
	docAST, perr := c09Parse([]byte(rq.text))
	if perr != nil {
		obs.invalid = true
		obs.desc["generator_error"] = "parse: " + perr.Error()
		return obs, false
	}
	valid := true
	if pm, hung := c09Timed(len(rq.text), func() { valid = graphql.ValidateDocument(&b.Schema, docAST, nil).IsValid }); pm != "" || hung {
		obs.fails = append(obs.fails, c09FailOf("ValidateDocument", pm, hung))
		return obs, false
	}
	if validate && !valid {
		obs.invalid = true
		return obs, false
	}
	ctx := context.WithValue(context.Background(), xCtxKey{}, t.ctxTag)
	var res *graphql.Result
	pm, hung := c09Timed(len(rq.text), func() {
		switch rq.entry {
		case "do":
			res = graphql.Do(graphql.Params{Schema: b.Schema, RequestString: rq.text, OperationName: rq.op, VariableValues: rq.inputs, RootObject: t.root, Context: ctx})
		case "execute":
			res = graphql.Execute(graphql.ExecuteParams{Schema: b.Schema, AST: docAST, OperationName: rq.op, Args: rq.inputs, Root: t.root, Context: ctx})
		case "plan":
			plan, err := graphql.PlanQuery(&b.Schema, docAST, rq.op)
			if err != nil {
				res = &graphql.Result{Errors: gqlerrors.FormatErrors(err)}
				return
			}
			res = graphql.ExecutePlan(plan, graphql.ExecuteParams{Schema: b.Schema, Args: rq.inputs, Root: t.root, Context: ctx})
		}
	})
	if pm != "" || hung {
		obs.fails = append(obs.fails, c09FailOf(rq.entry, pm, hung))
		return obs, valid
	}
	if res == nil {
		obs.fails = append(obs.fails, rq.entry+" returned nil")
		return obs, valid
	}
	t.mu.Lock()
	defer t.mu.Unlock()
	errsCoq, _ := xErrsCoq(res.Errors)
	data := "None"
	if res.Data != nil {
		data = "(Some " + xRespCoq(res.Data) + ")"
	}
	rejected := res.Data == nil && len(t.calls) == 0 && len(res.Errors) > 0
	opn := "None"
	if rq.op != "" {
		opn = "(Some " + coqStr(rq.op) + ")"
	}
	seen := "None"
	if len(t.calls) > 0 {
		seen = "(Some " + t.varsSeen + ")"
	}
	inputs := strings.TrimSuffix(strings.TrimPrefix(jvCoq(rq.inputs), "(JObj "), ")")
	obs.coq = fmt.Sprintf("{| x_kind := %d; x_schema := %s; x_doc := %s; x_op := %s; x_inputs := %s; x_root := (RObj 0 \"root\"); x_oracle := %s; x_toracle := %s; x_rejected := %s; x_data := %s; x_errs := %s; x_calls := %s; x_tcalls := %s; x_varsseen := %s; x_log := %s; x_plan := None |}",
		rq.kind, rq.s.coq(), rq.doc.coq(), opn, inputs, coqList(t.oracle), coqList(t.tover), coqBool(rejected), data, errsCoq, coqList(t.calls), coqList(t.tcalls), seen, coqList(t.log))
	obs.nCalls = len(t.calls)
	o := &c09Obs{extra: map[string]interface{}{}}
	c09Shape(o, res)
	obs.desc["json_ok"] = o.jsonOK && o.keysOK
	if !o.jsonOK || !o.keysOK {
		obs.fails = append(obs.fails, fmt.Sprintf("result not serialisable / keys not names: %v", o.extra["marshal_error"]))
	}
	obs.desc["resolver_outcomes"] = len(t.oracle)
	for k := range t.tags {
		obs.tags = append(obs.tags, k)
	}
	sort.Strings(obs.tags)
	return obs, valid
}

func c09ModelJob(j c09Job) *c09Obs {
	o := &c09Obs{extra: map[string]interface{}{}}
	r := NewRng(j.Seed+9*7919, uint64(j.Idx))
	s := xGenSchema(r)
	opts := xGenOpts{DynDirPct: 60, DirPct: 25, FragPct: 15, InlinePct: 12, VarArgPct: 25, MaxDepth: 3, MultiOp: r.Chance(30), Mutation: r.Chance(20), BadInputPct: 30}
	pol := xPolicy{Null: 10, Err: 8, ValErr: 3, Panic: 5, Thunk: 10, Adversarial: 10, BadType: 4}
	doc, g := xGenDoc(r, s, opts)
	text := doc.text()
	op, opIdx := "", 0
	if len(doc.Ops) > 1 {
		opIdx = r.Intn(len(doc.Ops))
		op = doc.Ops[opIdx].Name
		if r.Chance(15) {
			op = r.Pick([]string{"", "Nope"}) // request errors: ambiguous / unknown operation
		}
	} else if doc.Ops[0].Name != "" && r.Bool() {
		op = doc.Ops[0].Name
	}
	inputs := g.inputs(doc.Ops[opIdx])
	entry := []string{"do", "execute", "plan"}[j.Idx%3]
	rq := &xRequest{s: s, doc: doc, text: text, op: op, inputs: inputs, pol: pol, seed: j.Seed*1000003 + uint64(j.Idx), entry: entry, kind: 9}
	obs, _ := c09XRun(rq, true)
	o.extra["query"] = text
	o.extra["operationName"] = op
	o.extra["variables"] = fmt.Sprint(inputs)
	o.extra["model_entry"] = entry
	if obs.invalid {
		o.shape, o.hasData, o.jsonOK, o.keysOK = true, true, true, true
		o.tags = append(o.tags, "generator-invalid")
		return o
	}
	if len(obs.fails) > 0 {
		var keep []string
		for _, f := range obs.fails {
			if strings.HasPrefix(f, "hang:") || strings.Contains(f, "panic") || strings.Contains(f, "serialisable") || strings.Contains(f, "returned nil") {
				keep = append(keep, f)
			}
		}
		if len(keep) > 0 {
			o.fail = strings.Join(keep, "; ")
			return o
		}
	}
	o.coq = "C9Exec false " + obs.coq
	o.tags = append(append(o.tags, "model-entry-"+entry), obs.tags...)
	o.nt = obs.nCalls > 0
	return o
}

// ---- fragment cycles ----

type c09Spot struct {
	set    *[]*xSel
	nested bool
}

func c09Spots(ss *[]*xSel, nested bool, out *[]c09Spot) {
	*out = append(*out, c09Spot{ss, nested})
	for _, s := range *ss {
		switch s.Kind {
		case "field":
			if len(s.Sub) > 0 {
				c09Spots(&s.Sub, true, out)
			}
		case "inline":
			c09Spots(&s.Sub, nested, out)
		}
	}
}

// the generated document with injected back-edge spreads (deterministic in the job)
func c09CycleDoc(j c09Job) (s *xSchema, doc *xDoc, g *xGen, injected int, throughField bool) {
	r := NewRng(j.Seed+99*7919, uint64(j.Idx))
	s = xGenSchema(r)
	opts := xGenOpts{DynDirPct: 40, DirPct: 15, FragPct: 45, InlinePct: 15, VarArgPct: 15, MaxDepth: 3}
	doc, g = xGenDoc(r, s, opts)
	throughField = r.Chance(35)
	lit := func(b bool) *xValue { return &xValue{Kind: "bool", B: b} }
	if len(doc.Frags) > 0 {
		k := 1 + r.Intn(3)
		for ; k > 0; k-- {
			fi := r.Intn(len(doc.Frags))
			from := doc.Frags[fi]
			// a back edge: to itself or to an earlier fragment (generated spreads only go forward)
			to := doc.Frags[r.Intn(fi+1)]
			var spots []c09Spot
			c09Spots(&from.Sel, false, &spots)
			var cands []c09Spot
			for _, sp := range spots {
				if sp.nested == throughField {
					cands = append(cands, sp)
				}
			}
			if len(cands) == 0 {
				continue
			}
			sp := cands[r.Intn(len(cands))]
			sel := &xSel{Kind: "spread", Name: to.Name}
			switch r.Intn(4) {
			case 0:
				sel.Dirs = []xDir{{Name: "include", If: lit(true)}}
			case 1:
				sel.Dirs = []xDir{{Name: "skip", If: lit(false)}}
			}
			pos := r.Intn(len(*sp.set) + 1)
			ns := append([]*xSel{}, (*sp.set)[:pos]...)
			ns = append(ns, sel)
			ns = append(ns, (*sp.set)[pos:]...)
			*sp.set = ns
			injected++
		}
	}
	return
}

func c09CycleJob(j c09Job, in *c09Input) *c09Obs {
	o := &c09Obs{extra: map[string]interface{}{}}
	s, doc, g, injected, throughField := c09CycleDoc(j)
	text := doc.text()
	op := doc.Ops[0].Name
	inputs := g.inputs(doc.Ops[0])
	o.extra["query"] = text
	o.extra["injected_spreads"] = injected
	in.Req = []byte(text)
	in.Op = op
	// 1. the check: PlanQuery on the unvalidated document
	t := &xTrial{s: s, seed: 1, callPaths: map[string]int{}, tags: map[string]bool{}, root: map[string]interface{}{"__root": 0}}
	b, err := s.build(&xHooks{Resolve: t.resolve, ResolveType: t.resolveType})
	if err != nil {
		o.fail = "harness: generated schema rejected: " + err.Error()
		return o
	}
	t.b = b
	docAST, perr := c09Parse([]byte(text))
	if perr != nil {
		o.fail = "harness: generated document does not parse: " + perr.Error()
		return o
	}
	var plan *graphql.Plan
	var perr2 error
	if pm, hung := c09Timed(len(text), func() { plan, perr2 = graphql.PlanQuery(&b.Schema, docAST, op) }); pm != "" || hung {
		o.fail = c09FailOf("PlanQuery", pm, hung)
		return o
	}
	rejected := plan == nil || perr2 != nil
	// 2. validation must terminate on it as well (NoFragmentCycles, overlap rule memoisation)
	if pm, hung := c09Timed(len(text), func() { graphql.ValidateDocument(&b.Schema, docAST, nil) }); pm != "" || hung {
		o.fail = c09FailOf("ValidateDocument", pm, hung)
		return o
	}
	full := "false"
	xc := ""
	if !rejected {
		// 3. execution, compared in full with the reference executor (same visited-set semantics)
		entry := []string{"execute", "plan"}[j.Idx%2]
		pol := xPolicy{Null: 5, Err: 4, Thunk: 5}
		rq := &xRequest{s: s, doc: doc, text: text, op: op, inputs: inputs, pol: pol, seed: j.Seed*1000003 + uint64(j.Idx), entry: entry, kind: 9}
		obs, _ := c09XRun(rq, false)
		for _, f := range obs.fails {
			if strings.HasPrefix(f, "hang:") || strings.Contains(f, "panic") || strings.Contains(f, "serialisable") {
				o.fail = f
				return o
			}
		}
		if obs.coq != "" && !obs.invalid {
			xc = obs.coq
			full = "true"
		}
		o.tags = append(o.tags, "cycle-accepted")
	} else {
		o.tags = append(o.tags, "cycle-rejected")
	}
	if injected == 0 {
		o.tags = append(o.tags, "no-cycle-injected")
	} else if throughField {
		o.tags = append(o.tags, "through-field")
	} else {
		o.tags = append(o.tags, "same-level")
	}
	if strings.Contains(text, "@") {
		o.tags = append(o.tags, "directive")
	}
	opn := "None"
	if op != "" {
		opn = "(Some " + coqStr(op) + ")"
	}
	if xc != "" {
		o.coq = fmt.Sprintf("C9CycleExec %s %s", coqBool(rejected), xc)
	} else {
		o.coq = fmt.Sprintf("C9Cycle %s %s %s %s", s.coq(), doc.coq(), opn, coqBool(rejected))
	}
	_ = full
	o.nt = injected > 0
	return o
}
