package main

// C02: validation accepts exactly the documents that satisfy every rule.
// Valid documents from xGenDoc are parsed, mutated on the AST by one rule-targeted edit,
// printed and parsed again (so that every node has a location in the text under test),
// then validated with each of the 24 rules alone and with all rules together.  The
// document goes to Coq as a term of Validate.VSyntax.wdoc (node id = byte offset).

import (
	"fmt"
	"math/big"
	"reflect"
	"runtime"
	"sort"
	"strings"

	"github.com/graphql-go/graphql"
	"github.com/graphql-go/graphql/language/ast"
	"github.com/graphql-go/graphql/language/kinds"
	"github.com/graphql-go/graphql/language/parser"
	"github.com/graphql-go/graphql/language/printer"
)

func init() { props["C02"] = genC02 }

var c02RuleNames = []string{
	"ArgumentsOfCorrectTypeRule", "DefaultValuesOfCorrectTypeRule", "FieldsOnCorrectTypeRule",
	"FragmentsOnCompositeTypesRule", "KnownArgumentNamesRule", "KnownDirectivesRule",
	"KnownFragmentNamesRule", "KnownTypeNamesRule", "LoneAnonymousOperationRule",
	"NoFragmentCyclesRule", "NoUndefinedVariablesRule", "NoUnusedFragmentsRule",
	"NoUnusedVariablesRule", "OverlappingFieldsCanBeMergedRule", "PossibleFragmentSpreadsRule",
	"ProvidedNonNullArgumentsRule", "ScalarLeafsRule", "UniqueArgumentNamesRule",
	"UniqueFragmentNamesRule", "UniqueInputFieldNamesRule", "UniqueOperationNamesRule",
	"UniqueVariableNamesRule", "VariablesAreInputTypesRule", "VariablesInAllowedPositionRule",
}

// c02Rules returns the exported rules in the model's order; "" when the rule set changed.
func c02Rules() ([]graphql.ValidationRuleFn, string) {
	byName := map[string]graphql.ValidationRuleFn{}
	for _, fn := range graphql.SpecifiedRules {
		full := runtime.FuncForPC(reflect.ValueOf(fn).Pointer()).Name()
		byName[full[strings.LastIndex(full, ".")+1:]] = fn
	}
	if len(graphql.SpecifiedRules) != len(c02RuleNames) {
		return nil, fmt.Sprintf("SpecifiedRules has %d rules, the edition has %d", len(graphql.SpecifiedRules), len(c02RuleNames))
	}
	out := []graphql.ValidationRuleFn{}
	for _, n := range c02RuleNames {
		fn, ok := byName[n]
		if !ok {
			return nil, "SpecifiedRules lacks " + n
		}
		out = append(out, fn)
	}
	return out, ""
}

// ---- schema ----

type c02Schema struct {
	xs    *xSchema
	built *xBuilt
	coq   string
}

func c02Build(xs *xSchema) *c02Schema {
	h := &xHooks{ResolveType: func(p graphql.ResolveTypeParams, abstract string) *graphql.Object { return nil }}
	b, err := xs.build(h)
	if err != nil {
		return nil
	}
	// the model's schema lists exactly the generated types the built schema knows
	f := &xSchema{Pool: xs.Pool, PoolKeys: xs.PoolKeys, Query: xs.Query, Mutation: xs.Mutation}
	for _, t := range xs.Types {
		if b.Schema.Type(t.Name) != nil {
			f.Types = append(f.Types, t)
		}
	}
	return &c02Schema{xs: xs, built: b, coq: f.coq()}
}

// a fixed small schema for the topology sweep
func c02FixedSchema() *xSchema {
	s := &xSchema{Pool: map[string]*xField{}, Query: "Q", Mutation: "M"}
	for _, sc := range [][2]string{{"Int", "SInt"}, {"Float", "SFloat"}, {"String", "SString"}, {"Boolean", "SBoolean"}, {"ID", "SID"}} {
		s.Types = append(s.Types, &xType{Name: sc[0], Kind: "scalar", Scalar: sc[1]})
	}
	pool := func(name string, t *xTy, args ...xArg) {
		s.Pool[name] = &xField{Name: name, Type: t, Args: args}
		s.PoolKeys = append(s.PoolKeys, name)
	}
	pool("a", xNamed("String"))
	pool("b", xNamed("String"))
	pool("i", xNamed("Int"))
	pool("ni", xNonNull(xNamed("Int")))
	pool("fa", xNamed("Int"), xArg{Name: "n", Type: xNamed("Int")})
	pool("o", xNamed("Q"))
	pool("if0", xNamed("I0"))
	pool("fg", xNamed("String"), xArg{Name: "in1", Type: xNamed("In1")})
	// list-typed input positions with non-null wrappers around and inside the list
	pool("fl", xNamed("String"), xArg{Name: "ids", Type: xNonNull(xList(xNamed("Int")))})
	pool("fl2", xNamed("String"), xArg{Name: "ids", Type: xNonNull(xList(xNonNull(xNamed("Int"))))})
	pool("fl3", xNamed("String"), xArg{Name: "m", Type: xList(xNonNull(xList(xNamed("Int"))))})
	pool("fl4", xNamed("String"), xArg{Name: "ins", Type: xNonNull(xList(xNamed("In2")))})
	pool("fh", xNamed("String"), xArg{Name: "in2", Type: xNamed("In2")})
	s.Types = append(s.Types,
		&xType{Name: "In0", Kind: "input", Inputs: []xArg{{Name: "a", Type: xNamed("Int")}, {Name: "b", Type: xNamed("Int")}}},
		&xType{Name: "In1", Kind: "input", Inputs: []xArg{{Name: "x", Type: xNamed("String")}, {Name: "in", Type: xNamed("In0")}, {Name: "ins", Type: xList(xNamed("In0"))}}},
		&xType{Name: "In2", Kind: "input", Inputs: []xArg{{Name: "n", Type: xNamed("Int")}, {Name: "ns", Type: xNonNull(xList(xNamed("Int")))},
			{Name: "nn", Type: xList(xNonNull(xNamed("Int")))}, {Name: "mm", Type: xList(xNonNull(xList(xNamed("Int"))))}}})
	s.Types = append(s.Types,
		&xType{Name: "I0", Kind: "interface", Fields: []string{"a"}},
		&xType{Name: "O0", Kind: "object", Fields: []string{"a", "b", "i", "o"}, Ifaces: []string{"I0"}},
		&xType{Name: "O1", Kind: "object", Fields: []string{"a", "b", "ni", "o"}, Ifaces: []string{"I0"}},
		&xType{Name: "Q", Kind: "object", Fields: []string{"a", "b", "i", "fa", "o", "if0", "fg", "fl", "fl2", "fl3", "fl4", "fh"}},
		&xType{Name: "M", Kind: "object", Fields: []string{"a"}})
	return s
}

// ---- AST -> Gallina ----

type c02Term struct{ bad string }

func (p *c02Term) fail(s string) string {
	if p.bad == "" {
		p.bad = s
	}
	return "?"
}
func c02Start(l *ast.Location) int {
	if l == nil {
		return 0
	}
	return l.Start
}
func (p *c02Term) str(s string) string {
	for _, c := range []byte(s) {
		if c < 32 || c > 126 {
			return p.fail("non-printable string")
		}
	}
	return coqStr(s)
}
func (p *c02Term) value(v ast.Value) string {
	switch x := v.(type) {
	case *ast.Variable:
		return fmt.Sprintf("(WVar %d %s)", c02Start(x.Loc), p.str(x.Name.Value))
	case *ast.IntValue:
		z, ok := new(big.Int).SetString(x.Value, 10)
		if !ok || z.String() != x.Value {
			return p.fail("non-canonical int " + x.Value)
		}
		return fmt.Sprintf("(WInt %d (%s)%%Z)", c02Start(x.Loc), z.String())
	case *ast.FloatValue:
		r, ok := new(big.Rat).SetString(x.Value)
		if !ok {
			return p.fail("float " + x.Value)
		}
		return fmt.Sprintf("(WFloat %d (%s)%%Z %s%%positive)", c02Start(x.Loc), r.Num().String(), r.Denom().String())
	case *ast.StringValue:
		return fmt.Sprintf("(WStr %d %s)", c02Start(x.Loc), p.str(x.Value))
	case *ast.BooleanValue:
		return fmt.Sprintf("(WBool %d %s)", c02Start(x.Loc), coqBool(x.Value))
	case *ast.EnumValue:
		return fmt.Sprintf("(WEnum %d %s)", c02Start(x.Loc), p.str(x.Value))
	case *ast.ListValue:
		xs := []string{}
		for _, e := range x.Values {
			xs = append(xs, p.value(e))
		}
		return fmt.Sprintf("(WList %d %s)", c02Start(x.Loc), coqList(xs))
	case *ast.ObjectValue:
		xs := []string{}
		for _, f := range x.Fields {
			xs = append(xs, fmt.Sprintf("(%d, (%s, %s))", c02Start(f.Name.Loc), p.str(f.Name.Value), p.value(f.Value)))
		}
		return fmt.Sprintf("(WObj %d %s)", c02Start(x.Loc), coqList(xs))
	}
	return p.fail(fmt.Sprintf("value %T", v))
}
func (p *c02Term) typ(t ast.Type) string {
	switch x := t.(type) {
	case *ast.Named:
		return fmt.Sprintf("(WTNamed %d %s)", c02Start(x.Loc), p.str(x.Name.Value))
	case *ast.List:
		return fmt.Sprintf("(WTList %d %s)", c02Start(x.Loc), p.typ(x.Type))
	case *ast.NonNull:
		return fmt.Sprintf("(WTNonNull %d %s)", c02Start(x.Loc), p.typ(x.Type))
	}
	return p.fail(fmt.Sprintf("type %T", t))
}
func (p *c02Term) args(as []*ast.Argument) string {
	xs := []string{}
	for _, a := range as {
		xs = append(xs, fmt.Sprintf("{| wa_id := %d; wa_name := %s; wa_val := %s |}", c02Start(a.Loc), p.str(a.Name.Value), p.value(a.Value)))
	}
	return coqList(xs)
}
func (p *c02Term) dirs(ds []*ast.Directive) string {
	xs := []string{}
	for _, d := range ds {
		xs = append(xs, fmt.Sprintf("{| wd_id := %d; wd_name := %s; wd_args := %s |}", c02Start(d.Loc), p.str(d.Name.Value), p.args(d.Arguments)))
	}
	return coqList(xs)
}
func (p *c02Term) sels(ss *ast.SelectionSet) (int, string) {
	if ss == nil {
		return 0, "[]"
	}
	xs := []string{}
	for _, s := range ss.Selections {
		switch x := s.(type) {
		case *ast.Field:
			al := "None"
			if x.Alias != nil {
				al = "(Some " + p.str(x.Alias.Value) + ")"
			}
			ssid, sub := p.sels(x.SelectionSet)
			xs = append(xs, fmt.Sprintf("(WField %d %s %s %s %s %d %s)", c02Start(x.Loc), al, p.str(x.Name.Value), p.args(x.Arguments), p.dirs(x.Directives), ssid, sub))
		case *ast.FragmentSpread:
			xs = append(xs, fmt.Sprintf("(WSpread %d %d %s %s)", c02Start(x.Loc), c02Start(x.Name.Loc), p.str(x.Name.Value), p.dirs(x.Directives)))
		case *ast.InlineFragment:
			tc := "None"
			if x.TypeCondition != nil {
				tc = fmt.Sprintf("(Some (%d, %s))", c02Start(x.TypeCondition.Loc), p.str(x.TypeCondition.Name.Value))
			}
			ssid, sub := p.sels(x.SelectionSet)
			xs = append(xs, fmt.Sprintf("(WInline %d %s %s %d %s)", c02Start(x.Loc), tc, p.dirs(x.Directives), ssid, sub))
		default:
			p.fail(fmt.Sprintf("selection %T", s))
		}
	}
	if len(xs) == 0 {
		p.fail("empty selection set")
	}
	return c02Start(ss.Loc), coqList(xs)
}
func (p *c02Term) doc(d *ast.Document) string {
	ops, frs := []string{}, []string{}
	seenFrag := false
	for _, def := range d.Definitions {
		switch x := def.(type) {
		case *ast.OperationDefinition:
			if seenFrag {
				p.fail("operation after fragment")
			}
			k, ok := map[string]string{"query": "OpQuery", "mutation": "OpMutation", "subscription": "OpSubscription"}[x.Operation]
			if !ok {
				p.fail("operation kind")
			}
			nm := "None"
			if x.Name != nil {
				nm = fmt.Sprintf("(Some (%d, %s))", c02Start(x.Name.Loc), p.str(x.Name.Value))
			}
			vs := []string{}
			for _, v := range x.VariableDefinitions {
				dv := "None"
				if v.DefaultValue != nil {
					dv = "(Some " + p.value(v.DefaultValue) + ")"
				}
				vs = append(vs, fmt.Sprintf("{| wv_vid := %d; wv_nid := %d; wv_name := %s; wv_type := %s; wv_default := %s |}",
					c02Start(v.Variable.Loc), c02Start(v.Variable.Name.Loc), p.str(v.Variable.Name.Value), p.typ(v.Type), dv))
			}
			ssid, sel := p.sels(x.SelectionSet)
			ops = append(ops, fmt.Sprintf("{| wo_id := %d; wo_kind := %s; wo_name := %s; wo_vars := %s; wo_dirs := %s; wo_ssid := %d; wo_sel := %s |}",
				c02Start(x.Loc), k, nm, coqList(vs), p.dirs(x.Directives), ssid, sel))
		case *ast.FragmentDefinition:
			seenFrag = true
			ssid, sel := p.sels(x.SelectionSet)
			frs = append(frs, fmt.Sprintf("{| wf_id := %d; wf_nid := %d; wf_name := %s; wf_tcid := %d; wf_cond := %s; wf_dirs := %s; wf_ssid := %d; wf_sel := %s |}",
				c02Start(x.Loc), c02Start(x.Name.Loc), p.str(x.Name.Value), c02Start(x.TypeCondition.Loc), p.str(x.TypeCondition.Name.Value), p.dirs(x.Directives), ssid, sel))
		default:
			p.fail(fmt.Sprintf("definition %T", def))
		}
	}
	return "{| w_ops := " + coqList(ops) + "; w_frags := " + coqList(frs) + " |}"
}

// ---- node collection on the AST ----

type c02Nodes struct {
	sets    []*ast.SelectionSet
	setPar  []ast.Node // the node owning each selection set
	fields  []*ast.Field
	spreads []*ast.FragmentSpread
	inlines []*ast.InlineFragment
	dirs    []*ast.Directive
	argOwn  []ast.Node // fields and directives with >= 1 argument
	objs    []*ast.ObjectValue
	ops     []*ast.OperationDefinition
	frags   []*ast.FragmentDefinition
}

func (n *c02Nodes) val(v ast.Value) {
	switch x := v.(type) {
	case *ast.ListValue:
		for _, e := range x.Values {
			n.val(e)
		}
	case *ast.ObjectValue:
		n.objs = append(n.objs, x)
		for _, f := range x.Fields {
			n.val(f.Value)
		}
	}
}
func (n *c02Nodes) dirsOf(ds []*ast.Directive) {
	for _, d := range ds {
		n.dirs = append(n.dirs, d)
		if len(d.Arguments) > 0 {
			n.argOwn = append(n.argOwn, d)
		}
		for _, a := range d.Arguments {
			n.val(a.Value)
		}
	}
}
func (n *c02Nodes) set(ss *ast.SelectionSet, owner ast.Node) {
	if ss == nil {
		return
	}
	n.sets = append(n.sets, ss)
	n.setPar = append(n.setPar, owner)
	for _, s := range ss.Selections {
		switch x := s.(type) {
		case *ast.Field:
			n.fields = append(n.fields, x)
			if len(x.Arguments) > 0 {
				n.argOwn = append(n.argOwn, x)
			}
			for _, a := range x.Arguments {
				n.val(a.Value)
			}
			n.dirsOf(x.Directives)
			n.set(x.SelectionSet, x)
		case *ast.FragmentSpread:
			n.spreads = append(n.spreads, x)
			n.dirsOf(x.Directives)
		case *ast.InlineFragment:
			n.inlines = append(n.inlines, x)
			n.dirsOf(x.Directives)
			n.set(x.SelectionSet, x)
		}
	}
}
func c02Collect(d *ast.Document) *c02Nodes {
	n := &c02Nodes{}
	for _, def := range d.Definitions {
		switch x := def.(type) {
		case *ast.OperationDefinition:
			n.ops = append(n.ops, x)
			for _, v := range x.VariableDefinitions {
				if v.DefaultValue != nil {
					n.val(v.DefaultValue)
				}
			}
			n.dirsOf(x.Directives)
			n.set(x.SelectionSet, x)
		case *ast.FragmentDefinition:
			n.frags = append(n.frags, x)
			n.dirsOf(x.Directives)
			n.set(x.SelectionSet, x)
		}
	}
	return n
}

// ---- AST construction helpers ----

func c02Name(s string) *ast.Name { return ast.NewName(&ast.Name{Value: s}) }
func c02Field(alias, name string, args []*ast.Argument, sub *ast.SelectionSet) *ast.Field {
	f := ast.NewField(&ast.Field{Name: c02Name(name), Arguments: args, SelectionSet: sub})
	if alias != "" {
		f.Alias = c02Name(alias)
	}
	return f
}
func c02Set(ss ...ast.Selection) *ast.SelectionSet {
	return ast.NewSelectionSet(&ast.SelectionSet{Selections: ss})
}
func c02Spread(name string) *ast.FragmentSpread {
	return ast.NewFragmentSpread(&ast.FragmentSpread{Name: c02Name(name)})
}
func c02NamedT(n string) *ast.Named { return ast.NewNamed(&ast.Named{Name: c02Name(n)}) }
func c02Inline(tc string, sub *ast.SelectionSet) *ast.InlineFragment {
	f := ast.NewInlineFragment(&ast.InlineFragment{SelectionSet: sub})
	if tc != "" {
		f.TypeCondition = c02NamedT(tc)
	}
	return f
}
func c02Frag(name, cond string, sub *ast.SelectionSet) *ast.FragmentDefinition {
	return ast.NewFragmentDefinition(&ast.FragmentDefinition{Name: c02Name(name), TypeCondition: c02NamedT(cond), SelectionSet: sub})
}
func c02Arg(name string, v ast.Value) *ast.Argument {
	return ast.NewArgument(&ast.Argument{Name: c02Name(name), Value: v})
}
func c02Int(i int) ast.Value    { return ast.NewIntValue(&ast.IntValue{Value: fmt.Sprint(i)}) }
func c02Str(s string) ast.Value { return ast.NewStringValue(&ast.StringValue{Value: s}) }
func c02Var(n string) *ast.Variable {
	return ast.NewVariable(&ast.Variable{Name: c02Name(n)})
}
func c02Dir(name string, args ...*ast.Argument) *ast.Directive {
	return ast.NewDirective(&ast.Directive{Name: c02Name(name), Arguments: args})
}
func c02Typename() *ast.Field { return c02Field("", "__typename", nil, nil) }

func c02ParseType(s string) ast.Type {
	d, err := parser.Parse(parser.ParseParams{Source: "query($x: " + s + "){a}"})
	if err != nil {
		return c02NamedT("Int")
	}
	return d.Definitions[0].(*ast.OperationDefinition).VariableDefinitions[0].Type
}

func c02WrongValues() []ast.Value {
	return []ast.Value{
		c02Str("zz"), c02Int(5), c02Int(4), c02Int(3000000000),
		ast.NewFloatValue(&ast.FloatValue{Value: "1.5"}),
		ast.NewBooleanValue(&ast.BooleanValue{Value: true}),
		ast.NewEnumValue(&ast.EnumValue{Value: "ZZ"}),
		ast.NewEnumValue(&ast.EnumValue{Value: "A"}),
		ast.NewListValue(&ast.ListValue{Values: []ast.Value{c02Int(1), c02Str("q")}}),
		ast.NewObjectValue(&ast.ObjectValue{Fields: []*ast.ObjectField{ast.NewObjectField(&ast.ObjectField{Name: c02Name("zz"), Value: c02Int(1)})}}),
		ast.NewObjectValue(&ast.ObjectValue{Fields: []*ast.ObjectField{ast.NewObjectField(&ast.ObjectField{Name: c02Name("a"), Value: c02Str("s")})}}),
		ast.NewObjectValue(&ast.ObjectValue{Fields: []*ast.ObjectField{
			ast.NewObjectField(&ast.ObjectField{Name: c02Name("b"), Value: c02Int(1)}),
			ast.NewObjectField(&ast.ObjectField{Name: c02Name("l"), Value: ast.NewListValue(&ast.ListValue{Values: []ast.Value{c02Int(1), c02Str("q")}})})}}),
	}
}

// ---- mutations ----

var c02Mutations = []string{
	"none", "unknown-field", "unknown-arg", "unknown-type", "unknown-directive", "unknown-fragment",
	"misplaced-directive", "wrong-literal", "missing-required-arg", "undefined-variable", "unused-variable",
	"duplicate-variable", "variable-position", "non-input-variable", "fragment-cycle", "unused-fragment",
	"duplicate-fragment", "impossible-spread", "leaf-subselection", "duplicate-arg", "duplicate-input-field",
	"duplicate-operation", "anonymous-and-named", "overlap-plant", "untyped-inline-wrap", "default-value",
	"overlap-exclusive-then-strict",
}

func c02AnyOp(r *Rng, n *c02Nodes) *ast.OperationDefinition { return n.ops[r.Intn(len(n.ops))] }

// c02Mutate applies mutation m; false when the document offers no site for it.
func c02Mutate(m string, r *Rng, d *ast.Document, xs *xSchema) bool {
	n := c02Collect(d)
	if len(n.ops) == 0 || len(n.sets) == 0 {
		return false
	}
	composite := []string{}
	leafF, compF := []string{}, []string{}
	for _, t := range xs.Types {
		if t.Kind == "object" || t.Kind == "interface" || t.Kind == "union" {
			composite = append(composite, t.Name)
		}
	}
	for _, k := range xs.PoolKeys {
		tk := xs.typ(xs.Pool[k].Type.named()).Kind
		if tk == "scalar" || tk == "enum" {
			leafF = append(leafF, k)
		} else {
			compF = append(compF, k)
		}
	}
	pickSet := func() *ast.SelectionSet { return n.sets[r.Intn(len(n.sets))] }
	switch m {
	case "none":
		return true
	case "unknown-field":
		if r.Chance(50) && len(n.fields) > 0 {
			n.fields[r.Intn(len(n.fields))].Name = c02Name("zzz")
		} else {
			ss := pickSet()
			ss.Selections = append(ss.Selections, c02Field("", r.Pick(append(leafF, "zzz", "__typename")), nil, nil))
		}
		return true
	case "unknown-arg":
		if len(n.fields) == 0 {
			return false
		}
		if r.Chance(40) && len(n.dirs) > 0 {
			dd := n.dirs[r.Intn(len(n.dirs))]
			dd.Arguments = append(dd.Arguments, c02Arg(r.Pick([]string{"zz", "n", "s"}), c02Int(1)))
			return true
		}
		f := n.fields[r.Intn(len(n.fields))]
		f.Arguments = append(f.Arguments, c02Arg(r.Pick([]string{"zz", "n", "s", "if"}), c02WrongValues()[r.Intn(3)]))
		return true
	case "unknown-type":
		c := r.Intn(3)
		if c == 0 && len(n.inlines) > 0 {
			n.inlines[r.Intn(len(n.inlines))].TypeCondition = c02NamedT(r.Pick([]string{"Zzz", "Int", "In0", "E0"}))
			return true
		}
		if c == 1 && len(n.frags) > 0 {
			n.frags[r.Intn(len(n.frags))].TypeCondition = c02NamedT(r.Pick([]string{"Zzz", "Int", "In0", "E0"}))
			return true
		}
		op := c02AnyOp(r, n)
		if len(op.VariableDefinitions) > 0 && r.Bool() {
			op.VariableDefinitions[r.Intn(len(op.VariableDefinitions))].Type = c02ParseType(r.Pick([]string{"Zzz", "[Zzz]", "Zzz!", "[Zzz!]!"}))
			return true
		}
		ss := pickSet()
		ss.Selections = append(ss.Selections, c02Inline(r.Pick([]string{"Zzz", "Int", "In0"}), c02Set(c02Typename())))
		return true
	case "unknown-directive":
		if len(n.dirs) > 0 && r.Bool() {
			n.dirs[r.Intn(len(n.dirs))].Name = c02Name("zzz")
			return true
		}
		if len(n.fields) == 0 {
			return false
		}
		f := n.fields[r.Intn(len(n.fields))]
		f.Directives = append(f.Directives, c02Dir("zzz", c02Arg(r.Pick([]string{"if", "n", "s"}), c02WrongValues()[r.Intn(6)])))
		return true
	case "unknown-fragment":
		if len(n.spreads) > 0 && r.Bool() {
			n.spreads[r.Intn(len(n.spreads))].Name = c02Name("Nope")
			return true
		}
		ss := pickSet()
		ss.Selections = append(ss.Selections, c02Spread("Nope"))
		return true
	case "misplaced-directive":
		lit := ast.NewBooleanValue(&ast.BooleanValue{Value: true})
		switch r.Intn(4) {
		case 0:
			op := c02AnyOp(r, n)
			if op.Name == nil && len(op.VariableDefinitions) == 0 {
				op.Name = c02Name("Z")
			}
			op.Directives = append(op.Directives, c02Dir(r.Pick([]string{"skip", "include"}), c02Arg("if", lit)))
		case 1:
			if len(n.frags) == 0 {
				return false
			}
			fr := n.frags[r.Intn(len(n.frags))]
			fr.Directives = append(fr.Directives, c02Dir("include", c02Arg("if", lit)))
		case 2:
			if len(n.fields) == 0 {
				return false
			}
			f := n.fields[r.Intn(len(n.fields))]
			f.Directives = append(f.Directives, c02Dir("deprecated"))
		default:
			if len(n.spreads) == 0 {
				return false
			}
			sp := n.spreads[r.Intn(len(n.spreads))]
			sp.Directives = append(sp.Directives, c02Dir("deprecated", c02Arg("reason", c02Str("x"))))
		}
		return true
	case "wrong-literal":
		if len(n.argOwn) == 0 {
			ss := pickSet()
			ss.Selections = append(ss.Selections, c02Field("", r.Pick([]string{"fa", "fb", "fc", "fd", "fe", "fg"}), []*ast.Argument{
				c02Arg(r.Pick([]string{"n", "s", "in", "l", "ll", "o", "id", "f", "b", "in1", "e"}), c02WrongValues()[r.Intn(len(c02WrongValues()))])}, nil))
			return true
		}
		o := n.argOwn[r.Intn(len(n.argOwn))]
		var as []*ast.Argument
		if f, ok := o.(*ast.Field); ok {
			as = f.Arguments
		} else {
			as = o.(*ast.Directive).Arguments
		}
		as[r.Intn(len(as))].Value = c02WrongValues()[r.Intn(len(c02WrongValues()))]
		return true
	case "missing-required-arg":
		if len(n.argOwn) > 0 && r.Chance(70) {
			o := n.argOwn[r.Intn(len(n.argOwn))]
			if f, ok := o.(*ast.Field); ok {
				i := r.Intn(len(f.Arguments))
				f.Arguments = append(append([]*ast.Argument{}, f.Arguments[:i]...), f.Arguments[i+1:]...)
			} else {
				dd := o.(*ast.Directive)
				dd.Arguments = nil
			}
			return true
		}
		ss := pickSet()
		ss.Selections = append(ss.Selections, c02Field("", "fb", nil, nil))
		return true
	case "undefined-variable":
		op := c02AnyOp(r, n)
		if len(op.VariableDefinitions) > 0 && r.Bool() {
			i := r.Intn(len(op.VariableDefinitions))
			op.VariableDefinitions = append(append([]*ast.VariableDefinition{}, op.VariableDefinitions[:i]...), op.VariableDefinitions[i+1:]...)
			return true
		}
		ss := pickSet()
		var v ast.Value = c02Var("undef")
		if r.Chance(30) {
			v = ast.NewListValue(&ast.ListValue{Values: []ast.Value{c02Var("undef")}})
		}
		ss.Selections = append(ss.Selections, c02Field("", r.Pick([]string{"fa", "fd"}), []*ast.Argument{c02Arg(r.Pick([]string{"n", "l"}), v)}, nil))
		return true
	case "unused-variable":
		op := c02AnyOp(r, n)
		if op.Name == nil && len(op.VariableDefinitions) == 0 {
			op.Name = c02Name("Z")
		}
		op.VariableDefinitions = append(op.VariableDefinitions, ast.NewVariableDefinition(&ast.VariableDefinition{Variable: c02Var("unused"), Type: c02ParseType(r.Pick([]string{"Int", "[String]", "In0"}))}))
		return true
	case "duplicate-variable":
		op := c02AnyOp(r, n)
		if len(op.VariableDefinitions) == 0 {
			return false
		}
		v := op.VariableDefinitions[r.Intn(len(op.VariableDefinitions))]
		op.VariableDefinitions = append(op.VariableDefinitions, ast.NewVariableDefinition(&ast.VariableDefinition{Variable: c02Var(v.Variable.Name.Value), Type: v.Type, DefaultValue: v.DefaultValue}))
		return true
	case "variable-position":
		op := c02AnyOp(r, n)
		if len(op.VariableDefinitions) == 0 {
			return false
		}
		v := op.VariableDefinitions[r.Intn(len(op.VariableDefinitions))]
		switch r.Intn(4) {
		case 0:
			v.Type = c02ParseType(r.Pick([]string{"Int", "String", "Boolean", "[Int]", "Int!", "[Int!]", "[[Int]]", "E0", "In0", "ID", "Float"}))
		case 1:
			if nn, ok := v.Type.(*ast.NonNull); ok {
				v.Type = nn.Type
			} else {
				v.Type = ast.NewNonNull(&ast.NonNull{Type: v.Type})
				v.DefaultValue = nil
			}
		case 2:
			v.Type = ast.NewList(&ast.List{Type: v.Type})
			v.DefaultValue = nil
		default:
			if nn, ok := v.Type.(*ast.NonNull); ok {
				v.Type = nn.Type
				v.DefaultValue = c02WrongValues()[r.Intn(len(c02WrongValues()))]
			} else {
				return false
			}
		}
		return true
	case "non-input-variable":
		op := c02AnyOp(r, n)
		t := c02ParseType(r.Pick([]string{"Q", "O0", "[O0]", "I0!", "U0", "Q!"}))
		if len(op.VariableDefinitions) > 0 && r.Bool() {
			op.VariableDefinitions[r.Intn(len(op.VariableDefinitions))].Type = t
			return true
		}
		if op.Name == nil && len(op.VariableDefinitions) == 0 {
			op.Name = c02Name("Z")
		}
		op.VariableDefinitions = append(op.VariableDefinitions, ast.NewVariableDefinition(&ast.VariableDefinition{Variable: c02Var("ni"), Type: t}))
		return true
	case "fragment-cycle":
		k := 1 + r.Intn(4)
		wrap := func(sp ast.Selection) ast.Selection {
			switch r.Intn(4) {
			case 0:
				return c02Inline("", c02Set(sp))
			case 1:
				return c02Inline("Q", c02Set(c02Typename(), sp))
			}
			return sp
		}
		for i := 0; i < k; i++ {
			next := fmt.Sprintf("Cy%d", (i+1)%k)
			sel := []ast.Selection{c02Typename(), wrap(c02Spread(next))}
			if r.Chance(30) && i+2 < k {
				sel = append(sel, c02Spread(fmt.Sprintf("Cy%d", i+2)))
			}
			if r.Chance(25) {
				sel = []ast.Selection{c02Field("", "o0", nil, c02Set(sel...))}
			}
			d.Definitions = append(d.Definitions, c02Frag(fmt.Sprintf("Cy%d", i), "Q", c02Set(sel...)))
		}
		if r.Chance(80) {
			op := c02AnyOp(r, n)
			op.SelectionSet.Selections = append(op.SelectionSet.Selections, wrap(c02Spread(fmt.Sprintf("Cy%d", r.Intn(k)))))
		}
		return true
	case "unused-fragment":
		d.Definitions = append(d.Definitions, c02Frag("Unused", "Q", c02Set(c02Typename())))
		if r.Chance(40) {
			d.Definitions = append(d.Definitions, c02Frag("Unused2", "Q", c02Set(c02Spread("Unused"))))
		}
		return true
	case "duplicate-fragment":
		if len(n.frags) > 0 && r.Chance(60) {
			f := n.frags[r.Intn(len(n.frags))]
			d.Definitions = append(d.Definitions, c02Frag(f.Name.Value, f.TypeCondition.Name.Value, c02Set(c02Typename())))
			return true
		}
		d.Definitions = append(d.Definitions, c02Frag("Dup", "Q", c02Set(c02Typename())), c02Frag("Dup", "Q", c02Set(c02Typename())))
		op := c02AnyOp(r, n)
		if op.Operation == "query" {
			op.SelectionSet.Selections = append(op.SelectionSet.Selections, c02Spread("Dup"))
		}
		return true
	case "impossible-spread":
		ss := pickSet()
		tc := r.Pick(composite)
		if r.Bool() {
			ss.Selections = append(ss.Selections, c02Inline(tc, c02Set(c02Typename())))
		} else {
			d.Definitions = append(d.Definitions, c02Frag("Imp", tc, c02Set(c02Typename())))
			ss.Selections = append(ss.Selections, c02Spread("Imp"))
		}
		return true
	case "leaf-subselection":
		if len(n.fields) == 0 {
			return false
		}
		f := n.fields[r.Intn(len(n.fields))]
		if f.SelectionSet == nil {
			f.SelectionSet = c02Set(c02Typename())
		} else {
			f.SelectionSet = nil
		}
		return true
	case "duplicate-arg":
		if len(n.argOwn) == 0 {
			return false
		}
		o := n.argOwn[r.Intn(len(n.argOwn))]
		if f, ok := o.(*ast.Field); ok {
			a := f.Arguments[r.Intn(len(f.Arguments))]
			f.Arguments = append(f.Arguments, c02Arg(a.Name.Value, a.Value))
		} else {
			dd := o.(*ast.Directive)
			a := dd.Arguments[r.Intn(len(dd.Arguments))]
			dd.Arguments = append(dd.Arguments, c02Arg(a.Name.Value, a.Value))
		}
		return true
	case "duplicate-input-field":
		mk := func(name string, v ast.Value) *ast.ObjectField {
			return ast.NewObjectField(&ast.ObjectField{Name: c02Name(name), Value: v})
		}
		if len(n.objs) > 0 && r.Chance(60) {
			o := n.objs[r.Intn(len(n.objs))]
			if len(o.Fields) > 0 {
				f := o.Fields[r.Intn(len(o.Fields))]
				o.Fields = append(o.Fields, mk(f.Name.Value, f.Value))
				return true
			}
		}
		// two sibling / nested literals, the duplicate in the second
		in0 := func(dup bool) ast.Value {
			fs := []*ast.ObjectField{mk("b", c02Int(1))}
			if dup {
				fs = append(fs, mk("b", c02Int(2)))
			}
			return ast.NewObjectValue(&ast.ObjectValue{Fields: fs})
		}
		var v ast.Value
		switch r.Intn(5) {
		case 3:
			// the duplicate pair straddles a nested literal
			v = ast.NewObjectValue(&ast.ObjectValue{Fields: []*ast.ObjectField{mk("x", c02Str("s")), mk("in", in0(false)), mk("x", c02Str("t"))}})
		case 4:
			// a nested literal's field name reused by the enclosing one afterwards (no duplicate)
			v = ast.NewObjectValue(&ast.ObjectValue{Fields: []*ast.ObjectField{mk("in", ast.NewObjectValue(&ast.ObjectValue{Fields: []*ast.ObjectField{mk("b", c02Int(1)), mk("a", c02Int(2))}})), mk("x", c02Str("t"))}})
		case 0:
			v = ast.NewObjectValue(&ast.ObjectValue{Fields: []*ast.ObjectField{mk("in", in0(false)), mk("ins", ast.NewListValue(&ast.ListValue{Values: []ast.Value{in0(false), in0(true)}}))}})
		case 1:
			v = ast.NewObjectValue(&ast.ObjectValue{Fields: []*ast.ObjectField{mk("in", in0(true)), mk("x", c02Str("s"))}})
		default:
			v = ast.NewObjectValue(&ast.ObjectValue{Fields: []*ast.ObjectField{mk("in", in0(false)), mk("x", c02Str("s")), mk("x", c02Str("t"))}})
		}
		ss := pickSet()
		ss.Selections = append(ss.Selections, c02Field("", "fg", []*ast.Argument{c02Arg("in1", v)}, nil))
		return true
	case "duplicate-operation":
		op := c02AnyOp(r, n)
		nm := "Dup"
		if op.Name != nil {
			nm = op.Name.Value
		}
		var name *ast.Name
		if !(op.Name == nil && r.Chance(30)) {
			name = c02Name(nm)
			op.Name = c02Name(nm)
		}
		d.Definitions = append([]ast.Node{ast.NewOperationDefinition(&ast.OperationDefinition{Operation: "query", Name: name, SelectionSet: c02Set(c02Typename())})}, d.Definitions...)
		return true
	case "anonymous-and-named":
		d.Definitions = append([]ast.Node{ast.NewOperationDefinition(&ast.OperationDefinition{Operation: "query", SelectionSet: c02Set(c02Typename())})}, d.Definitions...)
		return true
	case "untyped-inline-wrap":
		// wrap the selections of a set into `... { }` / `... @include(if: true) { }`
		ss := pickSet()
		in := c02Inline("", c02Set(ss.Selections...))
		if r.Bool() {
			in.Directives = []*ast.Directive{c02Dir("include", c02Arg("if", ast.NewBooleanValue(&ast.BooleanValue{Value: true})))}
		}
		ss.Selections = []ast.Selection{in}
		return true
	case "default-value":
		op := c02AnyOp(r, n)
		if len(op.VariableDefinitions) == 0 {
			return false
		}
		v := op.VariableDefinitions[r.Intn(len(op.VariableDefinitions))]
		v.DefaultValue = c02WrongValues()[r.Intn(len(c02WrongValues()))]
		return true
	case "overlap-plant":
		return c02Plant(r, d, n, xs, leafF, compF)
	case "overlap-exclusive-then-strict":
		return c02PlantFlag(r, d, xs, leafF)
	}
	return false
}

// c02Plant places two fields with one response key at spread depth 0-4 on either side.
func c02Plant(r *Rng, d *ast.Document, n *c02Nodes, xs *xSchema, leafF, compF []string) bool {
	// choose the host selection set and its (syntactic) type for the fragments' conditions
	host := n.sets[r.Intn(len(n.sets))]
	cond := "Q"
	switch o := n.setPar[indexOfSet(n, host)].(type) {
	case *ast.OperationDefinition:
		if o.Operation == "mutation" {
			cond = "M"
		}
	case *ast.FragmentDefinition:
		cond = o.TypeCondition.Name.Value
	case *ast.InlineFragment:
		if o.TypeCondition != nil {
			cond = o.TypeCondition.Name.Value
		} else {
			cond = r.Pick([]string{"Q", "O0", "I0"})
		}
	case *ast.Field:
		if f, ok := xs.Pool[o.Name.Value]; ok {
			cond = f.Type.named()
		}
	}
	var avail []string
	if t := xs.typ(cond); t != nil && (t.Kind == "object" || t.Kind == "interface") {
		avail = t.Fields
	}
	pickF := func() string {
		if len(avail) > 0 && r.Chance(85) {
			return avail[r.Intn(len(avail))]
		}
		return r.Pick(leafF)
	}
	f1, f2 := pickF(), pickF()
	key := "k"
	var a1, a2 []*ast.Argument
	mkArgs := func(fn string) []*ast.Argument {
		pf := xs.Pool[fn]
		if pf == nil || len(pf.Args) == 0 {
			return nil
		}
		a := pf.Args[0]
		switch a.Type.named() {
		case "Int", "Odd":
			return []*ast.Argument{c02Arg(a.Name, c02Int(1+2*r.Intn(2)))}
		case "String":
			return []*ast.Argument{c02Arg(a.Name, c02Str(r.Pick([]string{"x", "y"})))}
		}
		return nil
	}
	switch r.Intn(4) {
	case 0: // same field, maybe differing arguments
		f2 = f1
		a1, a2 = mkArgs(f1), mkArgs(f2)
	case 1: // different fields
	case 2: // fields with arguments
		f1 = r.Pick([]string{"fa", "fb"})
		f2 = f1
		a1, a2 = mkArgs(f1), mkArgs(f2)
		if r.Chance(30) {
			a2 = nil
		}
	default: // same composite field with conflicting sub-selections
		if len(compF) == 0 {
			return false
		}
		f1 = r.Pick(compF)
		f2 = f1
	}
	sub := func(fn string, which int) *ast.SelectionSet {
		pf := xs.Pool[fn]
		if pf == nil {
			return nil
		}
		t := xs.typ(pf.Type.named())
		if t == nil || t.Kind == "scalar" || t.Kind == "enum" {
			return nil
		}
		in := c02Field("k2", r.Pick(leafF), nil, nil)
		if which == 1 && r.Chance(50) {
			in = c02Field("k2", r.Pick(leafF), nil, nil)
		}
		if r.Chance(40) {
			// the inner conflict sits one spread deeper
			nm := fmt.Sprintf("In%d_%d", which, r.Intn(1000))
			d.Definitions = append(d.Definitions, c02Frag(nm, t.Name, c02Set(in)))
			return c02Set(c02Spread(nm))
		}
		return c02Set(in)
	}
	site := func(side string, field *ast.Field, tc string) ast.Selection {
		depth := r.Intn(5)
		var cur ast.Selection = field
		if tc != "" {
			cur = c02Inline(tc, c02Set(field))
		}
		for i := depth; i >= 1; i-- {
			nm := fmt.Sprintf("%s%d", side, i)
			body := []ast.Selection{cur}
			if r.Chance(30) {
				body = append([]ast.Selection{c02Typename()}, body...)
			}
			d.Definitions = append(d.Definitions, c02Frag(nm, cond, c02Set(body...)))
			cur = c02Spread(nm)
		}
		return cur
	}
	tc1, tc2 := "", ""
	if r.Chance(35) {
		// parents that may be mutually exclusive
		objs := []string{}
		for _, t := range xs.Types {
			if t.Kind == "object" && t.Name != "Q" && t.Name != "M" {
				objs = append(objs, t.Name)
			}
		}
		tc1, tc2 = r.Pick(append(objs, "I0")), r.Pick(append(objs, "I0", "U0"))
	}
	s1 := site("Lx", c02Field(key, f1, a1, sub(f1, 0)), tc1)
	s2 := site("Rx", c02Field(key, f2, a2, sub(f2, 1)), tc2)
	if r.Chance(25) {
		// both sites under one pair of equal composite fields: between sub-selection sets
		if len(compF) > 0 {
			w := r.Pick(compF)
			s1 = c02Field("w", w, nil, c02Set(s1))
			s2 = c02Field("w", w, nil, c02Set(s2))
		}
	}
	host.Selections = append(host.Selections, s1, s2)
	return true
}

// c02PlantFlag adds an operation in which two fragments are first compared under mutually
// exclusive parents (two object types of one abstract field, one response key) and then an
// operation in which they are compared strictly; the differing fields sit at a random spread
// depth below them and at a random nesting depth (directly in the fragments, or below a
// common field, so that the second comparison reaches a (field set, fragment) pair the first
// one already recorded).
func c02PlantFlag(r *Rng, d *ast.Document, xs *xSchema, leafF []string) bool {
	var objs []string
	var absField string
	for _, t := range xs.Types {
		if t.Kind == "object" && t.Name != "Q" && t.Name != "M" {
			for _, i := range t.Ifaces {
				if i == "I0" {
					objs = append(objs, t.Name)
				}
			}
		}
	}
	q := xs.typ("Q")
	for _, f := range q.Fields {
		if xs.Pool[f].Type.named() == "I0" {
			absField = f
		}
	}
	var selfField string // a field of Q returning an object type that both implementers also have
	for _, f := range q.Fields {
		tn := xs.Pool[f].Type.named()
		if t := xs.typ(tn); t != nil && t.Kind == "object" {
			selfField = f
		}
	}
	if len(objs) < 2 || absField == "" || len(leafF) < 2 {
		return false
	}
	f1, f2 := leafF[r.Intn(len(leafF))], leafF[r.Intn(len(leafF))]
	if f1 == f2 {
		return false
	}
	pfx := fmt.Sprintf("Mx%d", r.Intn(1000))
	leaf := func(side int) ast.Selection {
		fn := f1
		if side == 1 {
			fn = f2
		}
		var cur ast.Selection = c02Field("kx", fn, nil, nil)
		for i := r.Intn(3); i >= 1; i-- {
			nm := fmt.Sprintf("%sD%d_%d", pfx, side, i)
			d.Definitions = append(d.Definitions, c02Frag(nm, "Q", c02Set(cur)))
			cur = c02Spread(nm)
		}
		return cur
	}
	a, b := leaf(0), leaf(1)
	if selfField != "" && r.Bool() {
		a = c02Field("kw", selfField, nil, c02Set(a))
		b = c02Field("kw", selfField, nil, c02Set(b))
	}
	d.Definitions = append(d.Definitions, c02Frag(pfx+"A", "Q", c02Set(a)), c02Frag(pfx+"B", "Q", c02Set(b)))
	wrap := func(fr string) *ast.SelectionSet {
		if selfField == "" {
			return c02Set(c02Spread(fr))
		}
		return c02Set(c02Field("kv", selfField, nil, c02Set(c02Spread(fr))))
	}
	excl := ast.NewOperationDefinition(&ast.OperationDefinition{Operation: "query", Name: c02Name(pfx + "X"),
		SelectionSet: c02Set(c02Field("", absField, nil, c02Set(
			c02Inline(objs[0], wrap(pfx+"A")), c02Inline(objs[1], wrap(pfx+"B")))))})
	strict := ast.NewOperationDefinition(&ast.OperationDefinition{Operation: "query", Name: c02Name(pfx + "Y"),
		SelectionSet: c02Set(c02Spread(pfx+"A"), c02Spread(pfx+"B"))})
	for _, def := range d.Definitions {
		if op, ok := def.(*ast.OperationDefinition); ok && op.Name == nil {
			op.Name = c02Name(pfx + "Z")
		}
	}
	if r.Bool() {
		d.Definitions = append([]ast.Node{excl, strict}, d.Definitions...)
	} else {
		d.Definitions = append([]ast.Node{strict, excl}, d.Definitions...)
	}
	return true
}

func indexOfSet(n *c02Nodes, ss *ast.SelectionSet) int {
	for i, s := range n.sets {
		if s == ss {
			return i
		}
	}
	return 0
}

// ---- running the implementation ----

type c02Obs struct {
	text  string
	coq   string
	locs  [][]int // per rule 0..24: first locations
	fail  string
	valid bool
}

func c02Offsets(body string) []int {
	starts := []int{0}
	for i := 0; i < len(body); i++ {
		if body[i] == '\n' {
			starts = append(starts, i+1)
		}
	}
	return starts
}

func c02Observe(sc *c02Schema, text string) *c02Obs {
	o := &c02Obs{text: text}
	for _, c := range []byte(text) {
		if c > 126 {
			o.fail = ""
			return nil
		}
	}
	doc, err := parser.Parse(parser.ParseParams{Source: text})
	if err != nil {
		return nil
	}
	// operations first, so that the two-list document of the model keeps the visiting order
	seenFrag := false
	for _, def := range doc.Definitions {
		if def.GetKind() == kinds.FragmentDefinition {
			seenFrag = true
		} else if seenFrag {
			return nil
		}
	}
	t := &c02Term{}
	term := t.doc(doc)
	if t.bad != "" {
		return nil
	}
	rules, bad := c02Rules()
	if bad != "" {
		o.fail = bad
		return o
	}
	starts := c02Offsets(text)
	run := func(rs []graphql.ValidationRuleFn) []int {
		var res graphql.ValidationResult
		if p := guard(func() { res = graphql.ValidateDocument(&sc.built.Schema, doc, rs) }); p != "" {
			o.fail = "ValidateDocument: " + p
			return nil
		}
		if res.IsValid != (len(res.Errors) == 0) {
			o.fail = "IsValid disagrees with the error list"
		}
		out := []int{}
		for _, e := range res.Errors {
			if len(e.Locations) == 0 {
				out = append(out, 16777215)
				continue
			}
			l := e.Locations[0]
			if l.Line < 1 || l.Line > len(starts) {
				out = append(out, 16777214)
				continue
			}
			out = append(out, starts[l.Line-1]+l.Column-1)
		}
		return out
	}
	impl := []string{}
	for i, rl := range rules {
		ls := run([]graphql.ValidationRuleFn{rl})
		o.locs = append(o.locs, ls)
		impl = append(impl, fmt.Sprintf("(%d, %s)", i, c02NList(ls)))
	}
	all := run(nil)
	o.locs = append(o.locs, all)
	o.valid = len(all) == 0
	impl = append(impl, fmt.Sprintf("(24, %s)", c02NList(all)))
	o.coq = "(DocCase " + sc.coq + " " + term + " " + coqList(impl) + ")"
	return o
}

func c02NList(xs []int) string {
	ss := []string{}
	for _, x := range xs {
		ss = append(ss, coqN(x))
	}
	return coqList(ss)
}

func c02Emit(e *Emitter, sc *c02Schema, text, group string, tags []string) bool {
	o := c02Observe(sc, text)
	if o == nil {
		return false
	}
	violated := []string{}
	for i := 0; i < len(o.locs)-1 && i < len(c02RuleNames); i++ {
		if len(o.locs[i]) > 0 {
			violated = append(violated, strings.TrimSuffix(c02RuleNames[i], "Rule"))
		}
	}
	sort.Strings(violated)
	if o.valid {
		tags = append(tags, "accepted")
	} else {
		tags = append(tags, "rejected")
	}
	for _, v := range violated {
		tags = append(tags, "viol-"+v)
	}
	nt := len(violated) == 1 || (o.valid && strings.Contains(text, "...") && (strings.Contains(text, "_1") || strings.Contains(text, "_2")))
	e.Emit(Case{Group: group, Coq: o.coq, Desc: map[string]interface{}{"document": text, "rules_reporting": violated}, NT: nt, Tags: tags, Fail: o.fail})
	return true
}

func c02Print(d *ast.Document) (s string, ok bool) {
	defer func() {
		if recover() != nil {
			ok = false
		}
	}()
	out := printer.Print(d)
	s, ok = out.(string)
	return
}

func genC02(tier string, seed uint64, n int, e *Emitter) {
	if n == 0 {
		n = 300
		if tier == "thorough" {
			n = 2000
		}
	}
	// corpus: the documented finding and its neighbours, on the fixed schema
	fixed := c02Build(c02FixedSchema())
	if fixed == nil {
		e.Emit(Case{Group: "corpus", Fail: "fixed schema does not build"})
		return
	}
	for _, q := range []string{
		"{ x: a ...F } fragment F on Q { ...G } fragment G on Q { x: b }",
		"{ x: a ...F } fragment F on Q { x: b }",
		"{ ...F x: a } fragment F on Q { ...G } fragment G on Q { ...H } fragment H on Q { x: b }",
		"{ o { x: a } o { ...F } } fragment F on Q { ...G } fragment G on Q { x: b }",
		"{ if0 { ... on O0 { x: i } ... on O1 { x: ni } } }",
		"{ if0 { ... on O0 { x: a } ... on O1 { x: b } } }",
		"{ if0 { ... on O0 { x: i } ... on O1 { x: a } } }",
		"{ o { ... { a } ... @include(if: true) { zzz } } }",
		"{ fa(n: 1) fa(n: 2) }",
		"{ a } { b }",
		"query A { a } query A { b }",
		"{ ...F } fragment F on Q { o { ...F } }",
		"{ ...A } fragment A on Q { ...B } fragment B on Q { ...A }",
		// one (field set, fragment) pair compared first under mutually exclusive parents, then under non-exclusive ones
		"query A { if0 { ... on O0 { w: o { ...FA } } ... on O1 { w: o { ...FB } } } } query B { ...FA ...FB } fragment FA on Q { k: o { x: a } } fragment FB on Q { k: o { ...F } } fragment F on Q { x: b }",
		// the same for a pair of fragments
		"query A { if0 { ... on O0 { w: o { ...FA } } ... on O1 { w: o { ...FB } } } } query B { ...FA ...FB } fragment FA on Q { x: a } fragment FB on Q { x: b }",
		"query A { if0 { ... on O0 { w: o { ...FA } } ... on O1 { w: o { ...FB } } } } query B { ...FB ...FA } fragment FA on Q { x: a ...FC } fragment FB on Q { ...FC y: a } fragment FC on Q { y: b }",
		// between the sub-selection sets of two fields with one response key: a direct field of either
		// set against a fragment spread in the other (both orientations), and fragment against fragment
		"{ o { ...F } o { x: a } } fragment F on Q { x: b }",
		"{ o { x: a } o { ...F } } fragment F on Q { x: b }",
		"{ o { ...F } o { ...G } } fragment F on Q { x: a } fragment G on Q { x: b }",
		"{ o { ...F } o { x: a } } fragment F on Q { ...G } fragment G on Q { x: b }",
		"{ o { y: a ...F } o { ...G x: a } } fragment F on Q { ...H } fragment G on Q { y: a } fragment H on Q { x: b }",
		// input objects: duplicates around and inside nested literals
		"{ fa(n: 1) }",
		"{ fg(in1: {x: \"s\", in: {b: 1}, x: \"t\"}) }",
		"{ fg(in1: {in: {b: 1, b: 2}}) }",
		"{ fg(in1: {in: {b: 1}, ins: [{b: 1}, {a: 1, b: 1, a: 2}]}) }",
		"{ fg(in1: {in: {a: 1, b: 2}, x: \"t\", ins: [{b: 1}]}) }",
		"{ fg(in1: {ins: [{b: 1}], x: \"s\", in: {a: 1}, ins: []}) }",
	} {
		c02Emit(e, fixed, q, "corpus", []string{"corpus"})
	}
	c02ListLiterals(e, fixed, tier)
	sweep := 160
	if tier == "thorough" {
		sweep = 1 << 30
	}
	c02Sweep(e, fixed, sweep, seed)
	for i := 0; i < n; i++ {
		r := NewRng(seed+2*7919, uint64(i))
		xs := xGenSchema(r)
		sc := c02Build(xs)
		if sc == nil {
			continue
		}
		o := xGenOpts{DynDirPct: 40, DirPct: 20, FragPct: 22, InlinePct: 15, VarArgPct: 30, MaxDepth: 3, MultiOp: r.Chance(20), Mutation: r.Chance(15)}
		doc, _ := xGenDoc(r, xs, o)
		text := doc.text()
		m := c02Mutations[0]
		if i%5 != 0 {
			m = c02Mutations[1+r.Intn(len(c02Mutations)-1)]
		}
		if m == "none" {
			if !c02Emit(e, sc, text, "generated-valid", []string{"mut-none"}) {
				e.Emit(Case{Group: "generated-valid", Desc: text, Fail: "generated document does not parse"})
			}
			continue
		}
		ad, err := parser.Parse(parser.ParseParams{Source: text})
		if err != nil {
			e.Emit(Case{Group: "generated-valid", Desc: text, Fail: "generated document does not parse"})
			continue
		}
		ok := false
		for try := 0; try < 4 && !ok; try++ {
			ok = c02Mutate(m, r, ad, xs)
			if !ok {
				m = c02Mutations[1+r.Intn(len(c02Mutations)-1)]
			}
		}
		if !ok {
			continue
		}
		// operations before fragments
		var ops, frs []ast.Node
		for _, def := range ad.Definitions {
			if def.GetKind() == kinds.OperationDefinition {
				ops = append(ops, def)
			} else {
				frs = append(frs, def)
			}
		}
		ad.Definitions = append(ops, frs...)
		t2, pok := c02Print(ad)
		if !pok {
			continue
		}
		c02Emit(e, sc, t2, "mutated", []string{"mut-" + m})
	}
}

// c02ListLiterals: variables and literals inside list literals in positions of type [T]!, [T!]!,
// [[T]!] (arguments and input-object fields), directly, inside an input object within the list,
// in an operation, nested under a field and in a fragment: each shape with a wrong-typed
// variable, a nullable variable for a non-null item, an ill-typed literal, and the valid twin.
// TypeInfo has to strip the non-null wrapper of the expected type before descending into a list
// literal; VariablesInAllowedPosition sees the item type only then.
func c02ListLiterals(e *Emitter, sc *c02Schema, tier string) {
	type site struct {
		name string // the field with the list-typed position; %s = the value placed in the item position
		call string
		item string // type of the item position: "Int" or "Int!"
	}
	sites := []site{
		{"arg [Int]!", "fl(ids: [%s])", "Int"},
		{"arg [Int]! second item", "fl(ids: [1, %s])", "Int"},
		{"arg [Int!]!", "fl2(ids: [%s])", "Int!"},
		{"arg [[Int]!]", "fl3(m: [[%s]])", "Int"},
		{"arg [[Int]!] second list", "fl3(m: [[1], [2, %s]])", "Int"},
		{"object in [In2]!: field n", "fl4(ins: [{n: %s, ns: []}])", "Int"},
		{"object in [In2]!: field ns [Int]!", "fl4(ins: [{ns: [%s]}])", "Int"},
		{"object in [In2]!: field nn [Int!]", "fl4(ins: [{ns: [], nn: [%s]}])", "Int!"},
		{"object in [In2]!: field mm [[Int]!]", "fl4(ins: [{ns: [], mm: [[%s]]}])", "Int"},
		{"input field ns [Int]!", "fh(in2: {ns: [%s]})", "Int"},
		{"input field mm [[Int]!]", "fh(in2: {ns: [1], mm: [[%s]]})", "Int"},
	}
	type variant struct {
		tag, vtype, value string // vtype "" = a literal, no variable
	}
	for _, st := range sites {
		vs := []variant{
			{"valid-var", st.item, "$v"},
			{"wrong-typed-var", "String", "$v"},
			{"wrong-typed-list-var", "[Int]", "$v"},
			{"ill-typed-literal", "", "\"x\""},
			{"valid-literal", "", "7"},
		}
		if st.item == "Int!" {
			vs = append(vs, variant{"nullable-var-for-non-null-item", "Int", "$v"})
		} else {
			vs = append(vs, variant{"non-null-var", "Int!", "$v"})
		}
		for _, v := range vs {
			call := fmt.Sprintf(st.call, v.value)
			head := "query A"
			if v.vtype != "" {
				head = "query A($v: " + v.vtype + ")"
			}
			layouts := []string{"operation", "nested-fragment"}
			if tier == "thorough" {
				layouts = []string{"operation", "nested", "fragment", "nested-fragment"}
			}
			for _, layout := range layouts {
				var doc string
				switch layout {
				case "operation":
					doc = head + " { " + call + " }"
				case "nested":
					doc = head + " { o { o { " + call + " } } }"
				case "fragment":
					doc = head + " { ...F } fragment F on Q { " + call + " }"
				default:
					doc = head + " { o { ...F } } fragment F on Q { ...G } fragment G on Q { a " + call + " }"
				}
				c02Emit(e, sc, doc, "list-literals", []string{"list-literal", "ll-" + v.tag, "ll-" + layout})
			}
		}
	}
}

// c02Sweep enumerates small fragment topologies: k <= 4 fragments, each spreading at most
// two later ones, the root spreading at most two, and one pair of fields with the same
// response key placed at every pair of sites (root or a fragment), flat and nested.
func c02Sweep(e *Emitter, sc *c02Schema, limit int, seed uint64) {
	type topo struct {
		k      int
		spread [][]int // spread[0] = root, spread[i] = fragment i
	}
	var topos []topo
	var subsets func(lo, hi int) [][]int
	subsets = func(lo, hi int) [][]int {
		out := [][]int{{}}
		for a := lo; a <= hi; a++ {
			out = append(out, []int{a})
			for b := a + 1; b <= hi; b++ {
				out = append(out, []int{a, b})
			}
		}
		return out
	}
	for k := 1; k <= 4; k++ {
		var rec func(i int, cur [][]int)
		rec = func(i int, cur [][]int) {
			if i > k {
				cp := make([][]int, len(cur))
				copy(cp, cur)
				topos = append(topos, topo{k, cp})
				return
			}
			lo := i + 1
			if i == 0 {
				lo = 1
			}
			for _, s := range subsets(lo, k) {
				if i == 0 && len(s) == 0 {
					continue
				}
				rec(i+1, append(cur, s))
			}
		}
		rec(0, nil)
	}
	pairs := [][2]string{{"x: a", "x: b"}, {"x: fa(n: 1)", "x: fa(n: 2)"}, {"x: a", "x: a"}}
	count := 0
	idx := 0
	r := NewRng(seed+99, 0)
	for _, t := range topos {
		for s1 := 0; s1 <= t.k; s1++ {
			for s2 := s1; s2 <= t.k; s2++ {
				for _, nested := range []int{0, 1, 2, 3} {
					idx++
					if limit < 1<<29 && r.Intn(40) != 0 {
						continue
					}
					if count >= limit {
						return
					}
					p := pairs[idx%len(pairs)]
					body := func(i int) string {
						var sb strings.Builder
						if i == s1 {
							sb.WriteString(" " + p[0])
						}
						if i == s2 {
							sb.WriteString(" " + p[1])
						}
						for _, g := range t.spread[i] {
							sb.WriteString(fmt.Sprintf(" ...F%d", g))
						}
						if sb.Len() == 0 {
							sb.WriteString(" __typename")
						}
						return sb.String()
					}
					var sb strings.Builder
					switch nested {
					case 1:
						sb.WriteString("{ o {" + body(0) + " } }")
					case 2:
						// the root's content split over two fields with one response key
						left, right := "", ""
						if s1 == 0 {
							left += " " + p[0]
						}
						if s2 == 0 {
							right += " " + p[1]
						}
						for gi, g := range t.spread[0] {
							if gi%2 == 0 {
								left += fmt.Sprintf(" ...F%d", g)
							} else {
								right += fmt.Sprintf(" ...F%d", g)
							}
						}
						if left == "" {
							left = " __typename"
						}
						if right == "" {
							right = " __typename"
						}
						sb.WriteString("{ o {" + left + " } o {" + right + " } }")
					case 3:
						// the same split, mirrored: the second field's set holds the first member
						left, right := "", ""
						if s1 == 0 {
							right += " " + p[0]
						}
						if s2 == 0 {
							left += " " + p[1]
						}
						for gi, g := range t.spread[0] {
							if gi%2 == 0 {
								right += fmt.Sprintf(" ...F%d", g)
							} else {
								left += fmt.Sprintf(" ...F%d", g)
							}
						}
						if left == "" {
							left = " __typename"
						}
						if right == "" {
							right = " __typename"
						}
						sb.WriteString("{ o {" + left + " } o {" + right + " } }")
					default:
						sb.WriteString("{" + body(0) + " }")
					}
					for i := 1; i <= t.k; i++ {
						sb.WriteString(fmt.Sprintf(" fragment F%d on Q {%s }", i, body(i)))
					}
					if c02Emit(e, sc, sb.String(), "topology", []string{"topology", fmt.Sprintf("frags-%d", t.k)}) {
						count++
					}
				}
			}
		}
	}
}
