package main

// Case generators of the execution family: C01, C04, C05, C13, C20 (and the path
// clause of C18) share schema/document generators and the recording runner; they
// differ in the input distribution and in the projection the Coq runner judges.

import (
	"strings"
)

func init() {
	props["C01"] = func(tier string, seed uint64, n int, e *Emitter) { xGenProp("C01", 1, tier, seed, n, e) }
	props["C04"] = func(tier string, seed uint64, n int, e *Emitter) {
		xGenProp("C04", 4, tier, seed, n, e)
		c04Direct(tier, seed, e)
	}
	props["C05"] = func(tier string, seed uint64, n int, e *Emitter) { xGenProp("C05", 5, tier, seed, n, e) }
	props["C13"] = func(tier string, seed uint64, n int, e *Emitter) {
		xGenProp("C13", 13, tier, seed, n, e)
		c13Direct(tier, seed, e)
	}
	props["C20"] = func(tier string, seed uint64, n int, e *Emitter) { xGenProp("C20", 20, tier, seed, n, e) }
}

func xGenProp(prop string, kind int, tier string, seed uint64, n int, e *Emitter) {
	xGenPropWrap(prop, kind, tier, seed, n, e, nil)
}

// wrap, when given, turns the xcase term into the case type of another runner
func xGenPropWrap(prop string, kind int, tier string, seed uint64, n int, e *Emitter, wrap func(string) string) {
	if n == 0 {
		n = 300
		if tier == "thorough" {
			n = 6000
		}
	}
	invalid := 0
	for i := 0; i < n; i++ {
		r := NewRng(seed+uint64(kind)*7919, uint64(i))
		s := xGenSchema(r)
		o := xGenOpts{DynDirPct: 60, DirPct: 25, FragPct: 15, InlinePct: 12, VarArgPct: 25, MaxDepth: 3, MultiOp: r.Chance(25), ReusePct: 15}
		pol := xPolicy{Null: 8, Err: 5, ValErr: 2, Panic: 2, Thunk: 8, Adversarial: 2, BadType: 1}
		switch prop {
		case "C04":
			pol = xPolicy{Null: 10, Err: 8, ValErr: 5, Panic: 6, Thunk: 10, Adversarial: 25, BadType: 8}
			o.DirPct = 10
		case "C05":
			o.VarArgPct = 60
			o.BadInputPct = 40
			o.NestedVarPct = 55
			o.OobIntPct = 4
			o.OmitVarPct = 45
			o.DirPct = 8
			pol = xPolicy{Null: 3, Err: 1, Thunk: 2}
		case "C13":
			o.Mutation = true
			o.MultiOp = r.Chance(35) // the executed mutation is then not the only (nor always the last) definition
			pol = xPolicy{Null: 5, Err: 5, ValErr: 2, Panic: 2, Thunk: 40, Adversarial: 2}
		case "C18":
			pol = xPolicy{Null: 8, Err: 12, ValErr: 4, Panic: 4, Thunk: 10, Adversarial: 15, BadType: 5}
		case "C20":
			o.DirPct = 20
			pol = xPolicy{Null: 5, Err: 3, Thunk: 10, Adversarial: 1}
		}
		doc, g := xGenDoc(r, s, o)
		text := doc.text()
		op := ""
		opIdx := 0
		if len(doc.Ops) > 1 {
			opIdx = r.Intn(len(doc.Ops))
			if prop == "C13" {
				opIdx = 0 // operation A is the mutation under test; B (query or mutation) follows it
			}
			op = doc.Ops[opIdx].Name
		} else if doc.Ops[0].Name != "" && r.Bool() {
			op = doc.Ops[0].Name
		}
		inputs := g.inputs(doc.Ops[opIdx])
		entry := []string{"do", "execute", "plan"}[i%3]
		rq := &xRequest{s: s, doc: doc, text: text, op: op, inputs: inputs, pol: pol, seed: seed*1000003 + uint64(i), entry: entry, kind: kind}
		if entry == "plan" {
			rq.moreInputs = []map[string]interface{}{g.inputs(doc.Ops[opIdx]), g.inputs(doc.Ops[opIdx])}
		}
		for _, obs := range xRun(rq) {
			if obs.invalid && g.expectInvalid {
				// deliberately invalid (Int literal outside 32 bits): rejection is the conforming answer
				e.Emit(Case{Group: prop + "-rejected-by-validation", Desc: obs.desc, NT: true, Tags: []string{"oob-int-literal", "rejected"}})
				continue
			}
			if obs.invalid {
				invalid++
				e.Emit(Case{Group: "generator-invalid", Desc: obs.desc, Tags: []string{"generator-invalid"}, Fail: strings.Join(obs.fails, "; ")})
				continue
			}
			tags := append([]string{"entry-" + entry}, obs.tags...)
			if g.expectInvalid {
				tags = append(tags, "oob-int-literal-accepted")
			}
			if strings.Contains(text, "...") {
				tags = append(tags, "fragments")
			}
			if strings.Contains(text, "(if: $") {
				tags = append(tags, "variable-directive")
			}
			if strings.Contains(text, "@") {
				tags = append(tags, "directive")
			}
			if len(doc.Ops) > 1 {
				tags = append(tags, "multi-op")
			}
			if doc.Ops[opIdx].Kind == "mutation" {
				tags = append(tags, "mutation")
			}
			nt := strings.Contains(text, "...") || strings.Contains(text, "@") || strings.Contains(text, "_1") || strings.Contains(text, "_2")
			if wrap != nil {
				obs.coq = wrap(obs.coq)
			}
			c := Case{Group: prop + "-request", Coq: obs.coq, Desc: obs.desc, NT: nt && obs.nCalls > 0, Tags: tags}
			if len(obs.fails) > 0 {
				c.Fail = strings.Join(obs.fails, "; ")
			}
			e.Emit(c)
		}
	}
}
