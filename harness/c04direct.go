package main

// C04, direct observation (no model): deferred values as list ITEMS are not in Exec/Exec.v, so the
// conformance of a response built from item-level deferral is observed directly.  Queries over the
// self-recursive Node schema of c13direct.go, whose resolvers defer values, items, lists and leaves
// (a deferred value may defer again): the response must be exactly the response of the same request
// over the twin schema that defers nothing -- same keys, every leaf the serialised Int, every list a
// list, nothing left unforced -- and carry no errors.

import (
	"context"
	"encoding/json"
	"fmt"
	"strings"

	"github.com/graphql-go/graphql"
)

// unforced reports the path of a value that is not a legal response value (a Go func left in data, ...)
func c04Unforced(v interface{}, path string) string {
	switch x := v.(type) {
	case nil, int, string, bool, float64:
		return ""
	case map[string]interface{}:
		for k, w := range x {
			if s := c04Unforced(w, path+"."+k); s != "" {
				return s
			}
		}
		return ""
	case []interface{}:
		for i, w := range x {
			if s := c04Unforced(w, fmt.Sprintf("%s[%d]", path, i)); s != "" {
				return s
			}
		}
		return ""
	default:
		return fmt.Sprintf("%s holds a %T", path, v)
	}
}

func c04Direct(tier string, seed uint64, e *Emitter) {
	n := 60
	if tier == "thorough" {
		n = 1500
	}
	var cur *c13Trial
	var tseed uint64
	plain := false
	schema := c13SchemaOpt(&cur, &tseed, &plain)
	for i := 0; i < n; i++ {
		r := NewRng(seed+977, uint64(i))
		tseed = seed*104729 + uint64(i)
		k := 1 + r.Intn(3)
		var sb strings.Builder
		sb.WriteString("query Q {")
		for j := 0; j < k; j++ {
			switch r.Intn(4) {
			case 0:
				fmt.Fprintf(&sb, " t%d: num", j)
			case 1:
				fmt.Fprintf(&sb, " t%d: one %s", j, c13Sel(r, 2))
			default:
				fmt.Fprintf(&sb, " t%d: many %s", j, c13Sel(r, 2))
			}
		}
		sb.WriteString(" }")
		text := sb.String()
		entry := []string{"do", "execute", "plan"}[i%3]
		run := func(entry string) (*graphql.Result, string) {
			var res *graphql.Result
			fail := guard(func() {
				switch entry {
				case "do":
					res = graphql.Do(graphql.Params{Schema: schema, RequestString: text, Context: context.Background()})
				case "execute":
					res = graphql.Execute(graphql.ExecuteParams{Schema: schema, AST: c15Parse(text), Context: context.Background()})
				default:
					plan, err := graphql.PlanQuery(&schema, c15Parse(text), "")
					if err != nil {
						panic(err)
					}
					res = graphql.ExecutePlan(plan, graphql.ExecuteParams{Schema: schema, Context: context.Background()})
				}
			})
			return res, fail
		}
		t := &c13Trial{r: r}
		cur = t
		plain = false
		res, fail := run(entry)
		t.mu.Lock()
		deferred := 0
		for _, ev := range t.ev {
			if strings.Contains(ev, ":force") {
				deferred++
			}
		}
		t.mu.Unlock()
		cur = &c13Trial{r: r}
		plain = true
		want, fail2 := run("do")
		plain = false
		got, exp := "", ""
		switch {
		case fail != "":
		case fail2 != "":
			fail = "twin without deferral: " + fail2
		case res == nil || len(res.Errors) > 0:
			fail = fmt.Sprint("unexpected result: ", res)
		case want == nil || len(want.Errors) > 0:
			fail = fmt.Sprint("unexpected result of the twin without deferral: ", want)
		default:
			if s := c04Unforced(res.Data, "data"); s != "" {
				fail = "response is not a legal value: " + s
			} else {
				gb, err1 := json.Marshal(res.Data)
				wb, err2 := json.Marshal(want.Data)
				got, exp = string(gb), string(wb)
				if err1 != nil || err2 != nil {
					fail = fmt.Sprint("response cannot be serialised: ", err1, err2)
				} else if got != exp {
					fail = "response built from deferred values differs from the response of the same resolvers without deferral"
				}
			}
		}
		desc := map[string]interface{}{"document": text, "entry": entry, "deferred_forced": deferred}
		if fail != "" {
			desc["got"], desc["want"] = got, exp
		}
		e.Emit(Case{Group: "C04-direct-deferred-items", Desc: desc, NT: deferred > 0 && strings.Contains(text, "kids"),
			Tags: []string{"direct-conformance", "entry-" + entry, "item-thunks"}, Fail: fail})
	}
}
