package main

// C07: concurrent use of one schema / plan / plan cache under the race detector.
//
// The race detector needs a -race build, so this generator writes a small driver program (module
// with a `replace` to $VERIF_REPO) into ../.work/c07-driver-<pid>, runs it with `go run -race`
// and turns its per-trial reports into cases.  Every trial builds a cold schema (nothing lazily
// initialised yet), prepares one shared plan and one shared cache, computes the sequential
// baseline on a second cold schema, then releases N goroutines from a barrier, each issuing a
// seeded sequence of Do / PlanCache.Get + ExecutePlan / ExecutePlan on the shared plan / Reset /
// HitsMisses over queries that touch enums, unions, interfaces and nested abstract fields.

import (
	"bufio"
	"crypto/sha256"
	"encoding/hex"
	"encoding/json"
	"fmt"
	"os"
	"os/exec"
	"path/filepath"
	"regexp"
	"strings"
	"time"
)

func init() { props["C07"] = genC07 }

type c07Report struct {
	Trial      int      `json:"trial"`
	Seed       uint64   `json:"seed"`
	N          int      `json:"n"`
	Procs      int      `json:"procs"`
	Ops        [][]int  `json:"ops"`     // per goroutine: request kinds issued
	Summary    [][]int  `json:"summary"` // per goroutine: summary operations (ids into Locks.lib_ops) those requests perform
	Mismatch   string   `json:"mismatch,omitempty"`
	Panic      string   `json:"panic,omitempty"`
	Deadlock   bool     `json:"deadlock,omitempty"`
	SharedCold int      `json:"shared_cold"` // goroutines that touched a lazily initialised slot of the shared plan for the first time together
	Queries    []string `json:"queries,omitempty"`
}

func genC07(tier string, seed uint64, n int, e *Emitter) {
	trials := 60
	if tier == "thorough" {
		trials = 2000
	}
	if n > 0 {
		trials = n
	}
	repo := os.Getenv("VERIF_REPO")
	if repo == "" {
		repo = "/repo"
	}
	// the static scan runs while the driver is built and run (cached per source state)
	scanCh := make(chan c07ScanResult, 1)
	go func() { scanCh <- c07ScanCached(repo) }()
	work, _ := filepath.Abs(filepath.Join("..", ".work", fmt.Sprintf("c07-driver-%d", os.Getpid())))
	if err := os.MkdirAll(work, 0o755); err != nil {
		fmt.Fprintln(os.Stderr, "c07: cannot create", work, err)
		os.Exit(2)
	}
	defer os.RemoveAll(work)
	gomod := "module c07driver\n\ngo 1.21\n\nrequire github.com/graphql-go/graphql v0.0.0\n\nreplace github.com/graphql-go/graphql => " + repo + "\n"
	os.WriteFile(filepath.Join(work, "go.mod"), []byte(gomod), 0o644)
	os.WriteFile(filepath.Join(work, "main.go"), []byte(c07DriverSource), 0o644)

	bin := filepath.Join(work, "c07driver")
	build := exec.Command("go", "build", "-race", "-o", bin, ".")
	build.Dir = work
	build.Env = append(os.Environ(), "GOFLAGS=-mod=mod", "CGO_ENABLED=1")
	if out, err := build.CombinedOutput(); err != nil {
		fmt.Fprintf(os.Stderr, "c07: go build -race of the driver failed: %v\n%s\n", err, out)
		os.Exit(2)
	}
	scan := <-scanCh
	diffs, unclassified := c07Compare(scan)
	if k := len(unclassified); k > 0 && n == 0 {
		if k > 3 {
			k = 3
		}
		trials *= 1 + k // writes the scan could not classify are only covered dynamically: more trials
	}
	{
		fail := ""
		if scan.Err != "" {
			// the scan itself did not work: nothing can be said statically; listed, not a failure of the library
			unclassified = append(unclassified, c07Site{Field: "scan", Func: scan.Err})
		} else if len(diffs) > 0 {
			fail = "the access summary (Conc/Locks.v) no longer describes the code: " + strings.Join(diffs, "; ")
		}
		tags := []string{"summary-scan", fmt.Sprintf("unclassified-sites=%d", len(unclassified))}
		e.Emit(Case{Coq: c07SummaryTerm(), Group: "summary", Fail: fail, Tags: tags,
			Desc: map[string]interface{}{"reachable_functions": scan.Reachable, "write_sites": scan.Sites, "unclassified": unclassified, "differences": diffs}})
	}
	run := exec.Command(bin, fmt.Sprint(seed), fmt.Sprint(trials), tier)
	run.Dir = work
	run.Env = append(os.Environ(), "GORACE=halt_on_error=0 exitcode=0")
	stdout, _ := run.StdoutPipe()
	var stderr strings.Builder
	run.Stderr = &stderr
	if err := run.Start(); err != nil {
		fmt.Fprintln(os.Stderr, "c07: cannot start the driver:", err)
		os.Exit(2)
	}
	var reports []c07Report
	sc := bufio.NewScanner(stdout)
	sc.Buffer(make([]byte, 1<<20), 1<<26)
	for sc.Scan() {
		line := sc.Text()
		if !strings.HasPrefix(line, "{") {
			continue
		}
		var r c07Report
		if err := json.Unmarshal([]byte(line), &r); err == nil {
			reports = append(reports, r)
		}
	}
	done := make(chan error, 1)
	go func() { done <- run.Wait() }()
	var runErr error
	select {
	case runErr = <-done:
	case <-time.After(20 * time.Minute):
		run.Process.Kill()
		runErr = fmt.Errorf("driver did not finish")
	}

	// race reports go to stderr, where the driver also writes a "C07-TRIAL k" marker before every trial
	raceByTrial := map[int]string{}
	{
		cur := -1
		for _, block := range strings.Split(stderr.String(), "==================") {
			if strings.Contains(block, "WARNING: DATA RACE") {
				if _, ok := raceByTrial[cur]; !ok {
					raceByTrial[cur] = c07Trim(block)
				}
			}
			for _, m := range regexp.MustCompile(`C07-TRIAL (\d+)`).FindAllStringSubmatch(block, -1) {
				fmt.Sscanf(m[1], "%d", &cur)
			}
		}
	}
	fatal := ""
	if runErr != nil {
		fatal = fmt.Sprintf("driver exited abnormally: %v\n%s", runErr, c07Tail(stderr.String(), 3000))
	}
	for _, r := range reports {
		fail := ""
		raced := false
		if blk, ok := raceByTrial[r.Trial]; ok {
			raced = true
			fail = fmt.Sprintf("data race (trial %d, seed %d, %d goroutines): %s", r.Trial, r.Seed, r.N, blk)
		} else if r.Panic != "" {
			fail = fmt.Sprintf("panic (trial %d, seed %d): %s", r.Trial, r.Seed, r.Panic)
		} else if r.Deadlock {
			fail = fmt.Sprintf("deadlock: trial %d (seed %d, %d goroutines) did not finish within the watchdog", r.Trial, r.Seed, r.N)
		} else if r.Mismatch != "" {
			fail = fmt.Sprintf("response differs from the sequential baseline (trial %d, seed %d): %s", r.Trial, r.Seed, r.Mismatch)
		}
		progs := make([]string, len(r.Summary))
		for i, p := range r.Summary {
			ids := make([]string, len(p))
			for j, k := range p {
				ids[j] = coqN(k)
			}
			progs[i] = coqList(ids)
		}
		tags := []string{fmt.Sprintf("goroutines=%d", r.N), fmt.Sprintf("gomaxprocs=%d", r.Procs)}
		if r.SharedCold >= 2 {
			tags = append(tags, "cold-slot-shared")
		}
		e.Emit(Case{
			Coq:   fmt.Sprintf("RaceCase %s %s %s", coqList(progs), coqBool(raced), coqBool(r.Mismatch == "")),
			Desc:  r,
			NT:    r.SharedCold >= 2,
			Tags:  tags,
			Group: "race-trial",
			Fail:  fail,
		})
	}
	if fatal != "" || len(reports) < trials {
		if fatal == "" {
			fatal = fmt.Sprintf("driver reported %d of %d trials\n%s", len(reports), trials, c07Tail(stderr.String(), 3000))
		}
		if _, ok := raceByTrial[-1]; ok {
			fatal += "\n" + raceByTrial[-1]
		}
		e.Emit(Case{Desc: map[string]interface{}{"driver": "aborted", "after_trials": len(reports)}, Group: "driver", Fail: "fatal error / crash of the concurrent driver: " + fatal, Tags: []string{"driver-died"}})
	}
}

// c07ScanCached keeps the scan result per state of the library's sources (the scan type-checks the
// standard library from source, which takes several seconds).
func c07ScanCached(repo string) c07ScanResult {
	h := sha256.New()
	files, _ := filepath.Glob(filepath.Join(repo, "*.go"))
	for _, f := range files {
		if strings.HasSuffix(f, "_test.go") {
			continue
		}
		b, _ := os.ReadFile(f)
		h.Write([]byte(f))
		h.Write(b)
	}
	self, _ := os.ReadFile("c07scan.go")
	h.Write(self)
	cache, _ := filepath.Abs(filepath.Join("..", ".work", "c07scan-"+hex.EncodeToString(h.Sum(nil)[:8])+".json"))
	if b, err := os.ReadFile(cache); err == nil {
		var r c07ScanResult
		if json.Unmarshal(b, &r) == nil && r.Err == "" {
			return r
		}
	}
	r := c07Scan(repo)
	if r.Err == "" {
		if b, err := json.Marshal(r); err == nil {
			os.WriteFile(cache, b, 0o644)
		}
	}
	return r
}

func c07Tail(s string, n int) string {
	if len(s) > n {
		return s[len(s)-n:]
	}
	return s
}

// keep the frames of a race report, drop addresses and goroutine ids (they differ from run to run)
func c07Trim(block string) string {
	var sb strings.Builder
	lines := 0
	for _, l := range strings.Split(block, "\n") {
		t := strings.TrimSpace(l)
		if t == "" {
			continue
		}
		if strings.Contains(t, "graphql") || strings.HasPrefix(t, "WARNING") || strings.HasPrefix(t, "Previous") || strings.HasPrefix(t, "Read at") || strings.HasPrefix(t, "Write at") {
			sb.WriteString(t)
			sb.WriteString(" | ")
			lines++
		}
		if lines > 14 {
			break
		}
	}
	return sb.String()
}

const c07DriverSource = `package main

import (
	"context"
	"encoding/json"
	"fmt"
	"os"
	"runtime"
	"strconv"
	"sync"
	"sync/atomic"
	"time"

	"github.com/graphql-go/graphql"
	"github.com/graphql-go/graphql/language/parser"
	"github.com/graphql-go/graphql/language/source"
)

type rng struct{ s uint64 }

func (r *rng) next() uint64 {
	r.s += 0x9E3779B97F4A7C15
	z := r.s
	z = (z ^ (z >> 30)) * 0xBF58476D1CE4E5B9
	z = (z ^ (z >> 27)) * 0x94D049BB133111EB
	return z ^ (z >> 31)
}
func (r *rng) intn(n int) int { return int(r.next() % uint64(n)) }

type pet struct {
	Kind   string
	Name   string
	Mood   string
	Friend *pet
}

var rex = &pet{Kind: "Dog", Name: "Rex", Mood: "HAPPY"}
var tom = &pet{Kind: "Cat", Name: "Tom", Mood: "GRUMPY"}
var bob = &pet{Kind: "Dog", Name: "Bob", Mood: "SLEEPY"}

func init() { rex.Friend = tom; tom.Friend = bob; bob.Friend = rex }

type owner struct {
	Name string
	Pet  *pet
}

// a cold schema: every type is created anew, nothing has been used yet
func buildSchema() graphql.Schema {
	mood := graphql.NewEnum(graphql.EnumConfig{Name: "Mood", Values: graphql.EnumValueConfigMap{
		"HAPPY": &graphql.EnumValueConfig{Value: "HAPPY"}, "GRUMPY": &graphql.EnumValueConfig{Value: "GRUMPY"}, "SLEEPY": &graphql.EnumValueConfig{Value: "SLEEPY"}}})
	var dog, cat *graphql.Object
	petI := graphql.NewInterface(graphql.InterfaceConfig{Name: "Pet",
		Fields: graphql.FieldsThunk(func() graphql.Fields {
			return graphql.Fields{"name": &graphql.Field{Type: graphql.String}, "mood": &graphql.Field{Type: mood}}
		}),
		ResolveType: func(p graphql.ResolveTypeParams) *graphql.Object {
			if p.Value.(*pet).Kind == "Dog" {
				return dog
			}
			return cat
		}})
	// Dog implements Node with a covariant field (twin: Dog for twin: Node): checking that implementation
	// makes schema construction consult the possible-type table once, as real schemas do
	var node *graphql.Interface
	node = graphql.NewInterface(graphql.InterfaceConfig{Name: "Node",
		Fields:      graphql.FieldsThunk(func() graphql.Fields { return graphql.Fields{"twin": &graphql.Field{Type: node}} }),
		ResolveType: func(p graphql.ResolveTypeParams) *graphql.Object { return dog }})
	petFields := func(extra string) graphql.FieldsThunk {
		return func() graphql.Fields {
			return graphql.Fields{
				"name":   &graphql.Field{Type: graphql.String, Resolve: func(p graphql.ResolveParams) (interface{}, error) { return p.Source.(*pet).Name, nil }},
				"mood":   &graphql.Field{Type: mood, Resolve: func(p graphql.ResolveParams) (interface{}, error) { return p.Source.(*pet).Mood, nil }},
				"friend": &graphql.Field{Type: petI, Resolve: func(p graphql.ResolveParams) (interface{}, error) { return p.Source.(*pet).Friend, nil }},
				extra:    &graphql.Field{Type: graphql.Int, Resolve: func(p graphql.ResolveParams) (interface{}, error) { return len(p.Source.(*pet).Name), nil }},
			}
		}
	}
	dog = graphql.NewObject(graphql.ObjectConfig{Name: "Dog", Interfaces: graphql.InterfacesThunk(func() []*graphql.Interface { return []*graphql.Interface{petI, node} }),
		Fields: graphql.FieldsThunk(func() graphql.Fields {
			fs := petFields("barks")()
			fs["twin"] = &graphql.Field{Type: dog, Resolve: func(p graphql.ResolveParams) (interface{}, error) { return p.Source, nil }}
			return fs
		})})
	cat = graphql.NewObject(graphql.ObjectConfig{Name: "Cat", Interfaces: graphql.InterfacesThunk(func() []*graphql.Interface { return []*graphql.Interface{petI} }), Fields: petFields("lives")})
	own := graphql.NewObject(graphql.ObjectConfig{Name: "Owner", Fields: graphql.FieldsThunk(func() graphql.Fields {
		return graphql.Fields{
			"name": &graphql.Field{Type: graphql.String, Resolve: func(p graphql.ResolveParams) (interface{}, error) { return p.Source.(*owner).Name, nil }},
			"pet":  &graphql.Field{Type: petI, Resolve: func(p graphql.ResolveParams) (interface{}, error) { return p.Source.(*owner).Pet, nil }},
		}
	})})
	any := graphql.NewUnion(graphql.UnionConfig{Name: "Any", Types: []*graphql.Object{dog, cat, own},
		ResolveType: func(p graphql.ResolveTypeParams) *graphql.Object {
			switch v := p.Value.(type) {
			case *pet:
				if v.Kind == "Dog" {
					return dog
				}
				return cat
			}
			return own
		}})
	filter := graphql.NewInputObject(graphql.InputObjectConfig{Name: "Filter", Fields: graphql.InputObjectConfigFieldMapThunk(func() graphql.InputObjectConfigFieldMap {
		return graphql.InputObjectConfigFieldMap{"mood": &graphql.InputObjectFieldConfig{Type: mood}, "min": &graphql.InputObjectFieldConfig{Type: graphql.Int, DefaultValue: 0}}
	})})
	pets := []*pet{rex, tom, bob}
	q := graphql.NewObject(graphql.ObjectConfig{Name: "Query", Fields: graphql.Fields{
		"pets":   &graphql.Field{Type: graphql.NewList(petI), Resolve: func(p graphql.ResolveParams) (interface{}, error) { return pets, nil }},
		"search": &graphql.Field{Type: graphql.NewList(any), Resolve: func(p graphql.ResolveParams) (interface{}, error) { return []interface{}{rex, &owner{"Ann", tom}, tom, &owner{"Joe", bob}}, nil }},
		"owner":  &graphql.Field{Type: own, Resolve: func(p graphql.ResolveParams) (interface{}, error) { return &owner{"Ann", rex}, nil }},
		"byMood": &graphql.Field{Type: graphql.NewList(petI), Args: graphql.FieldConfigArgument{"m": &graphql.ArgumentConfig{Type: mood}, "f": &graphql.ArgumentConfig{Type: filter}},
			Resolve: func(p graphql.ResolveParams) (interface{}, error) {
				want, _ := p.Args["m"].(string)
				if f, ok := p.Args["f"].(map[string]interface{}); ok {
					if m, ok := f["mood"].(string); ok {
						want = m
					}
				}
				out := []*pet{}
				for _, x := range pets {
					if want == "" || x.Mood == want {
						out = append(out, x)
					}
				}
				return out, nil
			}},
	}})
	s, err := graphql.NewSchema(graphql.SchemaConfig{Query: q, Types: []graphql.Type{dog, cat, own, any}})
	if err != nil {
		panic(err)
	}
	return s
}

type request struct {
	query string
	vars  map[string]interface{}
	// summary operations (ids into Locks.lib_ops) a request over this query performs at request time
	summary []int
}

// ids: 0 enum serialize, 1 enum parse, 2 IsPossibleType, 3 Object.Fields, 4 Object.Interfaces, 5 Interface.Fields,
// 6 Union.Types, 7 InputObject.Fields, 8 schema lookup, 9 abstractAlternative, 10 collectAtRuntime,
// 11 cache lookup, 12 cache store, 13 cache reset, 14 HitsMisses
var requests = []request{
	{"{ pets { __typename name mood ... on Dog { barks } ... on Cat { lives } } }", nil, []int{8, 3, 5, 2, 9, 0}},
	{"{ search { __typename ... on Dog { name mood } ... on Cat { name lives } ... on Owner { name pet { name ... on Dog { mood barks } } } } }", nil, []int{8, 3, 6, 2, 9, 9, 0}},
	{"{ owner { name pet { name friend { name mood friend { __typename name ... on Cat { lives } ... on Dog { barks } } } } } }", nil, []int{8, 3, 5, 2, 9, 9, 9, 0}},
	{"{ byMood(m: GRUMPY) { name mood } }", nil, []int{8, 3, 1, 2, 9, 0}},
	{"query Q($m: Mood) { byMood(m: $m) { name mood friend { mood } } }", map[string]interface{}{"m": "HAPPY"}, []int{8, 3, 1, 2, 9, 9, 0}},
	{"query Q($f: Filter) { byMood(f: $f) { name ... on Dog { barks } } }", map[string]interface{}{"f": map[string]interface{}{"mood": "SLEEPY"}}, []int{8, 3, 7, 1, 2, 9, 0}},
	{"query Q($s: Boolean!) { pets { name mood @skip(if: $s) ... on Dog @include(if: $s) { barks } friend @include(if: $s) { name } } }", map[string]interface{}{"s": true}, []int{8, 3, 10, 2, 9, 10, 9, 0}},
	{"{ pets { ...P friend { ...P friend { ...P } } } } fragment P on Pet { name mood ... on Cat { lives } }", nil, []int{8, 3, 5, 2, 9, 9, 9, 0}},
	// literal siblings: same text up to literal argument values, hence ONE key of a normalising cache; each
	// request must still be executed with its own literals when several of them miss the cold key together
	{"{ byMood(m: HAPPY) { name mood } }", nil, []int{8, 3, 1, 2, 9, 0}},
	{"{ byMood(m: SLEEPY) { name mood } }", nil, []int{8, 3, 1, 2, 9, 0}},
	{"{ byMood(f: {mood: GRUMPY, min: 1}) { name ... on Dog { barks } } }", nil, []int{8, 3, 7, 1, 2, 9, 0}},
	{"{ byMood(f: {mood: HAPPY, min: 2}) { name ... on Dog { barks } } }", nil, []int{8, 3, 7, 1, 2, 9, 0}},
	{"{ byMood(f: {mood: SLEEPY, min: 3}) { name ... on Dog { barks } } }", nil, []int{8, 3, 7, 1, 2, 9, 0}},
	{"{ pets { nope } }", nil, []int{8, 3, 5}},
}

// families of requests that share one normalised cache key
var families = [][]int{{3, 9, 10}, {11, 12, 13}}

func familyOf(qi int) []int {
	for _, f := range families {
		for _, x := range f {
			if x == qi {
				return f
			}
		}
	}
	return nil
}

func sameFamily(a, b int) bool {
	if a == b {
		return true
	}
	for _, x := range familyOf(a) {
		if x == b {
			return true
		}
	}
	return false
}

func js(r *graphql.Result) string {
	b, err := json.Marshal(r)
	if err != nil {
		return "unmarshalable: " + err.Error()
	}
	return string(b)
}

// request kinds: 0 Do, 1 cache.Get + ExecutePlan, 2 ExecutePlan on the shared prepared plan, 3 cache.Reset, 4 HitsMisses
func issue(kind int, rq request, schema *graphql.Schema, cache *graphql.PlanCache, shared map[int]*graphql.Plan, qi int) (string, []int) {
	switch kind {
	case 0:
		return js(graphql.Do(graphql.Params{Schema: *schema, RequestString: rq.query, VariableValues: rq.vars, Context: context.Background()})), rq.summary
	case 1:
		pr := cache.Get(schema, rq.query, "")
		sum := append([]int{11, 12}, rq.summary...)
		if pr.Plan == nil {
			return js(&graphql.Result{Errors: pr.Errors}), sum
		}
		args := map[string]interface{}{}
		for k, v := range rq.vars {
			args[k] = v
		}
		for k, v := range pr.SynthArgs { // literals the normalising cache turned into variables
			args[k] = v
		}
		return js(graphql.ExecutePlan(pr.Plan, graphql.ExecuteParams{Schema: *schema, Args: args, Context: context.Background()})), sum
	case 2:
		p := shared[qi]
		if p == nil {
			return "no shared plan", nil
		}
		return js(graphql.ExecutePlan(p, graphql.ExecuteParams{Schema: *schema, Args: rq.vars, Context: context.Background()})), rq.summary
	case 3:
		cache.Reset()
		return "reset", []int{13}
	default:
		cache.HitsMisses()
		return "hm", []int{14}
	}
}

type report struct {
	Trial      int      ` + "`json:\"trial\"`" + `
	Seed       uint64   ` + "`json:\"seed\"`" + `
	N          int      ` + "`json:\"n\"`" + `
	Procs      int      ` + "`json:\"procs\"`" + `
	Ops        [][]int  ` + "`json:\"ops\"`" + `
	Summary    [][]int  ` + "`json:\"summary\"`" + `
	Mismatch   string   ` + "`json:\"mismatch,omitempty\"`" + `
	Panic      string   ` + "`json:\"panic,omitempty\"`" + `
	Deadlock   bool     ` + "`json:\"deadlock,omitempty\"`" + `
	SharedCold int      ` + "`json:\"shared_cold\"`" + `
}

func sharedPlans(schema *graphql.Schema) map[int]*graphql.Plan {
	out := map[int]*graphql.Plan{}
	for i, rq := range requests {
		doc, err := parser.Parse(parser.ParseParams{Source: source.NewSource(&source.Source{Body: []byte(rq.query), Name: "GraphQL request"})})
		if err != nil {
			continue
		}
		if i == len(requests)-1 {
			continue // the invalid request has no plan; the others are valid and are planned WITHOUT validating,
			// so that preparing the shared plans does not warm the schema (validation calls IsPossibleType etc.)
		}
		if p, err := graphql.PlanQuery(schema, doc, ""); err == nil {
			out[i] = p
		}
	}
	return out
}

// sequential baseline on its own schema: every request run alone (computed once per driver run)
var baselineOnce map[[2]int]string

func baseline() map[[2]int]string {
	if baselineOnce != nil {
		return baselineOnce
	}
	base := buildSchema()
	baseCache := graphql.NewPlanCache(graphql.PlanCacheOptions{MaxEntries: 4})
	basePlans := sharedPlans(&base)
	expect := map[[2]int]string{}
	for kind := 0; kind <= 2; kind++ {
		for qi, rq := range requests {
			out, _ := issue(kind, rq, &base, baseCache, basePlans, qi)
			expect[[2]int{kind, qi}] = out
		}
	}
	baselineOnce = expect
	return expect
}

func trial(k int, seed uint64, tier string) report {
	r := &rng{s: seed*0x9E3779B97F4A7C15 + uint64(k)*0xBF58476D1CE4E5B9 + 7}
	r.next()
	ns := []int{2, 4, 16}
	n := ns[r.intn(3)]
	procs := runtime.NumCPU()
	if tier == "thorough" {
		procs = []int{1, 2, 4, runtime.NumCPU()}[r.intn(4)]
	}
	if procs < 2 && r.intn(2) == 0 {
		procs = 2
	}
	runtime.GOMAXPROCS(procs)
	rep := report{Trial: k, Seed: seed, N: n, Procs: procs}

	// the programme of every goroutine
	type op struct{ kind, qi int }
	progs := make([][]op, n)
	firstQ := r.intn(len(requests) - 1) // most goroutines start on the same cold query
	if r.intn(3) == 0 {
		firstQ = families[r.intn(len(families))][0] // ... or on literal siblings of one normalised key
	}
	for g := range progs {
		m := 2 + r.intn(4)
		for j := 0; j < m; j++ {
			o := op{kind: r.intn(10), qi: r.intn(len(requests))}
			switch {
			case o.kind <= 2:
				o.kind = 0
			case o.kind <= 5:
				o.kind = 1
			case o.kind <= 7:
				o.kind = 2
			case o.kind == 8:
				o.kind = 3
			default:
				o.kind = 4
			}
			if j == 0 && r.intn(4) != 0 {
				o.qi = firstQ
				if o.kind > 2 {
					o.kind = 2
				}
				if fam := familyOf(firstQ); fam != nil { // siblings meet on the cold key through the cache
					o.qi = fam[r.intn(len(fam))]
					if r.intn(4) != 0 {
						o.kind = 1
					}
				}
			}
			if o.kind == 2 && o.qi == len(requests)-1 {
				o.qi = firstQ
			}
			progs[g] = append(progs[g], o)
		}
	}
	expect := baseline()

	schema := buildSchema() // cold: shared by all goroutines of this trial
	cache := graphql.NewPlanCache(graphql.PlanCacheOptions{MaxEntries: 4, Normalize: r.intn(2) == 0})
	shared := sharedPlans(&schema)

	start := make(chan struct{})
	var wg sync.WaitGroup
	var mu sync.Mutex
	var cold int32
	rep.Ops = make([][]int, n)
	rep.Summary = make([][]int, n)
	for g := 0; g < n; g++ {
		wg.Add(1)
		go func(g int) {
			defer wg.Done()
			defer func() {
				if x := recover(); x != nil {
					mu.Lock()
					rep.Panic = fmt.Sprintf("goroutine %d: %v", g, x)
					mu.Unlock()
				}
			}()
			<-start
			for j, o := range progs[g] {
				if j == 0 && sameFamily(o.qi, firstQ) {
					atomic.AddInt32(&cold, 1)
				}
				out, sum := issue(o.kind, requests[o.qi], &schema, cache, shared, o.qi)
				mu.Lock()
				rep.Ops[g] = append(rep.Ops[g], o.kind*100+o.qi)
				rep.Summary[g] = append(rep.Summary[g], sum...)
				if o.kind <= 2 {
					if want := expect[[2]int{o.kind, o.qi}]; out != want && rep.Mismatch == "" {
						rep.Mismatch = fmt.Sprintf("goroutine %d, request kind %d, query %q: got %s, alone %s", g, o.kind, requests[o.qi].query, out, want)
					}
				}
				mu.Unlock()
			}
		}(g)
	}
	fin := make(chan struct{})
	go func() { wg.Wait(); close(fin) }()
	close(start)
	select {
	case <-fin:
	case <-time.After(60 * time.Second):
		rep.Deadlock = true
	}
	rep.SharedCold = int(atomic.LoadInt32(&cold))
	return rep
}

func main() {
	seed, _ := strconv.ParseUint(os.Args[1], 10, 64)
	trials, _ := strconv.Atoi(os.Args[2])
	tier := os.Args[3]
	for k := 0; k < trials; k++ {
		fmt.Fprintf(os.Stderr, "C07-TRIAL %d\n", k)
		rep := trial(k, seed, tier)
		b, _ := json.Marshal(rep)
		fmt.Println(string(b))
		if rep.Deadlock {
			os.Exit(3)
		}
	}
}
`
