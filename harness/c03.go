package main

// C03: the parser accepts exactly the grammar and builds its AST.
// Every case runs parser.Parse (NoLocation: false) or lexer.Lex on a byte string and hands
// what the implementation returned to the Coq side (Run/C03run.v) as a kind/field/value tree.

import (
	"bytes"
	"fmt"
	"os"
	"path/filepath"
	"strings"

	"github.com/graphql-go/graphql/language/ast"
	"github.com/graphql-go/graphql/language/lexer"
	"github.com/graphql-go/graphql/language/parser"
	"github.com/graphql-go/graphql/language/source"
)

func init() { props["C03"] = genC03 }

// ---------------------------------------------------------------- Go AST -> Gallina term

func c03G(tag int, atom string, loc *ast.Location, kids ...string) string {
	st, en := 0, 0
	if loc != nil {
		st, en = loc.Start, loc.End
	}
	return fmt.Sprintf("Gs %d %s %d %d %s", tag, coqHex([]byte(atom)), st, en, coqList(kids))
}
func c03P(s string) string { return "(" + s + ")" }

const c03None = "(Gs 0 \"\" 0 0 [])"

func c03List(kids []string) string { return c03P("Gs 1 \"\" 0 0 " + coqList(kids)) }

func c03Name(n *ast.Name) string {
	if n == nil {
		return c03None
	}
	return c03P(c03G(2, n.Value, n.Loc))
}
func c03Named(n *ast.Named) string {
	if n == nil {
		return c03None
	}
	return c03P(c03G(3, "", n.Loc, c03Name(n.Name)))
}
func c03Type(t ast.Type) string {
	switch t := t.(type) {
	case *ast.Named:
		return c03Named(t)
	case *ast.List:
		if t == nil {
			return c03None
		}
		return c03P(c03G(4, "", t.Loc, c03Type(t.Type)))
	case *ast.NonNull:
		if t == nil {
			return c03None
		}
		return c03P(c03G(5, "", t.Loc, c03Type(t.Type)))
	case nil:
		return c03None
	}
	return c03P(c03G(99, fmt.Sprintf("%T", t), nil))
}
func c03Value(v ast.Value) string {
	switch v := v.(type) {
	case nil:
		return c03None
	case *ast.Variable:
		if v == nil {
			return c03None
		}
		return c03P(c03G(6, "", v.Loc, c03Name(v.Name)))
	case *ast.IntValue:
		return c03P(c03G(7, v.Value, v.Loc))
	case *ast.FloatValue:
		return c03P(c03G(8, v.Value, v.Loc))
	case *ast.StringValue:
		if v == nil {
			return c03None
		}
		return c03P(c03G(9, v.Value, v.Loc))
	case *ast.BooleanValue:
		a := "\x00"
		if v.Value {
			a = "\x01"
		}
		return c03P(c03G(10, a, v.Loc))
	case *ast.EnumValue:
		return c03P(c03G(11, v.Value, v.Loc))
	case *ast.ListValue:
		ks := []string{}
		for _, x := range v.Values {
			ks = append(ks, c03Value(x))
		}
		return c03P(c03G(12, "", v.Loc, ks...))
	case *ast.ObjectValue:
		ks := []string{}
		for _, f := range v.Fields {
			ks = append(ks, c03P(c03G(14, "", f.Loc, c03Name(f.Name), c03Value(f.Value))))
		}
		return c03P(c03G(13, "", v.Loc, ks...))
	}
	return c03P(c03G(99, fmt.Sprintf("%T", v), nil))
}
// c03DescrEmptyAsNone: C08 treats an empty description and an absent one as the same AST (DESIGN Appendix A)
var c03DescrEmptyAsNone = false

func c03Descr(d *ast.StringValue) string {
	if d == nil || (c03DescrEmptyAsNone && d.Value == "") {
		return c03None
	}
	return c03P(c03G(9, d.Value, d.Loc))
}
func c03Args(as []*ast.Argument) string {
	ks := []string{}
	for _, a := range as {
		ks = append(ks, c03P(c03G(15, "", a.Loc, c03Name(a.Name), c03Value(a.Value))))
	}
	return c03List(ks)
}
func c03Dirs(ds []*ast.Directive) string {
	ks := []string{}
	for _, d := range ds {
		ks = append(ks, c03P(c03G(16, "", d.Loc, c03Name(d.Name), c03Args(d.Arguments))))
	}
	return c03List(ks)
}
func c03SelSet(ss *ast.SelectionSet) string {
	if ss == nil {
		return c03None
	}
	ks := []string{}
	for _, s := range ss.Selections {
		switch s := s.(type) {
		case *ast.Field:
			ks = append(ks, c03P(c03G(17, "", s.Loc, c03Name(s.Alias), c03Name(s.Name), c03Args(s.Arguments), c03Dirs(s.Directives), c03SelSet(s.SelectionSet))))
		case *ast.FragmentSpread:
			ks = append(ks, c03P(c03G(18, "", s.Loc, c03Name(s.Name), c03Dirs(s.Directives))))
		case *ast.InlineFragment:
			ks = append(ks, c03P(c03G(19, "", s.Loc, c03Named(s.TypeCondition), c03Dirs(s.Directives), c03SelSet(s.SelectionSet))))
		default:
			ks = append(ks, c03P(c03G(99, fmt.Sprintf("%T", s), nil)))
		}
	}
	return c03P(c03G(20, "", ss.Loc, ks...))
}
func c03IVDefs(is []*ast.InputValueDefinition) string {
	ks := []string{}
	for _, i := range is {
		ks = append(ks, c03P(c03G(24, "", i.Loc, c03Descr(i.Description), c03Name(i.Name), c03Type(i.Type), c03Value(i.DefaultValue), c03Dirs(i.Directives))))
	}
	return c03List(ks)
}
func c03FieldDefs(fs []*ast.FieldDefinition) string {
	ks := []string{}
	for _, f := range fs {
		ks = append(ks, c03P(c03G(25, "", f.Loc, c03Descr(f.Description), c03Name(f.Name), c03IVDefs(f.Arguments), c03Type(f.Type), c03Dirs(f.Directives))))
	}
	return c03List(ks)
}
func c03ObjDef(o *ast.ObjectDefinition) string {
	if o == nil {
		return c03None
	}
	ifs := []string{}
	for _, n := range o.Interfaces {
		ifs = append(ifs, c03Named(n))
	}
	return c03P(c03G(28, "", o.Loc, c03Descr(o.Description), c03Name(o.Name), c03List(ifs), c03Dirs(o.Directives), c03FieldDefs(o.Fields)))
}
func c03Def(n ast.Node) string {
	switch d := n.(type) {
	case *ast.OperationDefinition:
		vds := []string{}
		for _, v := range d.VariableDefinitions {
			vds = append(vds, c03P(c03G(21, "", v.Loc, c03Value(v.Variable), c03Type(v.Type), c03Value(v.DefaultValue))))
		}
		return c03P(c03G(22, d.Operation, d.Loc, c03Name(d.Name), c03List(vds), c03Dirs(d.Directives), c03SelSet(d.SelectionSet)))
	case *ast.FragmentDefinition:
		return c03P(c03G(23, "", d.Loc, c03Name(d.Name), c03Named(d.TypeCondition), c03Dirs(d.Directives), c03SelSet(d.SelectionSet)))
	case *ast.SchemaDefinition:
		ots := []string{}
		for _, o := range d.OperationTypes {
			ots = append(ots, c03P(c03G(27, o.Operation, o.Loc, c03Named(o.Type))))
		}
		return c03P(c03G(26, "", d.Loc, c03Dirs(d.Directives), c03List(ots)))
	case *ast.ScalarDefinition:
		return c03P(c03G(29, "", d.Loc, c03Descr(d.Description), c03Name(d.Name), c03Dirs(d.Directives)))
	case *ast.ObjectDefinition:
		return c03ObjDef(d)
	case *ast.InterfaceDefinition:
		return c03P(c03G(30, "", d.Loc, c03Descr(d.Description), c03Name(d.Name), c03Dirs(d.Directives), c03FieldDefs(d.Fields)))
	case *ast.UnionDefinition:
		ts := []string{}
		for _, t := range d.Types {
			ts = append(ts, c03Named(t))
		}
		return c03P(c03G(31, "", d.Loc, c03Descr(d.Description), c03Name(d.Name), c03Dirs(d.Directives), c03List(ts)))
	case *ast.EnumDefinition:
		vs := []string{}
		for _, v := range d.Values {
			vs = append(vs, c03P(c03G(33, "", v.Loc, c03Descr(v.Description), c03Name(v.Name), c03Dirs(v.Directives))))
		}
		return c03P(c03G(32, "", d.Loc, c03Descr(d.Description), c03Name(d.Name), c03Dirs(d.Directives), c03List(vs)))
	case *ast.InputObjectDefinition:
		return c03P(c03G(34, "", d.Loc, c03Descr(d.Description), c03Name(d.Name), c03Dirs(d.Directives), c03IVDefs(d.Fields)))
	case *ast.TypeExtensionDefinition:
		return c03P(c03G(35, "", d.Loc, c03ObjDef(d.Definition)))
	case *ast.DirectiveDefinition:
		ls := []string{}
		for _, l := range d.Locations {
			ls = append(ls, c03Name(l))
		}
		return c03P(c03G(36, "", d.Loc, c03Descr(d.Description), c03Name(d.Name), c03IVDefs(d.Arguments), c03List(ls)))
	}
	return c03P(c03G(99, fmt.Sprintf("%T", n), nil))
}
func c03Doc(d *ast.Document) string {
	ks := []string{}
	for _, n := range d.Definitions {
		ks = append(ks, c03Def(n))
	}
	return c03P(c03G(37, "", d.Loc, ks...))
}

// ---------------------------------------------------------------- running the implementation

func c03Tags(src []byte, tags []string) []string {
	if hasMultibyte(src) {
		tags = append(tags, "multibyte")
	}
	if bytes.Contains(src, []byte("\xef\xbb\xbf")) {
		tags = append(tags, "bom")
	}
	if bytes.Contains(src, []byte("\r")) {
		tags = append(tags, "cr")
	}
	if bytes.Contains(src, []byte(`"""`)) {
		tags = append(tags, "blockstring")
	}
	return tags
}

func c03Show(b []byte) string {
	if len(b) > 400 {
		return fmt.Sprintf("%q…(%d bytes)", b[:400], len(b))
	}
	return fmt.Sprintf("%q", b)
}

// c03Parse runs parser.Parse on a private copy of src and returns the term for the AST (ok=false: syntax error).
func c03Parse(src []byte) (term string, ok bool, unchanged bool, panicked string) {
	body := append([]byte(nil), src...)
	var doc *ast.Document
	var err error
	panicked = guard(func() {
		doc, err = parser.Parse(parser.ParseParams{Source: &source.Source{Body: body, Name: "c03"}, Options: parser.ParseOptions{NoLocation: false}})
	})
	unchanged = bytes.Equal(body, src)
	if panicked != "" {
		return "", false, unchanged, panicked
	}
	if err != nil || doc == nil {
		return "", false, unchanged, ""
	}
	return c03Doc(doc), true, unchanged, ""
}

func c03EmitParse(e *Emitter, group string, src []byte, tags []string, nt bool) {
	term, ok, unchanged, pm := c03Parse(src)
	c := Case{Group: group, NT: nt || ok, Tags: c03Tags(src, tags)}
	desc := map[string]interface{}{"source": c03Show(src)}
	if pm != "" {
		c.Fail = "parser.Parse: " + pm
		c.Desc = desc
		e.Emit(c)
		return
	}
	if ok {
		c.Tags = append(c.Tags, "accept")
		desc["impl"] = "parsed"
	} else {
		c.Tags = append(c.Tags, "reject")
		desc["impl"] = "syntax error"
	}
	if !unchanged {
		desc["source_after_parse"] = "differs"
	}
	c.Desc = desc
	c.Coq = fmt.Sprintf("ParseCase %s %s %s", coqHex(src), coqBool(unchanged), coqOpt(term, ok))
	e.Emit(c)
}

// c03Lex reads all tokens the way the parser does: each call resumes at the End of the previous token.
func c03Lex(src []byte) (toks []lexer.Token, ok bool, panicked string) {
	body := append([]byte(nil), src...)
	ok = true
	panicked = guard(func() {
		lx := lexer.Lex(&source.Source{Body: body, Name: "c03"})
		pos := 0
		for i := 0; i <= len(body)+1; i++ {
			t, err := lx(pos)
			if err != nil {
				ok = false
				return
			}
			toks = append(toks, t)
			if t.Kind == lexer.EOF {
				return
			}
			pos = t.End
			if pos == 0 {
				ok = false // cannot resume at 0 (means "previous position"); never happens for a non-EOF token
				return
			}
		}
	})
	return
}

func c03EmitLex(e *Emitter, group string, src []byte, tags []string, nt bool) {
	toks, ok, pm := c03Lex(src)
	c := Case{Group: group, NT: nt || (ok && len(toks) > 1), Tags: c03Tags(src, tags)}
	desc := map[string]interface{}{"source": c03Show(src)}
	c.Desc = desc
	if pm != "" {
		c.Fail = "lexer.Lex: " + pm
		e.Emit(c)
		return
	}
	ts := []string{}
	for _, t := range toks {
		ts = append(ts, fmt.Sprintf("(%d, %s)", int(t.Kind), coqHex([]byte(t.Value))))
	}
	if ok {
		c.Tags = append(c.Tags, "accept")
		desc["impl_tokens"] = len(toks)
	} else {
		c.Tags = append(c.Tags, "reject")
		desc["impl"] = "lexing error"
	}
	c.Coq = fmt.Sprintf("LexCase %s %s", coqHex(src), coqOpt(coqList(ts), ok))
	e.Emit(c)
}

// ---------------------------------------------------------------- (b) enumerated token sequences

// The alphabet is also written in Run/C03run.v (enum_alphabet); an index list is rendered with single spaces.
var c03Alphabet = []string{
	"!", "$", "(", ")", "...", ":", "=", "@", "[", "]", "{", "|", "}", "&",
	"query", "mutation", "subscription", "fragment", "on", "true", "false", "null", "schema", "scalar", "type",
	"interface", "union", "enum", "input", "extend", "directive", "implements",
	"foo", "1", "1.5", "\"s\"", "\"\"\"b\"\"\"", "\"on\"", "\"implements\"",
}

// the smaller alphabet used for the longest sequences of the thorough tier
var c03AlphabetSmall = []int{0, 1, 2, 3, 4, 5, 6, 7, 8, 9, 10, 11, 12, 13, 14, 17, 18, 19, 21, 22, 24, 26, 29, 31, 32, 33, 35, 37}

// one case = all sequences prefix ++ [k], k ranging over the alphabet (full or reduced)
func c03EmitEnumBatch(e *Emitter, prefix []int, alphabet []int, small bool) {
	ns := make([]string, len(prefix))
	parts := make([]string, len(prefix)+1)
	for i, k := range prefix {
		ns[i] = coqN(k)
		parts[i] = c03Alphabet[k]
	}
	acc := []string{}
	accepted := []string{}
	unchangedAll := true
	c := Case{Group: "enum", Tags: []string{fmt.Sprintf("len%d", len(prefix)+1)}}
	for _, k := range alphabet {
		parts[len(prefix)] = c03Alphabet[k]
		src := []byte(strings.Join(parts, " "))
		term, ok, unchanged, pm := c03Parse(src)
		if pm != "" {
			c.Fail = "parser.Parse(" + string(src) + "): " + pm
		}
		if !unchanged {
			unchangedAll = false
		}
		if ok {
			acc = append(acc, fmt.Sprintf("(%d, %s)", k, term))
			accepted = append(accepted, string(src))
		}
	}
	c.NT = len(acc) > 0
	if c.NT {
		c.Tags = append(c.Tags, "accept")
	} else {
		c.Tags = append(c.Tags, "reject")
	}
	parts[len(prefix)] = "<each of the alphabet>"
	c.Desc = map[string]interface{}{"sources": strings.Join(parts, " "), "strings": len(alphabet), "accepted": accepted}
	if c.Fail == "" {
		c.Coq = fmt.Sprintf("EnumBatch %s %s %s %s", coqList(ns), coqBool(small), coqBool(unchangedAll), coqList(acc))
	}
	e.Emit(c)
}

func c03Enumerate(e *Emitter, alphabet []int, length int, small bool) {
	idx := make([]int, length-1)
	var rec func(i int)
	rec = func(i int) {
		if i == length-1 {
			c03EmitEnumBatch(e, idx, alphabet, small)
			return
		}
		for _, k := range alphabet {
			idx[i] = k
			rec(i + 1)
		}
	}
	rec(0)
}

// ---------------------------------------------------------------- (c) grammar-generated documents

type c03Gen struct {
	r    *Rng
	toks []string
}

func (g *c03Gen) t(s ...string) { g.toks = append(g.toks, s...) }

var c03Names = []string{"a", "b", "foo", "Bar", "_x1", "T", "Int", "String", "id", "type", "query", "fragment", "input", "enum", "extend", "schema", "implements", "directive", "mutation", "x9_"}

func (g *c03Gen) name() string {
	if g.r.Chance(6) {
		return g.r.Pick([]string{"on", "true", "false", "null"})
	}
	return g.r.Pick(c03Names)
}
func (g *c03Gen) plainName() string { return g.r.Pick(c03Names) }

var c03Ints = []string{"0", "-0", "1", "12", "-7", "2147483648", "9007199254740993"}
var c03Floats = []string{"1.5", "0.0e-0", "1e10", "-1.25E+3", "0.5", "-0.0", "3E2", "1.0e+0", "1e0", "2.5e0"}
var c03Strings = []string{`"a"`, `""`, `"hello world"`, `"\n\t\\\"\/\b\f\r"`, `"\u00e9"`, `"\u0041\uD83D"`, `"é😀"`, `"#not, a comment"`, `"\u000a"`, `" sp "`, `"on"`}
var c03Blocks = []string{`"""b"""`, `""""""`, "\"\"\"\n  x\n    y\n  \"\"\"", `""" \""" q """`, "\"\"\"a\r\n  b\r  c\n d\"\"\"", "\"\"\"\n\n  é\n \n  z\n\n\"\"\"", `"""a "" b"""`, "\"\"\"abc\n   def\n  g\"\"\"", `"""\n\u0041 \ """`, "\"\"\"\tt\n\t\tu\"\"\""}

func (g *c03Gen) value(depth int, isConst bool) {
	k := g.r.Intn(10)
	if depth <= 0 && k >= 8 {
		k = g.r.Intn(8)
	}
	switch k {
	case 0:
		if isConst {
			g.t(g.r.Pick(c03Ints))
		} else {
			g.t("$", g.plainName())
		}
	case 1:
		g.t(g.r.Pick(c03Ints))
	case 2:
		g.t(g.r.Pick(c03Floats))
	case 3:
		g.t(g.r.Pick(c03Strings))
	case 4:
		g.t(g.r.Pick(c03Blocks))
	case 5:
		g.t(g.r.Pick([]string{"true", "false"}))
	case 6, 7:
		g.t(g.plainName()) // enum
	case 8:
		g.t("[")
		for i, n := 0, g.r.Intn(3); i < n; i++ {
			g.value(depth-1, isConst)
		}
		g.t("]")
	case 9:
		g.t("{")
		for i, n := 0, g.r.Intn(3); i < n; i++ {
			g.t(g.name(), ":")
			g.value(depth-1, isConst)
		}
		g.t("}")
	}
}
func (g *c03Gen) typ(depth int) {
	if depth > 0 && g.r.Chance(35) {
		g.t("[")
		g.typ(depth - 1)
		g.t("]")
	} else {
		g.t(g.name())
	}
	if g.r.Chance(30) {
		g.t("!")
	}
}
func (g *c03Gen) arguments(isConst bool) {
	if g.r.Chance(60) {
		return
	}
	g.t("(")
	for i, n := 0, 1+g.r.Intn(2); i < n; i++ {
		g.t(g.name(), ":")
		g.value(2, isConst)
	}
	g.t(")")
}
func (g *c03Gen) directives(isConst bool) {
	for g.r.Chance(20) {
		g.t("@", g.name())
		g.arguments(isConst)
	}
}
func (g *c03Gen) selectionSet(depth int) {
	g.t("{")
	for i, n := 0, 1+g.r.Intn(3); i < n; i++ {
		switch k := g.r.Intn(10); {
		case k < 6:
			if g.r.Chance(25) {
				g.t(g.name(), ":")
			}
			g.t(g.name())
			g.arguments(false)
			g.directives(false)
			if depth > 0 && g.r.Chance(35) {
				g.selectionSet(depth - 1)
			}
		case k < 8 || depth <= 0:
			g.t("...", g.plainName())
			g.directives(false)
		default:
			g.t("...")
			if g.r.Chance(70) {
				g.t("on", g.name())
			}
			g.directives(false)
			g.selectionSet(depth - 1)
		}
	}
	g.t("}")
}
func (g *c03Gen) operation() {
	if g.r.Chance(25) {
		g.selectionSet(2)
		return
	}
	g.t(g.r.Pick([]string{"query", "mutation", "subscription"}))
	if g.r.Chance(60) {
		g.t(g.name())
	}
	if g.r.Chance(40) {
		g.t("(")
		for i, n := 0, 1+g.r.Intn(2); i < n; i++ {
			g.t("$", g.name(), ":")
			g.typ(2)
			if g.r.Chance(40) {
				g.t("=")
				g.value(2, true)
			}
		}
		g.t(")")
	}
	g.directives(false)
	g.selectionSet(2)
}
func (g *c03Gen) fragment() {
	g.t("fragment", g.plainName(), "on", g.name())
	g.directives(false)
	g.selectionSet(2)
}
func (g *c03Gen) description() {
	if g.r.Chance(30) {
		if g.r.Bool() {
			g.t(g.r.Pick(c03Strings))
		} else {
			g.t(g.r.Pick(c03Blocks))
		}
	}
}
func (g *c03Gen) inputValue() {
	g.description()
	g.t(g.name(), ":")
	g.typ(2)
	if g.r.Chance(30) {
		g.t("=")
		g.value(2, true)
	}
	g.directives(true)
}
func (g *c03Gen) argDefs() {
	if g.r.Chance(30) {
		g.t("(")
		for i, n := 0, 1+g.r.Intn(2); i < n; i++ {
			g.inputValue()
		}
		g.t(")")
	}
}
func (g *c03Gen) fieldDefs() {
	g.t("{")
	for i, n := 0, g.r.Intn(3); i < n; i++ {
		g.description()
		g.t(g.name())
		g.argDefs()
		g.t(":")
		g.typ(2)
		g.directives(true)
	}
	g.t("}")
}
func (g *c03Gen) objectDef() {
	g.description()
	g.t("type", g.name())
	if g.r.Chance(40) {
		g.t("implements")
		if g.r.Chance(30) {
			g.t("&")
		}
		g.t(g.name())
		for g.r.Chance(40) {
			g.t("&", g.name())
		}
	}
	g.directives(true)
	g.fieldDefs()
}
func (g *c03Gen) typeSystem() {
	switch g.r.Intn(9) {
	case 0:
		g.t("schema")
		g.directives(true)
		g.t("{")
		for i, n := 0, 1+g.r.Intn(2); i < n; i++ {
			g.t(g.r.Pick([]string{"query", "mutation", "subscription"}), ":", g.name())
		}
		g.t("}")
	case 1:
		g.description()
		g.t("scalar", g.name())
		g.directives(true)
	case 2:
		g.objectDef()
	case 3:
		g.description()
		g.t("interface", g.name())
		g.directives(true)
		g.fieldDefs()
	case 4:
		g.description()
		g.t("union", g.name())
		g.directives(true)
		g.t("=", g.name())
		for g.r.Chance(50) {
			g.t("|", g.name())
		}
	case 5:
		g.description()
		g.t("enum", g.name())
		g.directives(true)
		g.t("{")
		for i, n := 0, g.r.Intn(3); i < n; i++ {
			g.description()
			g.t(g.name())
			g.directives(true)
		}
		g.t("}")
	case 6:
		g.description()
		g.t("input", g.name())
		g.directives(true)
		g.t("{")
		for i, n := 0, g.r.Intn(3); i < n; i++ {
			g.inputValue()
		}
		g.t("}")
	case 7:
		g.t("extend")
		g.objectDef()
	case 8:
		g.description()
		g.t("directive", "@", g.name())
		g.argDefs()
		g.t("on", g.name())
		for g.r.Chance(50) {
			g.t("|", g.name())
		}
	}
}

// document: 1..3 definitions, at most about 60 tokens
func c03GenDoc(r *Rng) (toks []string, sdl bool) {
	for try := 0; ; try++ {
		g := &c03Gen{r: r}
		n := 1 + r.Intn(3)
		sdl = false
		for i := 0; i < n && len(g.toks) < 45; i++ {
			switch k := r.Intn(10); {
			case k < 4:
				g.operation()
			case k < 6:
				g.fragment()
			default:
				g.typeSystem()
				sdl = true
			}
		}
		if len(g.toks) <= 60 || try > 20 {
			return g.toks, sdl
		}
	}
}

func c03Wordy(t string) bool {
	c := t[0]
	return c == '_' || c == '-' || (c >= '0' && c <= '9') || (c >= 'a' && c <= 'z') || (c >= 'A' && c <= 'Z')
}

var c03Seps = []string{" ", " ", " ", "\n", ",", "\r\n", "\r", "\t", "  ", " # c\n", "#\n", ", ,"}
var c03SepsMB = []string{"\ufeff", "#é\n", " #😀 x\r\n", "\ufeff ", "# \xff\xc3\n", "#\u2028\n"}

func c03Render(r *Rng, toks []string, multibyte bool) []byte {
	var sb bytes.Buffer
	sep := func(required bool) {
		if !required && r.Chance(35) {
			return
		}
		if multibyte && r.Chance(30) {
			sb.WriteString(r.Pick(c03SepsMB))
			if required {
				sb.WriteString(" ")
			}
			return
		}
		sb.WriteString(r.Pick(c03Seps))
	}
	if r.Chance(20) {
		sep(false)
	}
	for i, t := range toks {
		if i > 0 {
			p := toks[i-1]
			// a separator is required unless one side is a one-character punctuator
			need := !(len(p) == 1 && !c03Wordy(p)) && !(len(t) == 1 && !c03Wordy(t))
			if p[0] == '"' && t[0] == '"' {
				need = true
			}
			sep(need)
		}
		sb.WriteString(t)
	}
	if r.Chance(30) {
		sep(false)
	}
	return sb.Bytes()
}

var c03MutToks = []string{"!", "$", "(", ")", "...", ":", "=", "@", "[", "]", "{", "|", "}", "&", "on", "null", "true", "x", "1", "\"s\"", "type", "query", "fragment", "implements", "extend", "1.5", "\"\"\"b\"\"\""}
var c03MutBytes = []string{"\"", "\\", "\x00", "\x07", "\x1f", "\x7f", "\x80", "\xc3", "\xe2\x82", "\xf0\x9f\x98", "é", "😀", "\ufeff", "#", ".", "..", "-", "+", "e", "0", "\r", "\n", "\\u", "\\\"\"\"", "\"\"\"", "'", "%", "~", "?", "`", "^", "*", "<", ";", "\t", "\v", "\f"}

func c03MutateToks(r *Rng, toks []string) ([]string, string) {
	out := append([]string(nil), toks...)
	if len(out) == 0 {
		return out, "none"
	}
	i := r.Intn(len(out))
	switch r.Intn(5) {
	case 0:
		out = append(out[:i], append([]string{r.Pick(c03MutToks)}, out[i:]...)...)
		return out, "tok-insert"
	case 1:
		out = append(out[:i], out[i+1:]...)
		return out, "tok-delete"
	case 2:
		if i+1 < len(out) {
			out[i], out[i+1] = out[i+1], out[i]
		}
		return out, "tok-swap"
	case 3:
		out[i] = r.Pick(c03MutToks)
		return out, "tok-replace"
	default:
		out = append(out[:i], append([]string{out[i]}, out[i:]...)...)
		return out, "tok-dup"
	}
}

func c03MutateBytes(r *Rng, src []byte) ([]byte, string) {
	out := append([]byte(nil), src...)
	if len(out) == 0 {
		return []byte(r.Pick(c03MutBytes)), "byte-insert"
	}
	i := r.Intn(len(out))
	switch r.Intn(4) {
	case 0:
		out[i] = byte(r.Intn(256))
		return out, "byte-flip"
	case 1:
		out = append(out[:i], out[i+1:]...)
		return out, "byte-delete"
	case 2:
		ins := []byte(r.Pick(c03MutBytes))
		out = append(out[:i], append(ins, out[i:]...)...)
		return out, "byte-insert"
	default:
		return out[:i], "truncate"
	}
}

// ---------------------------------------------------------------- (d) lexical stress

func c03LexStress(e *Emitter, tier string, seed uint64) {
	wrap := func(lit string) []byte { return []byte("{a(x:" + lit + ")}") }
	// every two-character escape \x, inside a string and inside a block string
	for c := 0; c < 256; c++ {
		lit := "\"p\\" + string([]byte{byte(c)}) + "q\""
		c03EmitParse(e, "escape", wrap(lit), []string{"escape"}, true)
		if c%8 == 0 {
			c03EmitLex(e, "escape", []byte("\"\"\"p\\"+string([]byte{byte(c)})+"q\"\"\""), []string{"escape"}, true)
		}
	}
	// \uXXXX forms
	for _, u := range []string{`\u0041`, `\u00e9`, `\uFFFF`, `\uffff`, `\u0000`, `\u001f`, `\uD800`, `\uDFFF`, `\ud83d\ude00`, `\u12`, `\u`, `\u123`, `\u123g`, `\uG123`, `\u 123`, `\u00é9`, `\u12345`, `\U0041`, `\u+041`, `\u-041`} {
		c03EmitParse(e, "escape", wrap("\""+u+"\""), []string{"unicode-escape"}, true)
		c03EmitLex(e, "escape", []byte("\""+u), []string{"unicode-escape", "unterminated"}, true)
	}
	// numeric edge forms
	for _, n := range []string{"0", "-0", "00", "01", "-01", "1.", ".5", "1e", "1e+", "1E-", "1.e3", "0.0e-0", "-", "--1", "+1", "1.5.5", "1e5e5", "1e5.5", "0x1F", "1_000", "1a", "1.5a", "0e0", "-0.0E+0", "123456789012345678901234567890", "1.0e999", "٣", "1.٣", "0 1", "1-1", "1...2", "-a", "1.e", "1e1.", "08", "0.", "0e", "0.e1"} {
		c03EmitParse(e, "number", wrap(n), []string{"number"}, true)
		c03EmitLex(e, "number", []byte(n), []string{"number"}, true)
		c03EmitLex(e, "number", []byte("["+n+"]"), []string{"number"}, true)
	}
	// string edge forms
	for _, s := range []string{`"`, `"a`, `"a\`, `"a\"`, "\"a\nb\"", "\"a\rb\"", "\"a\tb\"", "\"a\x00b\"", "\"a\x1fb\"", "\"a\x7fb\"", "\"\xff\"", "\"\xc3\"", "\"\xe2\x82\"", "\"\xed\xa0\x80\"", "\"\xf4\x90\x80\x80\"", "\"\xc0\xaf\"", "\"\ufeff\"", `""`, `"""`, `""""`, `"""""`, `""""""`, `"""""""`, `""" """`, `"""\"""`, `"""\""""""`, `"""a\"""b"""`, `"""\\"""`, `"""\\""""`, `"" ""`, `""""""""`, "\"\"\"a\x00\"\"\"", "\"\"\"a\x0bb\"\"\"", "\"\"\"\xff\xfe\"\"\"", "\"\"\"a\n\"\"\"", "\"\"\"\n\"\"\"", "\"\"\"\r\n\r\n\"\"\"", "\"\"\"  a\n b\"\"\"", "\"\"\"a\n   \n  b\"\"\"", "\"\"\"\n  a\n \n  b\"\"\"", "\"\"\"abc\n  def\"\"\"", "\"\"\"\n\ta\n\t b\"\"\"", "\"\"\"a\n\n\n\"\"\"", "\"\"\" \t \"\"\"", "\"\"\"é\n  é\"\"\"", "\"\"\"a\"\"b\"\"\""} {
		c03EmitLex(e, "string", []byte(s), []string{"string"}, true)
		c03EmitParse(e, "string", wrap(s), []string{"string"}, true)
	}
	// ignored characters and invalid source characters between tokens
	for _, s := range []string{"\ufeff{a}", "{\ufeffa}", "{a\ufeff}", "{a}\ufeff", "\ufeff\ufeff{a}", "{ a #é\n bc }", "{ a #\xe9\n bc }", "{ a #\xf0\x9f\x98\n bc }", "{ a #😀😀\n bc d }", "{ a, ,b }", "{ a\rb\r\nc }", "{ a # c\r b }", "{ a # c\x00\n b }", "{ a # c\x07\n b }", "{ a # c\tc\n b }", "{ a \x00 }", "{ a \x0b }", "{ a \x0c }", "{ a \x7f }", "{ a \xa0 }", "{ a \u2028 b }", "{ a é }", "{ é }", "{ a\xff }", "\xef\xbb{a}", "{a} #", "{a} #\xff", "#", "", " ", ",,,", "\ufeff", "# only a comment\n", "{ a . }", "{ a .. }", "{ a ... }", "{ a .... }", "{ ..a }", "{ a ...b...c }", "{ a;b }", "{ a ? }", "{ a(x:$b) }", "{ a(x:$ b) }", "{ a(x:$) }", "{ a(x:-1) }", "{ a(x:- 1) }", "{ a -1 }"} {
		c03EmitParse(e, "ignored", []byte(s), []string{"ignored"}, true)
		c03EmitLex(e, "ignored", []byte(s), []string{"ignored"}, true)
	}
	// random block strings and strings over a small alphabet
	n := 300
	if tier == "thorough" {
		n = 6000
	}
	bsAlpha := []string{"a", "b", " ", " ", "  ", "\t", "\n", "\n", "\r", "\r\n", "é", "\"", "\"\"", "\\\"\"\"", "\\", "\\n", "😀", "#", "\ufeff"}
	for i := 0; i < n; i++ {
		r := NewRng(seed^0xb10c, uint64(i))
		var sb strings.Builder
		for j, k := 0, r.Intn(12); j < k; j++ {
			sb.WriteString(r.Pick(bsAlpha))
		}
		raw := sb.String()
		c03EmitLex(e, "blockstring", []byte("\"\"\""+raw+"\"\"\" x"), []string{"random-blockstring"}, true)
		if i%4 == 0 {
			c03EmitParse(e, "blockstring", wrap("\"\"\""+raw+"\"\"\""), []string{"random-blockstring"}, true)
		}
	}
	sAlpha := []string{"a", " ", "é", "😀", "\\n", "\\\"", "\\\\", "\\/", "\\u0041", "\\u00E9", "\\ud83d", "\\x", "\\", "\"", "#", ",", "\t", "\x7f", "\xff", "\\u12", "\n", "\\b\\f\\r\\t"}
	for i := 0; i < n; i++ {
		r := NewRng(seed^0x5712, uint64(i))
		var sb strings.Builder
		for j, k := 0, r.Intn(8); j < k; j++ {
			sb.WriteString(r.Pick(sAlpha))
		}
		c03EmitLex(e, "string", []byte("\""+sb.String()+"\" y"), []string{"random-string"}, true)
	}
}

// ---------------------------------------------------------------- entry

func genC03(tier string, seed uint64, n int, e *Emitter) {
	// (a) corpus: confirmed defects and the repository's kitchen-sink documents
	for _, s := range []string{
		"query($a: [Int}) {a}", "query($a: ]) {a}", "query($a: ) {a}", "query($a: [Int) {a}", "query($a: [Int", "query($a: [", "type T { a: [Int }", "type T { a: ",
		"{ a #é\n bc }", "{ a #ééé\n bcd ef }",
		"{ a(x: \"\"\"p\\\"\"\"q\"\"\") b }", "{ a(x: \"\"\" \\\"\"\" \\\"\"\" \"\"\", y: 1) }",
		"{ ... \"on\" T { a } }", "{ ... \"\"\"on\"\"\" T { a } }", "type T \"implements\" I { a: Int }", "fragment \"on\" on T { a }",
		"{ a(x: \"\"\"abc\n  def\"\"\") }", "{ a(x: \"\"\"\n  a\n \n  b\"\"\") }",
		"", " ", "# c", "{ }", "{ a { } }", "query { }", "{ a() }", "query () { a }", "{ a(x: []) }", "{ a(x: {}) }", "type T {}", "enum E {}", "input I {}", "interface I {}", "schema {}", "type T", "{ a(x: null) }", "{ a(x: [null]) }", "{ a(x: {n: null}) }",
		"{ a(x: \"\\v\") }", "{ a(x: \"\\a\") }", "{ a(x: \"\\'\") }",
		"extend \"d\" type T { a: Int }", "\"d\" extend type T { a: Int }", "\"d\" schema { query: Q }", "\"d\" { a }", "\"d\" query { a }", "\"d\" fragment F on T { a }", "\"d\" \"e\" type T { a: Int }", "\"d\"", "\"d\" 1",
		"type T implements & A & B { a: Int }", "type T implements A & { a: Int }", "type T implements { a: Int }", "type T implements A, B { a: Int }", "type T implements A B { a: Int }",
		"union U = A | B", "union U = | A", "union U = ", "union U", "directive @d on A | B", "directive @d(a: Int = 1 @x) on A", "directive @d on", "directive d on A",
		"{ a ...on }", "{ ... on on { a } }", "{ ...on T { a } }", "fragment on on on { on }", "fragment F on T { a }", "{ ... { a } }", "{ ... @d { a } }", "{ ... }", "{ ...F @d(x: $v) }",
		"query Q($a: Int = $b) { a }", "query Q($a: Int!!) { a }", "query Q($a: [[Int!]!]!) { a }", "query Q($a: Int @d) { a }", "{ a: b: c }", "{ a: }", "{ : a }", "{ true false null }", "{ a(true: true, on: on) }", "{ a(x: true, y: tru) }",
		"{ a } { b }", "{ a } query", "{ a } }", "{ a", "query Q", "subscription S @d { a }", "mutation { a }", "quer { a }",
	} {
		c03EmitParse(e, "corpus", []byte(s), []string{"corpus"}, true)
	}
	repo := os.Getenv("VERIF_REPO")
	if repo == "" {
		repo = "/repo"
	}
	for _, f := range []string{"kitchen-sink.graphql", "schema-kitchen-sink.graphql", "schema-all-descriptions.graphql"} {
		b, err := os.ReadFile(filepath.Join(repo, f))
		if err != nil {
			e.Emit(Case{Group: "corpus", Desc: f, Fail: "cannot read " + f + ": " + err.Error()})
			continue
		}
		c03EmitParse(e, "corpus", b, []string{"corpus", "kitchen-sink"}, true)
		c03EmitLex(e, "corpus", b, []string{"corpus", "kitchen-sink"}, true)
	}

	// (d) lexical stress
	c03LexStress(e, tier, seed)

	// (b) every token sequence up to length 3 (thorough: 4 over the reduced alphabet)
	all := make([]int, len(c03Alphabet))
	for i := range all {
		all[i] = i
	}
	if os.Getenv("C03_NO_ENUM") == "" {
		for l := 1; l <= 3; l++ {
			c03Enumerate(e, all, l, false)
		}
		if tier == "thorough" {
			c03Enumerate(e, c03AlphabetSmall, 4, true)
		}
	}

	// (c) grammar-generated documents and their mutations
	if n == 0 {
		n = 700
		if tier == "thorough" {
			n = 12000
		}
	}
	for i := 0; i < n; i++ {
		r := NewRng(seed, uint64(i))
		toks, sdl := c03GenDoc(r)
		kind := "exec"
		if sdl {
			kind = "sdl"
		}
		mb := r.Chance(25)
		src := c03Render(r, toks, mb)
		c03EmitParse(e, "generated", src, []string{kind, "valid-by-construction"}, true)
		if i%5 == 0 {
			c03EmitLex(e, "generated", src, []string{kind}, true)
		}
		// token-level mutations
		for j := 0; j < 2; j++ {
			mt, what := c03MutateToks(r, toks)
			if r.Chance(30) {
				mt, _ = c03MutateToks(r, mt)
			}
			c03EmitParse(e, "mutated", c03Render(r, mt, mb && r.Bool()), []string{kind, what}, true)
		}
		// byte-level mutations
		for j := 0; j < 2; j++ {
			mbs, what := c03MutateBytes(r, src)
			if r.Chance(30) {
				mbs, _ = c03MutateBytes(r, mbs)
			}
			c03EmitParse(e, "mutated", mbs, []string{kind, what}, true)
			if j == 0 {
				c03EmitLex(e, "mutated", mbs, []string{kind, what}, true)
			}
		}
	}
}
