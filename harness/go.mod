module gqlverif

go 1.21

require github.com/graphql-go/graphql v0.0.0

replace github.com/graphql-go/graphql => /repo
