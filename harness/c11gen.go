package main

// C11 generator: valid schema configurations, the same broken one way each,
// and AppendType histories.

import (
	"fmt"
	"sort"
	"strings"

	"github.com/graphql-go/graphql"
)

type c11G struct {
	r       *Rng
	cfg     *c11Cfg
	next    int
	ifaces  []int
	objects []int
	unions  []int
	enums   []int
	inputs  []int
	scalars []int
}

func (g *c11G) add(kind int, prefix string) *c11Def {
	d := &c11Def{ID: g.next, Kind: kind, Name: fmt.Sprintf("%s%d", prefix, g.next)}
	g.next++
	g.cfg.Defs = append(g.cfg.Defs, d)
	return d
}

func (g *c11G) pick(l []int) int { return l[g.r.Intn(len(l))] }

func (g *c11G) wrap(r c11Ref, maxDepth int) c11Ref {
	d := g.r.Intn(maxDepth + 1)
	for i := 0; i < d; i++ {
		if r.K != 3 && g.r.Chance(45) {
			r = c11NonNull(r)
		} else {
			r = c11ListOf(r)
		}
	}
	return r
}

func (g *c11G) inRef() c11Ref {
	pool := []int{c11IDInt, c11IDString, c11IDBoolean, c11IDID, c11IDFloat}
	pool = append(pool, g.enums...)
	pool = append(pool, g.enums...)
	pool = append(pool, g.inputs...)
	pool = append(pool, g.inputs...)
	pool = append(pool, g.scalars...)
	return g.wrap(c11Named(g.pick(pool)), 2)
}

func (g *c11G) outRef() c11Ref {
	pool := []int{c11IDInt, c11IDString, c11IDBoolean}
	pool = append(pool, g.enums...)
	pool = append(pool, g.scalars...)
	for i := 0; i < 2; i++ {
		pool = append(pool, g.objects...)
		pool = append(pool, g.ifaces...)
		pool = append(pool, g.unions...)
	}
	return g.wrap(c11Named(g.pick(pool)), 3)
}

func (g *c11G) args(prefix string, max int) []c11Arg {
	var as []c11Arg
	n := g.r.Intn(max + 1)
	for i := 0; i < n; i++ {
		as = append(as, c11Arg{Name: fmt.Sprintf("%s%d", prefix, i), T: g.inRef()})
	}
	return as
}

func (g *c11G) implementers(iface int) []int {
	var out []int
	for _, id := range g.objects {
		d := g.cfg.def(id)
		for _, m := range d.Members {
			if m == iface {
				out = append(out, id)
			}
		}
	}
	return out
}

// a type that is a (possibly proper) subtype of r, following the GraphQL rules
func (g *c11G) subRef(r c11Ref) c11Ref {
	switch r.K {
	case 3:
		s := g.subRef(*r.Of)
		if s.K == 3 {
			return s
		}
		return c11NonNull(s)
	case 2:
		s := c11ListOf(g.subRef(*r.Of))
		if g.r.Chance(30) {
			return c11NonNull(s)
		}
		return s
	case 1:
		s := r
		if d := g.cfg.def(r.ID); d != nil && g.r.Chance(60) {
			switch d.Kind {
			case c11Interface:
				if im := g.implementers(r.ID); len(im) > 0 {
					s = c11Named(g.pick(im))
				}
			case c11Union:
				var ms []int
				for _, m := range d.Members {
					if m >= 0 {
						ms = append(ms, m)
					}
				}
				if len(ms) > 0 && d.Slot != c11SlotBad {
					s = c11Named(g.pick(ms))
				}
			}
		}
		if g.r.Chance(30) {
			return c11NonNull(s)
		}
		return s
	}
	return r
}

func c11GenValid(r *Rng) *c11Cfg {
	g := &c11G{r: r, cfg: &c11Cfg{Query: -1, Mutation: -1, Subscription: -1}, next: 100}
	for i, n := 0, r.Intn(3); i < n; i++ {
		d := g.add(c11Enum, "E")
		for j, m := 0, 1+r.Intn(3); j < m; j++ {
			d.Values = append(d.Values, c11EnumVal{Name: string(rune('A' + j))})
		}
		g.enums = append(g.enums, d.ID)
	}
	if r.Chance(40) {
		d := g.add(c11Scalar, "S")
		d.Serialize = true
		if r.Bool() {
			d.ParseValue, d.ParseLiteral = true, true
		}
		g.scalars = append(g.scalars, d.ID)
	}
	nin := r.Intn(3)
	var ins []*c11Def
	for i := 0; i < nin; i++ {
		d := g.add(c11Input, "In")
		d.Thunk = r.Chance(40)
		ins = append(ins, d)
	}
	for _, d := range ins {
		g.inputs = append(g.inputs, d.ID) // an input object may refer to itself and to earlier ones
		for j, m := 0, 1+r.Intn(3); j < m; j++ {
			d.IFields = append(d.IFields, c11IField{Name: fmt.Sprintf("x%d", j), T: g.inRef()})
		}
	}
	// allocate the composite types first, fill them afterwards (cyclic references are normal)
	var idefs, odefs, udefs []*c11Def
	for i, n := 0, r.Intn(3); i < n; i++ {
		d := g.add(c11Interface, "I")
		d.ResolveType = true
		d.Thunk = r.Chance(40)
		idefs = append(idefs, d)
		g.ifaces = append(g.ifaces, d.ID)
	}
	for i, n := 0, 1+r.Intn(4); i < n; i++ {
		d := g.add(c11Object, "O")
		d.IsTypeOf = true
		d.Thunk = r.Chance(40)
		odefs = append(odefs, d)
		g.objects = append(g.objects, d.ID)
	}
	if r.Chance(50) {
		d := g.add(c11Union, "U")
		d.ResolveType = r.Chance(70)
		d.Slot = c11SlotList
		if r.Chance(40) {
			d.Slot = c11SlotThunk
		}
		seen := map[int]bool{}
		for j, m := 0, 1+r.Intn(3); j < m; j++ {
			o := g.pick(g.objects)
			if !seen[o] {
				seen[o] = true
				d.Members = append(d.Members, o)
			}
		}
		udefs = append(udefs, d)
		g.unions = append(g.unions, d.ID)
	}
	// which object implements which interfaces
	for _, d := range odefs {
		for _, i := range g.ifaces {
			if r.Chance(55) {
				d.Members = append(d.Members, i)
			}
		}
		if len(d.Members) > 0 {
			d.Slot = c11SlotList
			if r.Chance(40) {
				d.Slot = c11SlotThunk
			}
		} else if r.Chance(30) {
			d.Slot = c11SlotList // an empty list instead of nil
		}
	}
	for _, d := range idefs {
		for j, m := 0, 1+r.Intn(2); j < m; j++ {
			d.Fields = append(d.Fields, c11Field{Name: fmt.Sprintf("i%df%d", d.ID, j), T: g.outRef(), Args: g.args("a", 2)})
		}
	}
	for _, d := range odefs {
		for _, i := range d.Members {
			for _, f := range g.cfg.def(i).Fields {
				nf := c11Field{Name: f.Name, T: g.subRef(f.T)}
				nf.Args = append(nf.Args, f.Args...)
				if r.Chance(30) {
					t := g.inRef()
					if t.K == 3 {
						t = *t.Of
					}
					nf.Args = append(nf.Args, c11Arg{Name: "extra", T: t})
				}
				d.Fields = append(d.Fields, nf)
			}
		}
		for j, m := 0, 1+r.Intn(2); j < m; j++ {
			d.Fields = append(d.Fields, c11Field{Name: fmt.Sprintf("o%d", j), T: g.outRef(), Args: g.args("b", 2)})
		}
	}
	q := g.add(c11Object, "Query")
	q.IsTypeOf = true
	q.Thunk = r.Chance(30)
	for j, m := 0, 1+r.Intn(4); j < m; j++ {
		q.Fields = append(q.Fields, c11Field{Name: fmt.Sprintf("q%d", j), T: g.outRef(), Args: g.args("c", 2)})
	}
	g.cfg.Query = q.ID
	if r.Chance(30) {
		g.cfg.Mutation = g.pick(g.objects)
	}
	if r.Chance(15) {
		g.cfg.Subscription = g.pick(g.objects)
	}
	for _, id := range g.objects {
		if r.Chance(45) {
			g.cfg.Types = append(g.cfg.Types, id)
		}
	}
	for _, l := range [][]int{g.ifaces, g.unions, g.inputs, g.enums, g.scalars} {
		for _, id := range l {
			if r.Chance(20) {
				g.cfg.Types = append(g.cfg.Types, id)
			}
		}
	}
	if r.Chance(15) {
		g.cfg.Types = append(g.cfg.Types, c11IDString)
	}
	if r.Chance(15) {
		g.cfg.Dirs = append(g.cfg.Dirs, c11DirOk)
	}
	return g.cfg
}

// ids reachable from the roots and Types (following every kind of reference)
func c11Reachable(c *c11Cfg, extra []int) map[int]bool {
	seen := map[int]bool{}
	var visit func(id int)
	visitRef := func(r c11Ref) {
		for _, id := range c11RefIDs(r, nil) {
			visit(id)
		}
	}
	visit = func(id int) {
		if id < 0 || seen[id] {
			return
		}
		seen[id] = true
		d := c.def(id)
		if d == nil {
			return
		}
		for _, m := range d.Members {
			visit(m)
		}
		for _, f := range d.Fields {
			if f.Nil {
				continue
			}
			visitRef(f.T)
			for _, a := range f.Args {
				if !a.Nil {
					visitRef(a.T)
				}
			}
		}
		for _, f := range d.IFields {
			if !f.Nil {
				visitRef(f.T)
			}
		}
	}
	visit(c.Query)
	visit(c.Mutation)
	visit(c.Subscription)
	for _, id := range c.Types {
		visit(id)
	}
	for _, id := range extra {
		visit(id)
	}
	return seen
}

var c11BadNames = []string{"bad-Name", "", "1x", "a b", "é", "x\n"}

var c11Mutations = []string{
	"dup-name", "dup-name-builtin", "dup-name-meta",
	"bad-name-object", "bad-name-interface", "bad-name-union", "bad-name-enum", "bad-name-input", "bad-name-scalar",
	"empty-fields-object", "empty-fields-interface", "empty-fields-input", "empty-values", "empty-members", "all-fields-nil",
	"nil-interface", "nil-member", "nil-field", "nil-arg", "nil-enum-value", "nil-input-field",
	"nil-field-type", "nil-arg-type", "nil-input-field-type", "list-of-nil", "nonnull-of-nil", "nil-in-types", "nil-directive", "err-directive",
	"iface-field-missing", "iface-field-wrong-type", "iface-field-list-unrelated", "iface-field-nullable", "iface-arg-missing", "iface-arg-wrong-type", "extra-required-arg", "extra-required-arg-noargs",
	"iface-arg-add-nonnull", "iface-arg-drop-nonnull", "iface-field-drop-nonnull", "iface-field-add-nonnull",
	"nonnull-nonnull-field", "nonnull-nonnull-arg", "nonnull-nonnull-input", "nonnull-nonnull-nested",
	"no-query", "bad-mutation-root", "bad-subscription-root",
	"input-in-output", "output-in-arg", "output-in-input-field",
	"bad-field-name", "bad-arg-name", "bad-enum-value-name", "bad-input-field-name",
	"scalar-no-serialize", "scalar-half-parse", "union-no-resolver",
	"dup-member", "dup-interface", "bad-slot-interfaces", "bad-slot-members",
	"broken-enum-as-field", "broken-enum-in-list-field", "broken-enum-as-arg", "broken-enum-as-input-field", "broken-scalar-as-arg", "broken-object-in-list-field",
	"two-inputs-one-name",
}

// every type that differs from t by exactly one non-null wrapper: added where
// there is none (add = true) or removed where there is one, at any depth
func c11NullabilityVariants(t c11Ref, add bool) []c11Ref {
	var out []c11Ref
	switch t.K {
	case 3:
		if !add {
			out = append(out, *t.Of)
		}
		inner := *t.Of
		if inner.K == 2 {
			for _, v := range c11NullabilityVariants(*inner.Of, add) {
				out = append(out, c11NonNull(c11ListOf(v)))
			}
		}
	case 2:
		if add {
			out = append(out, c11NonNull(t))
		}
		for _, v := range c11NullabilityVariants(*t.Of, add) {
			out = append(out, c11ListOf(v))
		}
	case 1:
		if add {
			out = append(out, c11NonNull(t))
		}
	}
	return out
}

func c11ByKind(c *c11Cfg, kind int, only map[int]bool) []*c11Def {
	var out []*c11Def
	for _, d := range c.Defs {
		if d.Kind == kind && (only == nil || only[d.ID]) {
			out = append(out, d)
		}
	}
	return out
}

// c11Mutate breaks cfg (a private copy) in the named way; false when the
// configuration offers no place for it.
func c11Mutate(r *Rng, c *c11Cfg, mut string) bool {
	var only map[int]bool
	if r.Chance(85) {
		only = c11Reachable(c, nil)
	}
	nextID := 0
	for _, d := range c.Defs {
		if d.ID >= nextID {
			nextID = d.ID + 1
		}
	}
	pickDef := func(kind int) *c11Def {
		l := c11ByKind(c, kind, only)
		if len(l) == 0 {
			return nil
		}
		return l[r.Intn(len(l))]
	}
	withFields := func() *c11Def {
		l := append(c11ByKind(c, c11Object, only), c11ByKind(c, c11Interface, only)...)
		var ok []*c11Def
		for _, d := range l {
			if len(d.Fields) > 0 && len(d.Members) == 0 {
				ok = append(ok, d)
			}
		}
		if len(ok) == 0 {
			return nil
		}
		return ok[r.Intn(len(ok))]
	}
	// an (object, interface, interface field index, object field index) with the object reachable
	type impl struct {
		o, i   *c11Def
		fi, fo int
	}
	var impls []impl
	for _, o := range c11ByKind(c, c11Object, only) {
		if o.Slot == c11SlotBad {
			continue
		}
		for _, m := range o.Members {
			if m < 0 {
				continue
			}
			i := c.def(m)
			for fi, f := range i.Fields {
				for fo, g := range o.Fields {
					if g.Name == f.Name {
						impls = append(impls, impl{o, i, fi, fo})
					}
				}
			}
		}
	}
	pickImpl := func(pred func(impl) bool) *impl {
		var ok []impl
		for _, x := range impls {
			if pred == nil || pred(x) {
				ok = append(ok, x)
			}
		}
		if len(ok) == 0 {
			return nil
		}
		x := ok[r.Intn(len(ok))]
		return &x
	}
	newBrokenEnum := func() int {
		d := &c11Def{ID: nextID, Kind: c11Enum, Name: "bad-E"}
		if r.Bool() {
			d.Name = fmt.Sprintf("E%d", nextID) // no values
		} else {
			d.Values = []c11EnumVal{{Name: "A"}}
		}
		c.Defs = append(c.Defs, d)
		return d.ID
	}
	badName := func(kind int) bool {
		d := pickDef(kind)
		if d == nil || d.ID == c.Query {
			return false
		}
		d.Name = c11BadNames[r.Intn(len(c11BadNames))]
		return true
	}
	switch mut {
	case "dup-name":
		var l []*c11Def
		for _, d := range c.Defs {
			if only == nil || only[d.ID] {
				l = append(l, d)
			}
		}
		if len(l) < 2 {
			return false
		}
		a, b := l[r.Intn(len(l))], l[r.Intn(len(l))]
		if a == b {
			return false
		}
		a.Name = b.Name
	case "dup-name-builtin":
		d := pickDef([]int{c11Object, c11Enum, c11Scalar, c11Input}[r.Intn(4)])
		if d == nil {
			return false
		}
		d.Name = []string{"String", "Int", "Boolean"}[r.Intn(3)]
	case "dup-name-meta":
		d := pickDef([]int{c11Object, c11Enum, c11Interface}[r.Intn(3)])
		if d == nil {
			return false
		}
		d.Name = []string{"__Type", "__Schema", "__TypeKind", "__Field"}[r.Intn(4)]
	case "bad-name-object":
		return badName(c11Object)
	case "bad-name-interface":
		return badName(c11Interface)
	case "bad-name-union":
		return badName(c11Union)
	case "bad-name-enum":
		return badName(c11Enum)
	case "bad-name-input":
		return badName(c11Input)
	case "bad-name-scalar":
		return badName(c11Scalar)
	case "empty-fields-object":
		d := pickDef(c11Object)
		if d == nil {
			return false
		}
		d.Fields = nil
	case "empty-fields-interface":
		d := pickDef(c11Interface)
		if d == nil {
			return false
		}
		d.Fields = nil
	case "empty-fields-input":
		d := pickDef(c11Input)
		if d == nil {
			return false
		}
		d.IFields = nil
	case "empty-values":
		d := pickDef(c11Enum)
		if d == nil {
			return false
		}
		d.Values = nil
	case "empty-members":
		d := pickDef(c11Union)
		if d == nil {
			return false
		}
		d.Members = nil
		if r.Bool() {
			d.Slot = c11SlotNone
		}
	case "all-fields-nil":
		d := withFields()
		if d == nil {
			return false
		}
		for i := range d.Fields {
			d.Fields[i].Nil = true
		}
	case "nil-interface":
		d := pickDef(c11Object)
		if d == nil {
			return false
		}
		d.Members = append(d.Members, -1)
		if d.Slot == c11SlotNone {
			d.Slot = c11SlotList
		}
	case "nil-member":
		d := pickDef(c11Union)
		if d == nil {
			return false
		}
		d.Members = append(d.Members, -1)
	case "nil-field":
		d := pickDef(c11Object)
		if d == nil {
			return false
		}
		d.Fields = append(d.Fields, c11Field{Name: "zz", Nil: true})
	case "nil-arg", "nil-arg-type", "nonnull-nonnull-arg", "output-in-arg", "bad-arg-name", "broken-enum-as-arg", "broken-scalar-as-arg":
		d := withFields()
		if d == nil {
			return false
		}
		f := &d.Fields[r.Intn(len(d.Fields))]
		a := c11Arg{Name: "zz", T: c11Named(c11IDInt)}
		switch mut {
		case "nil-arg":
			a.Nil = true
		case "nil-arg-type":
			a.T = c11NilRef()
		case "nonnull-nonnull-arg":
			a.T = c11NonNull(c11NonNull(c11Named(c11IDInt)))
		case "output-in-arg":
			o := pickDef([]int{c11Object, c11Interface, c11Union}[r.Intn(3)])
			if o == nil {
				return false
			}
			a.T = c11Named(o.ID)
			if r.Bool() {
				a.T = c11ListOf(a.T)
			}
		case "bad-arg-name":
			a.Name = c11BadNames[r.Intn(len(c11BadNames))]
		case "broken-enum-as-arg":
			a.T = c11Named(newBrokenEnum())
			if r.Bool() {
				a.T = c11NonNull(a.T)
			}
		case "broken-scalar-as-arg":
			s := &c11Def{ID: nextID, Kind: c11Scalar, Name: fmt.Sprintf("S%d", nextID), Serialize: r.Bool()}
			if s.Serialize {
				s.Name = "bad-S"
			}
			c.Defs = append(c.Defs, s)
			a.T = c11Named(s.ID)
		}
		f.Args = append(f.Args, a)
	case "nil-enum-value":
		d := pickDef(c11Enum)
		if d == nil {
			return false
		}
		d.Values = append(d.Values, c11EnumVal{Name: "ZZ", Nil: true})
	case "nil-input-field":
		d := pickDef(c11Input)
		if d == nil {
			return false
		}
		d.IFields = append(d.IFields, c11IField{Name: "zz", Nil: true})
		if r.Chance(30) {
			d.IFields = d.IFields[len(d.IFields)-1:]
		}
	case "nil-field-type", "list-of-nil", "nonnull-of-nil", "nonnull-nonnull-field", "nonnull-nonnull-nested", "input-in-output", "bad-field-name",
		"broken-enum-as-field", "broken-enum-in-list-field", "broken-object-in-list-field":
		d := withFields()
		if d == nil {
			return false
		}
		f := c11Field{Name: "zz", T: c11Named(c11IDInt)}
		switch mut {
		case "nil-field-type":
			f.T = c11NilRef()
		case "list-of-nil":
			f.T = c11ListOf(c11NilRef())
			if r.Bool() {
				f.T = c11NonNull(f.T)
			}
		case "nonnull-of-nil":
			f.T = c11NonNull(c11NilRef())
			if r.Bool() {
				f.T = c11ListOf(f.T)
			}
		case "nonnull-nonnull-field":
			f.T = c11NonNull(c11NonNull(c11Named(c11IDString)))
		case "nonnull-nonnull-nested":
			f.T = c11ListOf(c11NonNull(c11NonNull(c11Named(c11IDString))))
			if r.Bool() {
				f.T = c11NonNull(c11ListOf(c11NonNull(c11NonNull(c11NonNull(c11Named(c11IDString))))))
			}
		case "input-in-output":
			o := pickDef(c11Input)
			if o == nil {
				return false
			}
			f.T = c11Named(o.ID)
			if r.Bool() {
				f.T = c11ListOf(c11NonNull(f.T))
			}
		case "bad-field-name":
			f.Name = c11BadNames[r.Intn(len(c11BadNames))]
		case "broken-enum-as-field":
			f.T = c11Named(newBrokenEnum())
		case "broken-enum-in-list-field":
			f.T = c11ListOf(c11Named(newBrokenEnum()))
		case "broken-object-in-list-field":
			o := &c11Def{ID: nextID, Kind: c11Object, Name: "bad-O", IsTypeOf: true, Fields: []c11Field{{Name: "a", T: c11Named(c11IDInt)}}}
			c.Defs = append(c.Defs, o)
			f.T = c11ListOf(c11Named(o.ID))
		}
		d.Fields = append(d.Fields, f)
	case "nil-input-field-type", "nonnull-nonnull-input", "output-in-input-field", "bad-input-field-name", "broken-enum-as-input-field":
		d := pickDef(c11Input)
		if d == nil {
			return false
		}
		f := c11IField{Name: "zz", T: c11Named(c11IDInt)}
		switch mut {
		case "nil-input-field-type":
			f.T = c11NilRef()
		case "nonnull-nonnull-input":
			f.T = c11NonNull(c11NonNull(c11Named(c11IDInt)))
		case "output-in-input-field":
			o := pickDef([]int{c11Object, c11Interface, c11Union}[r.Intn(3)])
			if o == nil {
				return false
			}
			f.T = c11Named(o.ID)
		case "bad-input-field-name":
			f.Name = c11BadNames[r.Intn(len(c11BadNames))]
			if r.Chance(30) {
				d.IFields = nil
			}
		case "broken-enum-as-input-field":
			f.T = c11Named(newBrokenEnum())
		}
		d.IFields = append(d.IFields, f)
	case "nil-in-types":
		c.Types = append(c.Types, -1)
		if r.Bool() && len(c.Types) > 1 {
			c.Types[0], c.Types[len(c.Types)-1] = c.Types[len(c.Types)-1], c.Types[0]
		}
	case "nil-directive":
		c.Dirs = append(c.Dirs, c11DirNil)
	case "err-directive":
		c.Dirs = append(c.Dirs, c11DirErr)
	case "iface-field-missing":
		x := pickImpl(nil)
		if x == nil {
			return false
		}
		x.o.Fields = append(x.o.Fields[:x.fo], x.o.Fields[x.fo+1:]...)
	case "iface-field-wrong-type":
		x := pickImpl(nil)
		if x == nil {
			return false
		}
		t := x.i.Fields[x.fi].T
		// replace the named type at the bottom by an unrelated one
		var repl func(r c11Ref) c11Ref
		repl = func(rr c11Ref) c11Ref {
			switch rr.K {
			case 2:
				return c11ListOf(repl(*rr.Of))
			case 3:
				return c11NonNull(repl(*rr.Of))
			}
			if rr.ID == c11IDInt {
				return c11Named(c11IDString)
			}
			return c11Named(c11IDInt)
		}
		x.o.Fields[x.fo].T = repl(t)
	case "iface-field-list-unrelated":
		// interface field [I] implemented as [Unrelated]
		x := pickImpl(nil)
		if x == nil {
			return false
		}
		x.i.Fields[x.fi].T = c11ListOf(c11Named(x.i.ID))
		var other *c11Def
		for _, o := range c11ByKind(c, c11Object, nil) {
			imp := false
			for _, m := range o.Members {
				if m == x.i.ID {
					imp = true
				}
			}
			if !imp {
				other = o
			}
		}
		if other == nil {
			other = &c11Def{ID: nextID, Kind: c11Object, Name: fmt.Sprintf("O%d", nextID), IsTypeOf: true, Fields: []c11Field{{Name: "a", T: c11Named(c11IDInt)}}}
			c.Defs = append(c.Defs, other)
		}
		// every implementer must follow the changed interface field, the chosen one wrongly
		for _, y := range impls {
			if y.i == x.i && y.fi == x.fi {
				y.o.Fields[y.fo].T = c11ListOf(c11Named(y.o.ID))
			}
		}
		x.o.Fields[x.fo].T = c11ListOf(c11Named(other.ID))
	case "iface-field-nullable":
		x := pickImpl(func(x impl) bool { return x.i.Fields[x.fi].T.K == 3 })
		if x == nil {
			return false
		}
		x.o.Fields[x.fo].T = *x.i.Fields[x.fi].T.Of
		if x.o.Fields[x.fo].T.K == 3 {
			return false
		}
	case "iface-arg-missing":
		x := pickImpl(func(x impl) bool { return len(x.i.Fields[x.fi].Args) > 0 })
		if x == nil {
			return false
		}
		n := x.i.Fields[x.fi].Args[0].Name
		var as []c11Arg
		for _, a := range x.o.Fields[x.fo].Args {
			if a.Name != n {
				as = append(as, a)
			}
		}
		x.o.Fields[x.fo].Args = as
	case "iface-arg-wrong-type":
		x := pickImpl(func(x impl) bool { return len(x.i.Fields[x.fi].Args) > 0 })
		if x == nil {
			return false
		}
		n := x.i.Fields[x.fi].Args[0].Name
		for k, a := range x.o.Fields[x.fo].Args {
			if a.Name == n {
				switch {
				case a.T.K == 3:
					x.o.Fields[x.fo].Args[k].T = *a.T.Of // nullable instead of required
				case r.Bool():
					x.o.Fields[x.fo].Args[k].T = c11NonNull(a.T)
				default:
					x.o.Fields[x.fo].Args[k].T = c11ListOf(a.T)
				}
			}
		}
	case "iface-arg-add-nonnull", "iface-arg-drop-nonnull":
		// the implementer's argument type differs from the interface's only by one
		// nullability wrapper, at any depth, in either direction
		x := pickImpl(nil)
		if x == nil {
			return false
		}
		leaf := c11Named([]int{c11IDString, c11IDInt, c11IDID, c11IDBoolean}[r.Intn(4)])
		if es := c11ByKind(c, c11Enum, nil); len(es) > 0 && r.Chance(30) {
			leaf = c11Named(es[r.Intn(len(es))].ID)
		}
		shapes := []c11Ref{leaf, c11ListOf(leaf), c11ListOf(c11ListOf(leaf)), c11NonNull(leaf), c11ListOf(c11NonNull(leaf)),
			c11NonNull(c11ListOf(leaf)), c11NonNull(c11ListOf(c11NonNull(leaf))), c11ListOf(c11NonNull(c11ListOf(leaf))),
			c11NonNull(c11ListOf(c11NonNull(c11ListOf(c11NonNull(leaf)))))}
		var base c11Ref
		var vars []c11Ref
		for try := 0; try < 20 && len(vars) == 0; try++ {
			base = shapes[r.Intn(len(shapes))]
			vars = c11NullabilityVariants(base, mut == "iface-arg-add-nonnull")
		}
		if len(vars) == 0 {
			return false
		}
		// the interface field and every implementer get the argument; the chosen implementer gets the variant
		x.i.Fields[x.fi].Args = append(x.i.Fields[x.fi].Args, c11Arg{Name: "nz", T: base})
		for _, y := range impls {
			if y.i == x.i && y.fi == x.fi {
				t := base
				if y.o == x.o {
					t = vars[r.Intn(len(vars))]
				}
				y.o.Fields[y.fo].Args = append(y.o.Fields[y.fo].Args, c11Arg{Name: "nz", T: t})
			}
		}
	case "iface-field-drop-nonnull", "iface-field-add-nonnull":
		// result type: dropping a non-null wrapper at any depth is not covariant (adding one is)
		x := pickImpl(nil)
		if x == nil {
			return false
		}
		add := mut == "iface-field-add-nonnull"
		vars := c11NullabilityVariants(x.i.Fields[x.fi].T, add)
		if len(vars) == 0 {
			leaf := c11Named(c11IDString)
			base := []c11Ref{c11NonNull(leaf), c11ListOf(c11NonNull(leaf)), c11NonNull(c11ListOf(c11ListOf(c11NonNull(leaf)))), c11ListOf(leaf)}[r.Intn(4)]
			x.i.Fields[x.fi].T = base
			for _, y := range impls {
				if y.i == x.i && y.fi == x.fi {
					y.o.Fields[y.fo].T = base
				}
			}
			vars = c11NullabilityVariants(base, add)
		}
		if len(vars) == 0 {
			return false
		}
		x.o.Fields[x.fo].T = vars[r.Intn(len(vars))]
	case "extra-required-arg":
		x := pickImpl(func(x impl) bool { return len(x.i.Fields[x.fi].Args) > 0 })
		if x == nil {
			return false
		}
		x.o.Fields[x.fo].Args = append(x.o.Fields[x.fo].Args, c11Arg{Name: "req", T: c11NonNull(c11Named(c11IDInt))})
	case "extra-required-arg-noargs":
		x := pickImpl(func(x impl) bool { return len(x.i.Fields[x.fi].Args) == 0 })
		if x == nil {
			return false
		}
		x.o.Fields[x.fo].Args = append(x.o.Fields[x.fo].Args, c11Arg{Name: "req", T: c11NonNull(c11Named(c11IDInt))})
	case "no-query":
		c.Query = -1
	case "bad-mutation-root", "bad-subscription-root":
		o := &c11Def{ID: nextID, Kind: c11Object, Name: "bad-Root", IsTypeOf: true, Fields: []c11Field{{Name: "a", T: c11Named(c11IDInt)}}}
		if r.Bool() {
			o.Name = "Root"
			o.Fields = nil
		}
		c.Defs = append(c.Defs, o)
		if mut == "bad-mutation-root" {
			c.Mutation = o.ID
		} else {
			c.Subscription = o.ID
		}
	case "bad-enum-value-name":
		d := pickDef(c11Enum)
		if d == nil {
			return false
		}
		d.Values = append(d.Values, c11EnumVal{Name: c11BadNames[r.Intn(len(c11BadNames))]})
	case "scalar-no-serialize":
		d := pickDef(c11Scalar)
		if d == nil {
			return false
		}
		d.Serialize = false
	case "scalar-half-parse":
		d := pickDef(c11Scalar)
		if d == nil {
			return false
		}
		d.ParseValue, d.ParseLiteral = r.Bool(), false
		if !d.ParseValue {
			d.ParseLiteral = true
		}
	case "union-no-resolver":
		d := pickDef(c11Union)
		if d == nil || len(d.Members) == 0 || d.Members[0] < 0 {
			return false
		}
		d.ResolveType = false
		c.def(d.Members[0]).IsTypeOf = false
	case "dup-member":
		d := pickDef(c11Union)
		if d == nil || len(d.Members) == 0 {
			return false
		}
		d.Members = append(d.Members, d.Members[0])
	case "dup-interface":
		var l []*c11Def
		for _, o := range c11ByKind(c, c11Object, only) {
			if len(o.Members) > 0 && o.Slot != c11SlotBad {
				l = append(l, o)
			}
		}
		if len(l) == 0 {
			return false
		}
		d := l[r.Intn(len(l))]
		d.Members = append(d.Members, d.Members[r.Intn(len(d.Members))])
	case "bad-slot-interfaces":
		d := pickDef(c11Object)
		if d == nil {
			return false
		}
		d.Slot = c11SlotBad
	case "bad-slot-members":
		d := pickDef(c11Union)
		if d == nil {
			return false
		}
		d.Slot = c11SlotBad
	case "two-inputs-one-name":
		d := pickDef(c11Input)
		if d == nil {
			return false
		}
		e := &c11Def{ID: nextID, Kind: c11Input, Name: d.Name, IFields: []c11IField{{Name: "other", T: c11Named(c11IDInt)}}}
		c.Defs = append(c.Defs, e)
		q := c.def(c.Query)
		if q == nil || len(q.Fields) == 0 {
			return false
		}
		q.Fields[0].Args = append(q.Fields[0].Args, c11Arg{Name: "one", T: c11Named(d.ID)}, c11Arg{Name: "two", T: c11Named(e.ID)})
	default:
		return false
	}
	return true
}

// extra types to be appended later: objects (possibly implementing existing or
// new interfaces), interfaces, unions, inputs, enums that refer to old and new types.
func c11GenExtras(r *Rng, c *c11Cfg) ([]int, []string) {
	g := &c11G{r: r, cfg: c}
	for _, d := range c.Defs {
		if d.ID >= g.next {
			g.next = d.ID + 1
		}
		switch d.Kind {
		case c11Interface:
			g.ifaces = append(g.ifaces, d.ID)
		case c11Object:
			g.objects = append(g.objects, d.ID)
		case c11Union:
			g.unions = append(g.unions, d.ID)
		case c11Enum:
			g.enums = append(g.enums, d.ID)
		case c11Input:
			g.inputs = append(g.inputs, d.ID)
		case c11Scalar:
			g.scalars = append(g.scalars, d.ID)
		}
	}
	var extras []int
	var tags []string
	// an implementer of interfaces (of the base schema, mostly) built from the interfaces' fields
	implementer := func(prefix string, ifaces []int) *c11Def {
		d := g.add(c11Object, prefix)
		d.IsTypeOf = true
		d.Thunk = r.Bool()
		d.Members = ifaces
		if len(ifaces) > 0 {
			d.Slot = c11SlotList
			if r.Chance(30) {
				d.Slot = c11SlotThunk
			}
		}
		g.objects = append(g.objects, d.ID)
		for _, i := range ifaces {
			for _, f := range c.def(i).Fields {
				nf := c11Field{Name: f.Name, T: g.subRef(f.T)}
				nf.Args = append(nf.Args, f.Args...)
				d.Fields = append(d.Fields, nf)
			}
		}
		d.Fields = append(d.Fields, c11Field{Name: "o0", T: g.outRef(), Args: g.args("b", 1)})
		return d
	}
	// a type that is NOT appended itself but is reached through an appended type of another
	// kind (union member, field of an interface or object, argument of an input type ...): an
	// object implementing interfaces that are already in the schema, conforming or not
	if len(g.ifaces) > 0 && r.Chance(75) {
		var ifs []int
		for _, i := range g.ifaces {
			if r.Chance(60) {
				ifs = append(ifs, i)
			}
		}
		if len(ifs) == 0 {
			ifs = []int{g.pick(g.ifaces)}
		}
		h := implementer("HO", ifs)
		tags = append(tags, "hidden-implementer")
		if r.Chance(35) && len(h.Fields) > 1 {
			// break the implementation: drop an interface field or give it an unrelated type
			if r.Bool() {
				h.Fields = h.Fields[1:]
			} else if c11RefIDs(h.Fields[0].T, nil)[0] == c11IDInt {
				h.Fields[0].T = c11Named(c11IDString)
			} else {
				h.Fields[0].T = c11Named(c11IDInt)
			}
			tags = append(tags, "hidden-nonconforming")
		}
		ref := c11Named(h.ID)
		if r.Bool() {
			ref = c11ListOf(ref)
		}
		switch r.Intn(4) {
		case 0, 1:
			d := g.add(c11Union, "XU")
			d.ResolveType = true
			d.Slot = c11SlotList
			if r.Chance(30) {
				d.Slot = c11SlotThunk
			}
			d.Members = []int{h.ID}
			if r.Bool() {
				d.Members = append(d.Members, g.pick(g.objects[:len(g.objects)-1]))
				if d.Members[1] == h.ID {
					d.Members = d.Members[:1]
				}
			}
			g.unions = append(g.unions, d.ID)
			extras = append(extras, d.ID)
			tags = append(tags, "carrier-union")
		case 2:
			d := g.add(c11Interface, "XI")
			d.ResolveType = true
			d.Fields = []c11Field{{Name: fmt.Sprintf("i%df0", d.ID), T: ref}}
			g.ifaces = append(g.ifaces, d.ID)
			extras = append(extras, d.ID)
			tags = append(tags, "carrier-interface")
		default:
			d := g.add(c11Object, "XO")
			d.IsTypeOf = true
			d.Fields = []c11Field{{Name: "o0", T: ref}}
			g.objects = append(g.objects, d.ID)
			extras = append(extras, d.ID)
			tags = append(tags, "carrier-object")
		}
	}
	n := 1 + r.Intn(4)
	for k := 0; k < n; k++ {
		switch r.Intn(7) {
		case 6:
			d := g.add(c11Scalar, "XS")
			d.Serialize = true
			g.scalars = append(g.scalars, d.ID)
			extras = append(extras, d.ID)
		case 0:
			d := g.add(c11Interface, "XI")
			d.ResolveType = true
			d.Fields = []c11Field{{Name: fmt.Sprintf("i%df0", d.ID), T: g.outRef(), Args: g.args("a", 1)}}
			g.ifaces = append(g.ifaces, d.ID)
			extras = append(extras, d.ID)
		case 1:
			d := g.add(c11Enum, "XE")
			d.Values = []c11EnumVal{{Name: "A"}, {Name: "B"}}
			g.enums = append(g.enums, d.ID)
			extras = append(extras, d.ID)
		case 2:
			d := g.add(c11Input, "XIn")
			d.IFields = []c11IField{{Name: "x", T: g.inRef()}}
			g.inputs = append(g.inputs, d.ID)
			extras = append(extras, d.ID)
		case 3:
			if len(g.objects) == 0 {
				continue
			}
			d := g.add(c11Union, "XU")
			d.ResolveType = true
			d.Slot = c11SlotList
			d.Members = []int{g.pick(g.objects)}
			g.unions = append(g.unions, d.ID)
			extras = append(extras, d.ID)
		default:
			d := g.add(c11Object, "XO")
			d.IsTypeOf = true
			d.Thunk = r.Bool()
			for _, i := range g.ifaces {
				if r.Chance(50) {
					d.Members = append(d.Members, i)
				}
			}
			if len(d.Members) > 0 {
				d.Slot = c11SlotList
			}
			g.objects = append(g.objects, d.ID)
			for _, i := range d.Members {
				for _, f := range c.def(i).Fields {
					nf := c11Field{Name: f.Name, T: g.subRef(f.T)}
					nf.Args = append(nf.Args, f.Args...)
					d.Fields = append(d.Fields, nf)
				}
			}
			d.Fields = append(d.Fields, c11Field{Name: "o0", T: g.outRef(), Args: g.args("b", 1)})
			extras = append(extras, d.ID)
		}
	}
	// sometimes append something that is already there, or the same thing twice
	if r.Chance(20) && len(g.objects) > 0 {
		extras = append(extras, g.pick(g.objects))
	}
	if len(extras) > 4 {
		extras = extras[:4]
	}
	return extras, tags
}

func c11Perms(xs []int) [][]int {
	if len(xs) <= 1 {
		return [][]int{append([]int{}, xs...)}
	}
	var out [][]int
	for i := range xs {
		rest := append(append([]int{}, xs[:i]...), xs[i+1:]...)
		for _, p := range c11Perms(rest) {
			out = append(out, append([]int{xs[i]}, p...))
		}
	}
	return out
}

func c11Features(c *c11Cfg) (hasIface, hasThunk bool) {
	reach := c11Reachable(c, nil)
	for _, d := range c.Defs {
		if !reach[d.ID] {
			continue
		}
		if d.Kind == c11Object && len(d.Members) > 0 {
			hasIface = true
		}
		if d.Thunk || d.Slot == c11SlotThunk {
			hasThunk = true
		}
	}
	return
}

func c11EmitBuild(e *Emitter, c *c11Cfg, tags []string, nt bool) {
	res := c11Run(c, nil, nil)
	cs := Case{Group: "build", NT: nt, Tags: tags}
	outcome := "schema"
	if res.Err != "" {
		outcome = "error: " + res.Err
	}
	cs.Desc = map[string]interface{}{"config": c11Desc(c), "impl": outcome}
	if res.Panic != "" {
		cs.Fail = "graphql.NewSchema: " + res.Panic
		cs.Tags = append(cs.Tags, "panic")
	} else {
		cs.Coq = fmt.Sprintf("BuildCase %s %s", c11CfgCoq(c), c11ResCoq(res))
		if res.View != nil {
			cs.Tags = append(cs.Tags, "impl-ok")
		} else {
			cs.Tags = append(cs.Tags, "impl-error")
		}
	}
	e.Emit(cs)
}

func c11EmitAppend(e *Emitter, c *c11Cfg, order []int, tags []string) {
	up := c11Run(c, order, nil)
	ap := c11Run(c, nil, order)
	cs := Case{Group: "append", NT: true, Tags: tags}
	show := func(r c11Result) string {
		if r.Panic != "" {
			return r.Panic
		}
		if r.Err != "" {
			return "error: " + r.Err
		}
		return "schema"
	}
	cs.Desc = map[string]interface{}{"config": c11Desc(c), "append_order": fmt.Sprint(order), "impl_upfront": show(up), "impl_appended": show(ap)}
	if up.Panic != "" || ap.Panic != "" {
		cs.Fail = "NewSchema/AppendType: " + up.Panic + " " + ap.Panic
		cs.Tags = append(cs.Tags, "panic")
	} else {
		cs.Coq = fmt.Sprintf("AppendCase %s %s %s %s", c11CfgCoq(c), c11OptIDs(order), c11ResCoq(up), c11ResCoq(ap))
	}
	e.Emit(cs)
}

func genC11(tier string, seed uint64, n int, e *Emitter) {
	if n == 0 {
		n = 220
		if tier == "thorough" {
			n = 6000
		}
	}
	// (0) the library's own types, as the harness reads them, against the model's table
	e.Emit(Case{Group: "meta", Coq: "MetaCase " + c11MetaCoq(), Desc: "introspection and built-in scalar types as read from the library", Tags: []string{"meta"}})
	// (1) corpus: every way of breaking a configuration, on fixed seeds
	for k, mut := range c11Mutations {
		reps := 1
		if strings.HasPrefix(mut, "iface-") || strings.HasPrefix(mut, "extra-required") {
			reps = 4 // the interface clauses have the most ways of going wrong
		}
		done := 0
		for try := 0; try < 80 && done < reps; try++ {
			r := NewRng(0xC11, uint64(k*100+try))
			c := c11GenValid(r)
			if c11Mutate(r, c, mut) {
				c11EmitBuild(e, c, []string{"corpus", "mut:" + mut}, true)
				done++
			}
		}
	}
	// (2) generated configurations
	for i := 0; i < n; i++ {
		r := NewRng(seed, uint64(i))
		c := c11GenValid(r)
		tags := []string{}
		nt := false
		if r.Chance(65) {
			mut := c11Mutations[r.Intn(len(c11Mutations))]
			if c11Mutate(r, c, mut) {
				tags = append(tags, "mut:"+mut)
				nt = true
			}
		}
		if len(tags) == 0 {
			tags = append(tags, "valid")
			hi, ht := c11Features(c)
			if hi {
				tags = append(tags, "implements")
			}
			if ht {
				tags = append(tags, "thunk")
			}
			nt = hi && ht
		}
		c11EmitBuild(e, c, tags, nt)
	}
	// (3) AppendType histories: all orders of up to 4 appended types
	m := n / 25
	if m < 6 {
		m = 6
	}
	for i := 0; i < m; i++ {
		r := NewRng(seed^0xA99E7D, uint64(i))
		c := c11GenValid(r)
		extras, xtags := c11GenExtras(r, c)
		tags := append([]string{fmt.Sprintf("extras%d", len(extras))}, xtags...)
		if r.Chance(25) {
			mut := c11Mutations[r.Intn(len(c11Mutations))]
			if c11Mutate(r, c, mut) {
				tags = append(tags, "mut:"+mut)
			}
		}
		if r.Chance(10) {
			extras = append(extras, -1)
			if len(extras) > 4 {
				extras = extras[1:]
			}
			tags = append(tags, "append-nil")
		}
		sorted := append([]int{}, extras...)
		sort.Ints(sorted)
		for _, p := range c11Perms(sorted) {
			c11EmitAppend(e, c.clone(), p, tags)
		}
	}
}

// the library's own types in configuration form (what a user would have had to write to get them)
func c11MetaCoq() string {
	w := &c11World{types: map[int]graphql.Type{}, ids: map[graphql.Type]int{}, next: 9000}
	b := c11Builtins()
	var ids []int
	for id, t := range b {
		w.types[id] = t
		w.ids[t] = id
		ids = append(ids, id)
	}
	sort.Ints(ids)
	var ds []string
	for _, id := range ids {
		d := &c11Def{ID: id, Name: b[id].Name()}
		switch t := b[id].(type) {
		case *graphql.Scalar:
			d.Kind = c11Scalar
			d.Serialize, d.ParseValue, d.ParseLiteral = true, true, true
		case *graphql.Enum:
			d.Kind = c11Enum
			for _, v := range t.Values() {
				d.Values = append(d.Values, c11EnumVal{Name: v.Name})
			}
		case *graphql.Object:
			d.Kind = c11Object
			d.IsTypeOf = t.IsTypeOf != nil
			if len(t.Interfaces()) > 0 {
				d.Slot = c11SlotList
				for _, i := range t.Interfaces() {
					d.Members = append(d.Members, w.idOf(i))
				}
			}
			for _, f := range w.vfields(t.Fields()) {
				d.Fields = append(d.Fields, c11Field{Name: f.Name, T: f.T, Args: f.Args})
			}
		}
		ds = append(ds, c11DefCoq(d))
	}
	return coqList(ds)
}
