package main

// C09: adversarial root values and resolver return values.  Every leaf kind of a
// dedicated schema (Int, Float, String, Boolean, ID, an enum, DateTime, lists and
// non-null wrappers of them) receives values of every Go kind -- strings spelling
// numbers, infinities and NaN, numbers at the 32-bit boundaries in every width,
// float32/float64 infinities and NaN, typed nil pointers, nested pointers, funcs,
// channels, maps and slices where a leaf is expected, arrays and pointers to
// slices where a list is expected, time values -- through every way a value can
// reach the executor: the root value (a map, a named map type, a struct, a pointer
// to a struct, a FieldResolver), DefaultResolveFn on a nested source of each of
// these kinds, explicit resolvers, deferred values.  What comes back must be
// serialisable and well formed.

import (
	"context"
	"encoding/json"
	"errors"
	"fmt"
	"math"
	"sort"
	"strings"
	"sync"
	"time"

	"github.com/graphql-go/graphql"
)

type c09ValKey struct{}

// struct source: DefaultResolveFn matches field names case-insensitively, then json / graphql tags
type c09ValStruct struct {
	I   interface{}
	F   interface{}
	S   interface{}
	B   interface{}
	ID  interface{}
	E   interface{}
	DT  interface{} `json:"dt"`
	Fl  interface{} `graphql:"fl"`
	Il  interface{}
	Sl  interface{}
	Fll interface{}
	El  interface{}
	N   interface{}
	Nf  interface{}
	Nfl interface{}
}

type c09NamedMap map[string]interface{}

type c09FieldResolver map[string]interface{}

func (c c09FieldResolver) Resolve(p graphql.ResolveParams) (interface{}, error) {
	return c[p.Info.FieldName], nil
}

type c09MyStr string
type c09MyFloat float64
type c09MyInt int32
type c09Stringer struct{}

func (c09Stringer) String() string { return "Inf" }

var c09ValLeaves = []string{"i", "f", "s", "b", "id", "e", "dt", "fl", "il", "sl", "fll", "el"}

var (
	c09ValOnce   sync.Once
	c09ValSchema graphql.Schema
)

func c09ValuesSchema() *graphql.Schema {
	c09ValOnce.Do(func() {
		color := graphql.NewEnum(graphql.EnumConfig{Name: "Color", Values: graphql.EnumValueConfigMap{
			"RED": &graphql.EnumValueConfig{Value: "RED"}, "GREEN": &graphql.EnumValueConfig{Value: 2}, "BLUE": &graphql.EnumValueConfig{Value: 1.5}}})
		leafTypes := map[string]graphql.Output{
			"i": graphql.Int, "f": graphql.Float, "s": graphql.String, "b": graphql.Boolean, "id": graphql.ID, "e": color, "dt": graphql.DateTime,
			"fl": graphql.NewList(graphql.Float), "il": graphql.NewList(graphql.Int), "sl": graphql.NewList(graphql.String),
			"fll": graphql.NewList(graphql.NewList(graphql.Float)), "el": graphql.NewList(color),
		}
		// non-null positions live in their own object so that a failure there nulls only that object
		nn := graphql.NewObject(graphql.ObjectConfig{Name: "NN", Fields: graphql.Fields{
			"nf":  &graphql.Field{Type: graphql.NewNonNull(graphql.Float)},
			"nfl": &graphql.Field{Type: graphql.NewList(graphql.NewNonNull(graphql.Float))},
		}})
		mkLeaves := func(explicit bool) graphql.Fields {
			fs := graphql.Fields{}
			for name, t := range leafTypes {
				name := name
				f := &graphql.Field{Type: t}
				if explicit {
					f.Resolve = func(p graphql.ResolveParams) (interface{}, error) {
						m, _ := p.Context.Value(c09ValKey{}).(map[string]interface{})
						return m[name], nil
					}
				}
				fs[name] = f
			}
			return fs
		}
		src := func(p graphql.ResolveParams) (interface{}, error) {
			m, _ := p.Context.Value(c09ValKey{}).(map[string]interface{})
			return m["__src"], nil
		}
		vFields := mkLeaves(false)
		vFields["n"] = &graphql.Field{Type: nn}
		v := graphql.NewObject(graphql.ObjectConfig{Name: "V", Fields: vFields})
		r := graphql.NewObject(graphql.ObjectConfig{Name: "R", Fields: mkLeaves(true)})
		qFields := mkLeaves(false)
		qFields["n"] = &graphql.Field{Type: nn}
		qFields["v"] = &graphql.Field{Type: v}
		qFields["xv"] = &graphql.Field{Type: v, Resolve: src}
		qFields["tv"] = &graphql.Field{Type: v, Resolve: func(p graphql.ResolveParams) (interface{}, error) {
			return func() (interface{}, error) { return src(p) }, nil
		}}
		qFields["r"] = &graphql.Field{Type: r, Resolve: func(p graphql.ResolveParams) (interface{}, error) { return 1, nil }}
		q := graphql.NewObject(graphql.ObjectConfig{Name: "Q", Fields: qFields})
		m := graphql.NewObject(graphql.ObjectConfig{Name: "M", Fields: graphql.Fields{
			"xv": &graphql.Field{Type: v, Resolve: src},
			"tv": qFields["tv"],
			"r":  qFields["r"],
		}})
		s, err := graphql.NewSchema(graphql.SchemaConfig{Query: q, Mutation: m})
		if err != nil {
			panic(err)
		}
		c09ValSchema = s
	})
	return &c09ValSchema
}

// ---- the pool of adversarial values ----

type c09Val struct {
	v    interface{}
	desc string
}

func c09ValPool() []c09Val {
	var out []c09Val
	add := func(desc string, v interface{}) { out = append(out, c09Val{v, desc}) }
	inf, ninf, nan := math.Inf(1), math.Inf(-1), math.NaN()
	for _, s := range []string{"1", "1.5", "-0", "+7", "1e5", "1E5", "1e999", "-1e999", "1e-999", "1e400", "4.9e-324", "1.7976931348623159e308",
		"Inf", "+Inf", "-Inf", "inf", "INF", "iNf", "Infinity", "-Infinity", "+infinity", "INFINITY", "NaN", "nan", "NAN", "+NaN", "-nan",
		"0x1p-2", "0x10", "0X1P+2000", "1_000", "0b11", "0o7", " 1", "1 ", "", " ", "true", "TRUE", "T", "t", "false", "F", "x", "null",
		"2147483647", "2147483648", "-2147483648", "-2147483649", "4294967296", "9223372036854775807", "9223372036854775808", "99999999999999999999999",
		"2147483647.5", "2147483648.0", ".5", "5.", "1e", "--1", "é", "\x00", "\xff\xfe", "RED", "GREEN", "red", "2", "2006-01-02T15:04:05Z", "0000-00-00",
		strings.Repeat("9", 400), strings.Repeat("9", 400) + ".5", "1" + strings.Repeat("0", 309)} {
		s := s
		add(fmt.Sprintf("string %q", s), s)
		if len(s) < 12 {
			add(fmt.Sprintf("*string %q", s), &s)
			add(fmt.Sprintf("named string %q", s), c09MyStr(s))
			add(fmt.Sprintf("[]byte %q", s), []byte(s))
			add(fmt.Sprintf("json.Number %q", s), json.Number(s))
		}
	}
	for _, f := range []float64{inf, ninf, nan, math.MaxFloat64, -math.MaxFloat64, math.SmallestNonzeroFloat64, math.Copysign(0, -1), 0, 1.5, -1.5, 1e300, 1e-300,
		2147483647, 2147483647.5, 2147483648, -2147483648, -2147483648.5, -2147483649, 4294967296, 9.3e18, -9.3e18, 1.9e19} {
		f := f
		add(fmt.Sprintf("float64 %v", f), f)
		add(fmt.Sprintf("*float64 %v", f), &f)
		pf := &f
		add(fmt.Sprintf("**float64 %v", f), &pf)
		add(fmt.Sprintf("named float64 %v", f), c09MyFloat(f))
		g := float32(f)
		add(fmt.Sprintf("float32 %v", g), g)
		add(fmt.Sprintf("*float32 %v", g), &g)
	}
	add("float32 MaxFloat32", float32(math.MaxFloat32))
	add("float32(2147483647) (rounds to 2^31)", float32(2147483647))
	add("float32(-2147483649)", float32(-2147483649))
	for _, n := range []int64{0, 1, -1, 127, 128, -129, 32767, 32768, 65535, 65536, math.MaxInt32, math.MaxInt32 + 1, math.MinInt32, math.MinInt32 - 1,
		math.MaxUint32, math.MaxUint32 + 1, math.MaxInt64, math.MinInt64, 1 << 53, 1<<53 + 1} {
		n := n
		add(fmt.Sprintf("int64 %d", n), n)
		add(fmt.Sprintf("*int64 %d", n), &n)
		i := int(n)
		add(fmt.Sprintf("int %d", i), i)
		add(fmt.Sprintf("*int %d", i), &i)
		add(fmt.Sprintf("int32 %d", int32(n)), int32(n))
		add(fmt.Sprintf("int16 %d", int16(n)), int16(n))
		add(fmt.Sprintf("int8 %d", int8(n)), int8(n))
		add(fmt.Sprintf("uint64 %d", uint64(n)), uint64(n))
		u := uint(n)
		add(fmt.Sprintf("uint %d", u), u)
		add(fmt.Sprintf("*uint %d", u), &u)
		add(fmt.Sprintf("uint32 %d", uint32(n)), uint32(n))
		add(fmt.Sprintf("uint16 %d", uint16(n)), uint16(n))
		add(fmt.Sprintf("uint8 %d", uint8(n)), uint8(n))
		add(fmt.Sprintf("named int32 %d", int32(n)), c09MyInt(n))
		add(fmt.Sprintf("uintptr %d", uintptr(n)), uintptr(n))
	}
	add("uint64 max", uint64(math.MaxUint64))
	add("uint32 2^31", uint32(1<<31))
	t, f := true, false
	add("bool true", true)
	add("bool false", false)
	add("*bool true", &t)
	add("*bool false", &f)
	// typed nils
	add("nil", nil)
	add("(*string)(nil)", (*string)(nil))
	add("(*int)(nil)", (*int)(nil))
	add("(*float64)(nil)", (*float64)(nil))
	add("(*float32)(nil)", (*float32)(nil))
	add("(*bool)(nil)", (*bool)(nil))
	add("(*time.Time)(nil)", (*time.Time)(nil))
	add("(*[]interface{})(nil)", (*[]interface{})(nil))
	add("(*c09ValStruct)(nil)", (*c09ValStruct)(nil))
	add("(map[string]interface{})(nil)", (map[string]interface{})(nil))
	add("([]interface{})(nil)", ([]interface{})(nil))
	add("(func() interface{})(nil)", (func() interface{})(nil))
	add("(func() (interface{}, error))(nil)", (func() (interface{}, error))(nil))
	add("(chan int)(nil)", (chan int)(nil))
	var ps *string
	add("**string -> nil", &ps)
	var iface interface{} = inf
	add("*interface{} -> +Inf", &iface)
	// funcs
	add("func() interface{} -> +Inf", func() interface{} { return inf })
	add("func() interface{} -> \"Inf\"", func() interface{} { return "Inf" })
	add("func() interface{} -> func", func() interface{} { return func() interface{} { return 1 } })
	add("thunk -> 1.5", func() (interface{}, error) { return 1.5, nil })
	add("thunk -> \"-Infinity\"", func() (interface{}, error) { return "-Infinity", nil })
	add("thunk -> NaN", func() (interface{}, error) { return nan, nil })
	add("thunk -> error", func() (interface{}, error) { return nil, errors.New("deferred failure") })
	add("thunk -> value and error", func() (interface{}, error) { return inf, errors.New("deferred failure") })
	add("thunk -> panic", func() (interface{}, error) { panic("deferred panic") })
	add("thunk -> thunk -> \"Inf\"", func() (interface{}, error) { return func() (interface{}, error) { return "Inf", nil }, nil })
	add("thunk -> thunk -> thunk -> [+Inf]", func() (interface{}, error) {
		return func() (interface{}, error) {
			return func() (interface{}, error) { return []interface{}{inf}, nil }, nil
		}, nil
	})
	add("thunk -> func() interface{}", func() (interface{}, error) { return func() interface{} { return 2 }, nil })
	add("func(int) int", func(x int) int { return x })
	add("func()", func() {})
	// channels, maps, slices, structs where a leaf is expected
	add("chan int", make(chan int))
	add("map[string]interface{}", map[string]interface{}{"i": 1, "f": "Inf"})
	add("map[int]string", map[int]string{1: "x"})
	add("struct", c09ValStruct{F: inf})
	add("*struct", &c09ValStruct{F: "Inf", I: 1})
	add("Stringer", c09Stringer{})
	add("error", errors.New("an error value"))
	add("complex128", complex(1, 2))
	add("json.RawMessage", json.RawMessage(`{"a":`))
	// time
	tm := time.Date(2020, 2, 29, 12, 0, 0, 123, time.UTC)
	add("time.Time", tm)
	add("*time.Time", &tm)
	add("time.Time zero", time.Time{})
	add("time.Time year 10000", time.Date(10000, 1, 1, 0, 0, 0, 0, time.UTC))
	add("time.Time year -1", time.Date(-1, 1, 1, 0, 0, 0, 0, time.UTC))
	add("time.Time odd zone", time.Date(2020, 1, 1, 0, 0, 0, 0, time.FixedZone("X", 25*3600+30)))
	add("time.Duration", time.Duration(5))
	ptm := &tm
	add("**time.Time", &ptm)
	// list shapes
	add("[]interface{}{}", []interface{}{})
	add("[]interface{}{1, \"Inf\", +Inf, nil, NaN}", []interface{}{1, "Inf", inf, nil, nan})
	add("[]interface{}{\"-infinity\"}", []interface{}{"-infinity"})
	add("[]float64{1, +Inf, NaN}", []float64{1, inf, nan})
	add("[]float32{+Inf}", []float32{float32(inf)})
	add("[]string{\"1\", \"+inf\", \"nan\"}", []string{"1", "+inf", "nan"})
	add("[]int{2147483648}", []int{1, math.MaxInt32 + 1})
	add("[]int64", []int64{math.MinInt64})
	add("[2]float64{-Inf, 1}", [2]float64{ninf, 1})
	add("[1]string{\"Infinity\"}", [1]string{"Infinity"})
	l := []interface{}{"Inf", 2}
	add("*[]interface{}", &l)
	fl := []float64{inf}
	add("*[]float64{+Inf}", &fl)
	add("[]*float64{&Inf, nil}", []*float64{&inf, nil})
	add("[]*string", []*string{ps})
	add("[][]interface{}", [][]interface{}{{1, "Inf"}, nil, {nan}})
	add("[]interface{} of lists", []interface{}{[]interface{}{inf}, []float64{ninf}, "Inf", nil, [1]float64{nan}})
	add("[][]float64", [][]float64{{inf}, {}})
	add("[]interface{} of thunks", []interface{}{func() (interface{}, error) { return "Inf", nil }, func() interface{} { return inf }})
	add("[]time.Time", []time.Time{tm})
	add("[]map", []map[string]interface{}{{"a": 1}})
	return out
}

var c09Pool []c09Val

func c09PickVal(r *Rng) c09Val {
	if c09Pool == nil {
		c09Pool = c09ValPool()
	}
	return c09Pool[r.Intn(len(c09Pool))]
}

// a random assignment of pool values to the leaf fields, and the same values in each source representation
func c09ValAssignment(r *Rng) (vals map[string]interface{}, desc []string) {
	vals = map[string]interface{}{}
	names := append(append([]string{}, c09ValLeaves...), "nf", "nfl")
	for _, n := range names {
		if r.Chance(15) {
			continue // absent
		}
		v := c09PickVal(r)
		if strings.HasSuffix(n, "l") && r.Chance(40) {
			// a list of pool values
			k := r.Intn(4)
			l := []interface{}{}
			ds := []string{}
			for j := 0; j < k; j++ {
				e := c09PickVal(r)
				l = append(l, e.v)
				ds = append(ds, e.desc)
			}
			v = c09Val{l, "[" + strings.Join(ds, "; ") + "]"}
			if r.Chance(20) {
				v = c09Val{&l, "pointer to " + v.desc}
			}
		}
		vals[n] = v.v
		desc = append(desc, n+" = "+v.desc)
	}
	sort.Strings(desc)
	return
}

func c09ValSource(kind int, vals map[string]interface{}) interface{} {
	nnm := map[string]interface{}{"nf": vals["nf"], "nfl": vals["nfl"]}
	switch kind {
	case 0:
		m := map[string]interface{}{"n": nnm}
		for k, v := range vals {
			m[k] = v
		}
		return m
	case 1:
		m := c09NamedMap{"n": c09NamedMap(nnm)}
		for k, v := range vals {
			m[k] = v
		}
		return m
	case 2, 3:
		s := c09ValStruct{I: vals["i"], F: vals["f"], S: vals["s"], B: vals["b"], ID: vals["id"], E: vals["e"], DT: vals["dt"], Fl: vals["fl"], Il: vals["il"],
			Sl: vals["sl"], Fll: vals["fll"], El: vals["el"], N: &c09ValStruct{Nf: vals["nf"], Nfl: vals["nfl"]}}
		if kind == 2 {
			return s
		}
		return &s
	default:
		m := c09FieldResolver{"n": c09FieldResolver(nnm)}
		for k, v := range vals {
			m[k] = v
		}
		return m
	}
}

var c09ValSourceNames = []string{"map[string]interface{}", "named map type", "struct", "pointer to struct", "FieldResolver"}

func c09ValuesInput(j c09Job) *c09Input {
	r := NewRng(j.Seed^0x7a1, uint64(j.Idx))
	_, desc := c09ValAssignment(r)
	kind := r.Intn(5)
	entry := []string{"do", "execute", "executeplan", "mutation"}[r.Intn(4)]
	return &c09Input{Entry: "values-" + entry, Schema: "values", Req: []byte(strings.Join(desc, "\n")),
		Note: "adversarial root / resolver values; nested source: " + c09ValSourceNames[kind], Tags: []string{"values"}}
}

func c09ValuesJob(j c09Job, in *c09Input) *c09Obs {
	r := NewRng(j.Seed^0x7a1, uint64(j.Idx))
	vals, descs := c09ValAssignment(r)
	kind := r.Intn(5)
	entry := []string{"do", "execute", "executeplan", "mutation"}[r.Intn(4)]
	o := c09ValuesRun(vals, kind, entry)
	bad := func(o *c09Obs) bool {
		return o.fail != "" || !o.jsonOK || !o.keysOK || (!o.hasData && o.nErrs == 0)
	}
	if bad(o) && !strings.HasPrefix(o.fail, "hang:") {
		// shrink: drop assignments while the failure persists
		names := make([]string, 0, len(vals))
		for k := range vals {
			names = append(names, k)
		}
		sort.Strings(names)
		for _, k := range names {
			v, ok := vals[k]
			if !ok {
				continue
			}
			delete(vals, k)
			if o2 := c09ValuesRun(vals, kind, entry); bad(o2) && !strings.HasPrefix(o2.fail, "hang:") {
				o = o2
			} else {
				vals[k] = v
			}
		}
		var keep []string
		for _, d := range descs {
			if _, ok := vals[strings.SplitN(d, " = ", 2)[0]]; ok {
				keep = append(keep, d)
			}
		}
		o.extra["minimal_values"] = strings.Join(keep, "; ")
	}
	return o
}

func c09ValuesRun(vals map[string]interface{}, kind int, entry string) *c09Obs {
	o := &c09Obs{extra: map[string]interface{}{}, jsonOK: true, keysOK: true}
	schema := c09ValuesSchema()
	leaves := strings.Join(c09ValLeaves, " ")
	query := "{ " + leaves + " n { nf nfl } v { " + leaves + " n { nf nfl } } xv { " + leaves + " n { nf nfl } } tv { f fl fll n { nf } } r { " + leaves + " } }"
	if entry == "mutation" {
		query = "mutation { xv { " + leaves + " n { nf nfl } } tv { " + leaves + " } r { " + leaves + " } }"
	}
	src := c09ValSource(kind, vals)
	ctxVals := map[string]interface{}{"__src": src}
	for k, v := range vals {
		ctxVals[k] = v
	}
	ctx := context.WithValue(context.Background(), c09ValKey{}, ctxVals)
	// the root: for Do a map (the only kind Params accepts), holding the leaves and the nested source;
	// for Execute the chosen representation itself
	rootMap, _ := c09ValSource(0, vals).(map[string]interface{})
	rootMap["v"] = src
	var rootAny interface{} = rootMap
	if entry == "execute" || entry == "executeplan" {
		switch s := src.(type) {
		case c09NamedMap:
			s["v"] = c09ValSource(kind, vals)
			rootAny = s
		case c09FieldResolver:
			s["v"] = c09ValSource(kind, vals)
			rootAny = s
		default:
			rootAny = src // structs: no field v, the nested object is absent
		}
	}
	o.extra["query"] = query
	var res *graphql.Result
	pm, hung := c09Timed(len(query), func() {
		switch entry {
		case "do", "mutation":
			res = graphql.Do(graphql.Params{Schema: *schema, RequestString: query, RootObject: rootMap, Context: ctx})
		case "execute":
			doc, err := c09Parse([]byte(query))
			if err != nil {
				panic(err)
			}
			res = graphql.Execute(graphql.ExecuteParams{Schema: *schema, AST: doc, Root: rootAny, Context: ctx})
		case "executeplan":
			doc, err := c09Parse([]byte(query))
			if err != nil {
				panic(err)
			}
			plan, err := graphql.PlanQuery(schema, doc, "")
			if err != nil {
				panic(err)
			}
			res = graphql.ExecutePlan(plan, graphql.ExecuteParams{Schema: *schema, Root: rootAny, Context: ctx})
		}
	})
	if pm != "" || hung {
		o.fail = c09FailOf(entry+" with adversarial values", pm, hung)
		return o
	}
	c09Shape(o, res)
	if !o.jsonOK {
		o.tags = append(o.tags, "not-serialisable")
	}
	o.nt = true
	return o
}
