package main

// C16: Do / Execute / ExecutePlan under cancellation and deadlines, driven with logical gates.
//
// A request selects n fields whose resolvers run one after the other in ExecutePlan's background
// goroutine; each resolver reports when it is entered and then blocks until the driver opens its
// gate.  A variable of a custom scalar type makes variable coercion call ParseValue, which is
// gated the same way.  The driver fires "Done" (cancel, a hand-driven deadline context, or a real
// timer) at a chosen point and requires the call to return while the gate it is blocked on is
// still closed: "promptly" is logical, the watchdog only turns a hang into a failure.

import (
	"context"
	"encoding/json"
	"errors"
	"fmt"
	"os"
	"path/filepath"
	"regexp"
	"strings"
	"sync"
	"time"

	"github.com/graphql-go/graphql"
	"github.com/graphql-go/graphql/gqlerrors"
	"github.com/graphql-go/graphql/language/ast"
)

func init() { props["C16"] = genC16 }

const (
	c16ReturnBudget = 5 * time.Second
	c16QuietBudget  = 3 * time.Second
)

// ---- a context whose deadline the driver fires by hand ----

type c16ManualCtx struct {
	context.Context
	done chan struct{}
	mu   sync.Mutex
	err  error
}

func c16NewManual() *c16ManualCtx {
	return &c16ManualCtx{Context: context.Background(), done: make(chan struct{})}
}
func (c *c16ManualCtx) Done() <-chan struct{} { return c.done }
func (c *c16ManualCtx) Err() error {
	c.mu.Lock()
	defer c.mu.Unlock()
	return c.err
}
func (c *c16ManualCtx) Deadline() (time.Time, bool) { return time.Now().Add(time.Hour), true }
func (c *c16ManualCtx) fire() {
	c.mu.Lock()
	if c.err == nil {
		c.err = context.DeadlineExceeded
		close(c.done)
	}
	c.mu.Unlock()
}

// ---- trial state shared with the resolvers ----

type c16State struct {
	n        int
	observe  bool
	plan     []bool // planned outcome per resolver: true value, false error
	varsOK   bool
	replay   []int // replay mode: outcomes to reproduce (1 value, 0 own error, 2 ctx error message), nil = gated mode
	ctxMsg   string
	gates    []chan struct{}
	entered  []chan struct{}
	vgate    chan struct{}
	ventered chan struct{}
	once     []sync.Once
	vonce    sync.Once
	mu       sync.Mutex
	outcome  []int // recorded: -1 not run, 1 value, 0 own error, 2 ctx error
}

var c16Cur *c16State    // state of the running trial (gated schema)
var c16Replay *c16State // state of the replay schema

func c16Resolver(k int, cur **c16State) graphql.FieldResolveFn {
	return func(p graphql.ResolveParams) (interface{}, error) {
		st := *cur
		if st.replay != nil {
			switch st.replay[k] {
			case 1:
				return k + 1, nil
			case 2:
				return nil, errors.New(st.ctxMsg)
			}
			return nil, fmt.Errorf("resolver %d fails", k+1)
		}
		st.once[k].Do(func() { close(st.entered[k]) })
		<-st.gates[k]
		res := 1
		if st.observe && p.Context != nil && p.Context.Err() != nil {
			res = 2
		} else if !st.plan[k] {
			res = 0
		}
		st.mu.Lock()
		st.outcome[k] = res
		st.mu.Unlock()
		switch res {
		case 1:
			return k + 1, nil
		case 2:
			return nil, p.Context.Err()
		}
		return nil, fmt.Errorf("resolver %d fails", k+1)
	}
}

// a well-behaved extension with no result: registering it must not change what a cancelled call does
type c16Ext struct{}

func (c16Ext) Init(ctx context.Context, p *graphql.Params) context.Context { return ctx }
func (c16Ext) Name() string                                                { return "c16-noop" }
func (c16Ext) ParseDidStart(ctx context.Context) (context.Context, graphql.ParseFinishFunc) {
	return ctx, func(error) {}
}
func (c16Ext) ValidationDidStart(ctx context.Context) (context.Context, graphql.ValidationFinishFunc) {
	return ctx, func([]gqlerrors.FormattedError) {}
}
func (c16Ext) ExecutionDidStart(ctx context.Context) (context.Context, graphql.ExecutionFinishFunc) {
	return ctx, func(*graphql.Result) {}
}
func (c16Ext) ResolveFieldDidStart(ctx context.Context, info *graphql.ResolveInfo) (context.Context, graphql.ResolveFieldFinishFunc) {
	return ctx, func(interface{}, error) {}
}
func (c16Ext) HasResult() bool                           { return false }
func (c16Ext) GetResult(ctx context.Context) interface{} { return nil }

func c16Schema(cur **c16State, withExt bool) graphql.Schema {
	g := graphql.NewScalar(graphql.ScalarConfig{
		Name:      "G",
		Serialize: func(v interface{}) interface{} { return v },
		ParseValue: func(v interface{}) interface{} {
			st := *cur
			if st.replay == nil {
				st.vonce.Do(func() { close(st.ventered) })
				<-st.vgate
			}
			if !st.varsOK {
				return nil
			}
			return v
		},
		ParseLiteral: func(v ast.Value) interface{} { return nil },
	})
	fields := graphql.Fields{}
	for k := 0; k < 4; k++ {
		fields[fmt.Sprintf("f%d", k+1)] = &graphql.Field{Type: graphql.Int,
			Args:    graphql.FieldConfigArgument{"a": &graphql.ArgumentConfig{Type: g}},
			Resolve: c16Resolver(k, cur)}
	}
	cfg := graphql.SchemaConfig{Query: graphql.NewObject(graphql.ObjectConfig{Name: "Query", Fields: fields})}
	if withExt {
		cfg.Extensions = []graphql.Extension{c16Ext{}}
	}
	s, err := graphql.NewSchema(cfg)
	if err != nil {
		panic(err)
	}
	return s
}

func c16Query(n int) string {
	var sb strings.Builder
	sb.WriteString("query Q($x: G) { f1(a: $x)")
	for k := 1; k < n; k++ {
		fmt.Fprintf(&sb, " f%d", k+1)
	}
	sb.WriteString(" }")
	return sb.String()
}

// capacity of ExecutePlan's result channel, read from the source
func c16ChannelCap() int {
	repo := os.Getenv("VERIF_REPO")
	if repo == "" {
		repo = "/repo"
	}
	b, err := os.ReadFile(filepath.Join(repo, "plan.go"))
	if err != nil {
		return 0
	}
	src := string(b)
	if i := strings.Index(src, "func ExecutePlan("); i >= 0 {
		src = src[i:]
	}
	m := regexp.MustCompile(`make\(chan \*Result(?:,\s*(\d+))?\)`).FindStringSubmatch(src)
	if m == nil || m[1] == "" {
		return 0
	}
	n := 0
	fmt.Sscanf(m[1], "%d", &n)
	return n
}

type c16Trial struct {
	N       int    `json:"n"`
	Point   string `json:"point"` // before, before-open, vars, vars-fail, res, after, race
	K       int    `json:"k"`     // for res: index (1-based) of the resolver that is blocked when Done fires
	Kind    string `json:"kind"`  // cancel, deadline (hand-driven), timer (real WithTimeout)
	Observe bool   `json:"observe"`
	Entry   string `json:"entry"` // Do, Execute, ExecutePlan
	Plan    []bool `json:"plan"`
	Ext     bool   `json:"ext,omitempty"`      // a well-behaved extension is registered in the schema
	First   string `json:"first,omitempty"`    // race: which of open/cancel the driver does first
	DelayUs int    `json:"delay_us,omitempty"` // race: busy wait between the two (diversifies who wins)
	Trace   string `json:"trace"`
	Result  string `json:"result,omitempty"`
}

func c16JSON(r *graphql.Result) string {
	if r == nil {
		return "<nil result>"
	}
	b, err := json.Marshal(r)
	if err != nil {
		return "<unmarshalable: " + err.Error() + ">"
	}
	return string(b)
}

func c16Call(schema graphql.Schema, entry string, n int, ctx context.Context) *graphql.Result {
	q := c16Query(n)
	vars := map[string]interface{}{"x": 5}
	switch entry {
	case "Execute":
		return graphql.Execute(graphql.ExecuteParams{Schema: schema, AST: c15Parse(q), OperationName: "Q", Args: vars, Context: ctx})
	case "ExecutePlan":
		plan, err := graphql.PlanQuery(&schema, c15Parse(q), "Q")
		if err != nil {
			panic(err)
		}
		return graphql.ExecutePlan(plan, graphql.ExecuteParams{Schema: schema, Args: vars, Context: ctx})
	}
	return graphql.Do(graphql.Params{Schema: schema, RequestString: q, OperationName: "Q", VariableValues: vars, Context: ctx})
}

// c16Run performs the trial; returns the Coq case (or "") and a direct failure (or "").
func c16Run(schema, replaySchema graphql.Schema, t *c16Trial, chCap int) (coq string, fail string) {
	n := t.N
	st := &c16State{n: n, observe: t.Observe, plan: t.Plan, varsOK: t.Point != "vars-fail" && t.Point != "varsfail-complete",
		gates: make([]chan struct{}, 4), entered: make([]chan struct{}, 4), vgate: make(chan struct{}), ventered: make(chan struct{}),
		once: make([]sync.Once, 4), outcome: []int{-1, -1, -1, -1}}
	for i := range st.gates {
		st.gates[i] = make(chan struct{})
		st.entered[i] = make(chan struct{})
	}
	c16Cur = st
	base, _, _ := c15LibGoroutines()

	var ctx context.Context
	var fire func()
	switch t.Kind {
	case "deadline":
		m := c16NewManual()
		ctx, fire = m, m.fire
	case "timer":
		// a real deadline, long enough for the driver to reach its point (it waits for the entered signals;
		// if the timer fires earlier the trace simply records Done where the driver saw it)
		d := 25 * time.Millisecond
		if t.Point == "after" {
			d = 150 * time.Millisecond
		}
		c, cancel := context.WithTimeout(context.Background(), d)
		defer cancel()
		ctx = c
		fire = func() { <-c.Done() }
	default:
		c, cancel := context.WithCancel(context.Background())
		ctx, fire = c, cancel
	}

	type entry struct {
		s    string
		gate int // >= 0: an OOpen whose outcome is filled in at the end
	}
	var trace []entry
	log := func(s string) { trace = append(trace, entry{s, -1}) }
	opened := make([]bool, 4)
	vopened := false
	openGate := func(k int) {
		if !opened[k] {
			opened[k] = true
			close(st.gates[k])
			trace = append(trace, entry{"", k})
		}
	}
	openVars := func() {
		if !vopened {
			vopened = true
			close(st.vgate)
			log("OOpenVars " + coqBool(st.varsOK))
		}
	}
	retCh := make(chan *graphql.Result, 1)
	panicCh := make(chan string, 1)
	var returned *graphql.Result
	hasReturned := false
	call := func() {
		log("OCall")
		go func() {
			var r *graphql.Result
			if p := guard(func() { r = c16Call(schema, t.Entry, n, ctx) }); p != "" {
				panicCh <- p
				return
			}
			retCh <- r
		}()
	}
	waitEntered := func(c chan struct{}, what string) bool {
		select {
		case <-c:
			return true
		case p := <-panicCh:
			fail = "panic in the call: " + p
		case r := <-retCh:
			returned, hasReturned = r, true
			return false
		case <-time.After(c16ReturnBudget):
			fail = "hang: " + what + " was not reached within " + c16ReturnBudget.String()
		}
		return false
	}
	waitReturn := func(why string) bool {
		if hasReturned {
			return true
		}
		select {
		case r := <-retCh:
			returned, hasReturned = r, true
			return true
		case p := <-panicCh:
			fail = "panic in the call: " + p
		case <-time.After(c16ReturnBudget):
			_, _, dump := c15LibGoroutines()
			fail = fmt.Sprintf("hang: the call did not return within %v %s\n%s", c16ReturnBudget, why, dump)
		}
		return false
	}
	pollPending := func() {
		select {
		case r := <-retCh:
			returned, hasReturned = r, true
		default:
			log("OPending")
		}
	}
	cleanup := func() {
		// release everything so that no goroutine of this trial survives it
		if t.Kind != "timer" {
			fire()
		}
		if !vopened {
			close(st.vgate)
			vopened = true
		}
		for k := 0; k < 4; k++ {
			if !opened[k] {
				opened[k] = true
				close(st.gates[k])
			}
		}
	}
	defer cleanup()

	doneLogged := false
	doDone := func() {
		fire()
		log("ODone")
		doneLogged = true
	}
	logReturn := func() {}
	var retEntryIdx = -1
	logReturn = func() {
		if !doneLogged && ctx.Err() != nil {
			log("ODone") // a real timer fired before the driver got to its point
			doneLogged = true
		}
		retEntryIdx = len(trace)
		log("ORET")
	}

	switch t.Point {
	case "before", "before-open":
		doDone()
		if t.Point == "before-open" {
			openVars()
			for k := 0; k < n; k++ {
				openGate(k)
			}
		}
		call()
		if !waitReturn("although the context was done before the call") {
			return "", fail
		}
		logReturn()
	case "vars", "vars-fail":
		call()
		if !waitEntered(st.ventered, "ParseValue") {
			if fail != "" {
				return "", fail
			}
		} else {
			pollPending()
		}
		if !hasReturned {
			doDone()
			if !waitReturn("although the context is done (ParseValue still blocked)") {
				return "", fail
			}
		}
		logReturn()
	case "res":
		openVars()
		call()
		ok := true
		for i := 0; i < t.K-1 && ok; i++ {
			ok = waitEntered(st.entered[i], fmt.Sprintf("resolver %d", i+1))
			if ok {
				openGate(i)
			}
		}
		if ok {
			ok = waitEntered(st.entered[t.K-1], fmt.Sprintf("resolver %d", t.K))
		}
		if fail != "" {
			return "", fail
		}
		if ok {
			pollPending()
		}
		if !hasReturned {
			doDone()
			if !waitReturn(fmt.Sprintf("although the context is done (resolver %d of %d still blocked)", t.K, n)) {
				return "", fail
			}
		}
		logReturn()
	case "varsfail-complete":
		call()
		if waitEntered(st.ventered, "ParseValue") {
			pollPending()
			openVars()
		}
		if fail != "" {
			return "", fail
		}
		if !waitReturn("although variable coercion has failed") {
			return "", fail
		}
		logReturn()
		doDone()
	case "after":
		openVars()
		call()
		ok := true
		for i := 0; i < n && ok; i++ {
			ok = waitEntered(st.entered[i], fmt.Sprintf("resolver %d", i+1))
			if ok {
				openGate(i)
			}
		}
		if fail != "" {
			return "", fail
		}
		if !waitReturn("although every resolver has returned") {
			return "", fail
		}
		logReturn()
		doDone()
	case "race":
		openVars()
		call()
		ok := true
		for i := 0; i < n-1 && ok; i++ {
			ok = waitEntered(st.entered[i], fmt.Sprintf("resolver %d", i+1))
			if ok {
				openGate(i)
			}
		}
		if ok {
			ok = waitEntered(st.entered[n-1], fmt.Sprintf("resolver %d", n))
		}
		if fail != "" {
			return "", fail
		}
		if !hasReturned {
			spin := func() {
				for t0 := time.Now(); time.Since(t0) < time.Duration(t.DelayUs)*time.Microsecond; {
				}
			}
			if t.First == "open" {
				openGate(n - 1)
				spin()
				doDone()
			} else {
				doDone()
				spin()
				openGate(n - 1)
			}
			if !waitReturn("although the context is done") {
				return "", fail
			}
		}
		logReturn()
	}
	_ = doneLogged

	// classify what was returned, with the outcomes recorded up to the return
	st.mu.Lock()
	rec := append([]int(nil), st.outcome...)
	st.mu.Unlock()
	js := c16JSON(returned)
	t.Result = js
	ctxErr := ctx.Err()
	retTerm := ""
	other := 0
	isCtx := func(e string) bool { return ctxErr != nil && e == ctxErr.Error() }
	switch {
	case returned == nil:
		other = 3
	case returned.Data == nil && len(returned.Errors) == 1 && isCtx(returned.Errors[0].Message) && len(returned.Errors[0].Path) == 0 && len(returned.Errors[0].Locations) == 0:
		retTerm = "ORet RetCtx"
	default:
		// the full response for the outcomes recorded so far, or the coercion failure
		all := true
		for k := 0; k < n; k++ {
			if rec[k] < 0 {
				all = false
			}
		}
		rp := &c16State{n: n, varsOK: st.varsOK, replay: rec, ctxMsg: ""}
		if ctxErr != nil {
			rp.ctxMsg = ctxErr.Error()
		}
		if !st.varsOK {
			rp.replay = []int{1, 1, 1, 1}
		}
		if all || !st.varsOK {
			c16Replay = rp
			exp := c16JSON(c16Call(replaySchema, "Execute", n, context.Background()))
			if js == exp {
				if !st.varsOK {
					retTerm = "ORet (RetResp RespVarErr)"
				} else {
					outs := make([]string, n)
					for k := 0; k < n; k++ {
						outs[k] = coqBool(rec[k] == 1)
					}
					// the errors the returned result really carries, by the field their path names
					errs := []string{}
					for _, e := range returned.Errors {
						idx := -1
						if len(e.Path) == 1 {
							fmt.Sscanf(fmt.Sprint(e.Path[0]), "f%d", &idx)
						}
						if idx < 1 {
							idx = 1000 // an error that no field accounts for
						}
						errs = append(errs, coqN(idx-1)+"%nat")
					}
					retTerm = "ORet (RetResp (RespFull " + coqList(outs) + " " + coqList(errs) + "))"
				}
			}
		}
		if retTerm == "" {
			other = 3
			topCtx := false
			for _, e := range returned.Errors {
				if isCtx(e.Message) && len(e.Path) == 0 {
					topCtx = true
				}
			}
			if topCtx && len(returned.Errors) == 1 {
				other = 1
			} else if topCtx {
				other = 2
			}
		}
	}

	// let everything finish and wait for the library goroutines to go away
	openVars()
	for k := 0; k < n; k++ {
		openGate(k)
	}
	if ok, dump := c15WaitQuiet(base, c16QuietBudget); !ok {
		return "", fmt.Sprintf("goroutine leak: %v after every gate was opened a library goroutine is still alive\n%s", c16QuietBudget, dump)
	}
	log("OQuiet")

	st.mu.Lock()
	final := append([]int(nil), st.outcome...)
	st.mu.Unlock()
	parts := make([]string, 0, len(trace))
	for i, e := range trace {
		switch {
		case e.gate >= 0:
			o := final[e.gate]
			if i < retEntryIdx && rec[e.gate] >= 0 {
				o = rec[e.gate]
			}
			b := o == 1
			if o < 0 {
				b = st.plan[e.gate]
			}
			parts = append(parts, "OOpen "+coqBool(b))
		case e.s == "ORET":
			if retTerm != "" {
				parts = append(parts, retTerm)
			}
		default:
			parts = append(parts, e.s)
		}
	}
	t.Trace = strings.Join(parts, "; ")
	if other != 0 {
		return fmt.Sprintf("OtherCase %d %d", n, other), ""
	}
	return fmt.Sprintf("CancelCase %d %d %s", n, chCap, coqList(parts)), ""
}

func genC16(tier string, seed uint64, nCases int, e *Emitter) {
	schema := c16Schema(&c16Cur, false)
	replaySchema := c16Schema(&c16Replay, false)
	schemaX := c16Schema(&c16Cur, true)
	replaySchemaX := c16Schema(&c16Replay, true)
	chCap := c16ChannelCap()
	fails := 0
	idx := uint64(0)
	emit := func(t c16Trial) {
		if fails >= 6 {
			return
		}
		idx++
		r := NewRng(seed, idx)
		t.Plan = make([]bool, 4)
		for i := range t.Plan {
			t.Plan[i] = r.Intn(4) != 0
		}
		var coq, fail string
		sc, rsc := schema, replaySchema
		if t.Ext {
			sc, rsc = schemaX, replaySchemaX
		}
		if p := guard(func() { coq, fail = c16Run(sc, rsc, &t, chCap) }); p != "" {
			fail = p
		}
		if fail != "" {
			fails++
		}
		nt := t.Point == "res" || t.Point == "race" || t.Point == "vars" || t.Point == "vars-fail"
		tags := []string{"n=" + fmt.Sprint(t.N), "point=" + t.Point, "kind=" + t.Kind, "entry=" + t.Entry}
		if t.Ext {
			tags = append(tags, "extension-registered")
		}
		if t.Observe {
			tags = append(tags, "resolvers-observe-ctx")
		} else {
			tags = append(tags, "resolvers-ignore-ctx")
		}
		if strings.Contains(t.Trace, "ORet RetCtx") {
			tags = append(tags, "outcome=ctx-error")
		} else if strings.Contains(t.Trace, "ORet") {
			tags = append(tags, "outcome=response")
		}
		group := "points"
		if t.Point == "race" {
			group = "race"
		}
		e.Emit(Case{Coq: coq, Desc: t, NT: nt, Tags: tags, Group: group, Fail: fail})
	}
	entries := []string{"Do", "Execute", "ExecutePlan"}
	kinds := []string{"cancel", "deadline"}
	for n := 1; n <= 4; n++ {
		for _, entry := range entries {
			for _, kind := range kinds {
				for _, obs := range []bool{false, true} {
					for _, pt := range []string{"before", "before-open", "vars", "vars-fail", "varsfail-complete", "after"} {
						emit(c16Trial{N: n, Point: pt, Kind: kind, Observe: obs, Entry: entry})
					}
					for k := 1; k <= n; k++ {
						emit(c16Trial{N: n, Point: "res", K: k, Kind: kind, Observe: obs, Entry: entry})
					}
					// with an extension registered: Done fires while the last resolver is blocked / during coercion
					emit(c16Trial{N: n, Point: "res", K: n, Kind: kind, Observe: obs, Entry: entry, Ext: true})
					emit(c16Trial{N: n, Point: "vars", Kind: kind, Observe: obs, Entry: entry, Ext: true})
					emit(c16Trial{N: n, Point: "after", Kind: kind, Observe: obs, Entry: entry, Ext: true})
				}
			}
		}
		// real timers: a deadline that expires while resolver k is blocked / during coercion / after completion
		for _, obs := range []bool{false, true} {
			for k := 1; k <= n; k++ {
				emit(c16Trial{N: n, Point: "res", K: k, Kind: "timer", Observe: obs, Entry: "Do"})
			}
			emit(c16Trial{N: n, Point: "vars", Kind: "timer", Observe: obs, Entry: "Do"})
		}
	}
	emit(c16Trial{N: 2, Point: "after", Kind: "timer", Entry: "Do"})
	// racing completion
	reps := 200
	if tier == "thorough" {
		reps = 10000
	}
	if nCases > 0 {
		reps = nCases
	}
	for i := 0; i < reps; i++ {
		r := NewRng(seed, uint64(900000+i))
		first := "open"
		if r.Bool() {
			first = "cancel"
		}
		emit(c16Trial{N: 1 + r.Intn(4), Point: "race", Kind: kinds[r.Intn(2)], Observe: r.Bool(), Entry: entries[r.Intn(3)], First: first, DelayUs: r.Intn(8) * r.Intn(60), Ext: r.Intn(3) == 0})
	}
}
