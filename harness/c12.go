package main

// C12 -- the same request always produces the same response.
// Implementation against implementation: every request of the corpus (and
// generated ones) is executed many times in this process -- through
// graphql.Do, through a plan cache, interleaved with the other requests in
// changing orders -- and in several fresh processes (this binary re-executed
// with GQLVERIF_C12_CHILD set, so that map seeds and schema construction
// differ); the bytes of json.Marshal(result) must be the same every time.
// A go/ast + go/types scan lists every range over a map in the library and
// compares it with the classification the C12 model was written against.

import (
	"bytes"
	"context"
	"crypto/sha256"
	"encoding/hex"
	"encoding/json"
	"errors"
	"fmt"
	"go/ast"
	"go/parser"
	"go/token"
	"go/types"
	"os"
	"os/exec"
	"path/filepath"
	"reflect"
	"runtime"
	"sort"
	"strconv"
	"strings"
	"time"

	"github.com/graphql-go/graphql"
	"github.com/graphql-go/graphql/gqlerrors"
	gqlparser "github.com/graphql-go/graphql/language/parser"
	"github.com/graphql-go/graphql/language/source"
	"github.com/graphql-go/graphql/testutil"
)

func init() {
	props["C12"] = genC12
	if v := os.Getenv("GQLVERIF_C12_CHILD"); v != "" {
		c12Child(v)
		os.Exit(0)
	}
}

// ---- schema ----

func c12FailingThunk(msg string) graphql.FieldResolveFn {
	return func(p graphql.ResolveParams) (interface{}, error) {
		return func() (interface{}, error) { return nil, errors.New(msg) }, nil
	}
}

// a resolver whose response is its argument map and that afterwards treats
// p.Args as its own: overwrites, deletes and adds top-level entries
func c12ArgEcho(p graphql.ResolveParams) (interface{}, error) {
	b, _ := json.Marshal(p.Args)
	for k := range p.Args {
		if k == "b" {
			delete(p.Args, k)
		} else {
			p.Args[k] = "overwritten by an earlier call"
		}
	}
	p.Args["added"] = "by an earlier call"
	return string(b), nil
}

func c12ArgEchoField() *graphql.Field {
	return &graphql.Field{Type: graphql.String, Resolve: c12ArgEcho, Args: graphql.FieldConfigArgument{
		"a": &graphql.ArgumentConfig{Type: graphql.Int}, "b": &graphql.ArgumentConfig{Type: graphql.String},
		"c": &graphql.ArgumentConfig{Type: graphql.NewList(graphql.Int)}, "d": &graphql.ArgumentConfig{Type: graphql.Boolean, DefaultValue: true}}}
}

func c12Schema() graphql.Schema {
	str := func(v string) graphql.FieldResolveFn {
		return func(p graphql.ResolveParams) (interface{}, error) { return v, nil }
	}
	fail := func(msg string) graphql.FieldResolveFn {
		return func(p graphql.ResolveParams) (interface{}, error) { return nil, errors.New(msg) }
	}
	named := graphql.NewInterface(graphql.InterfaceConfig{Name: "Named", Fields: graphql.Fields{
		"name": &graphql.Field{Type: graphql.String}, "nick": &graphql.Field{Type: graphql.String}, "alias": &graphql.Field{Type: graphql.String}}})
	being := graphql.NewInterface(graphql.InterfaceConfig{Name: "Being", Fields: graphql.Fields{
		"name": &graphql.Field{Type: graphql.String}, "age": &graphql.Field{Type: graphql.Int}}})
	pet := graphql.NewInterface(graphql.InterfaceConfig{Name: "Pet", Fields: graphql.Fields{
		"name": &graphql.Field{Type: graphql.String}}})
	common := func(extra graphql.Fields) graphql.Fields {
		f := graphql.Fields{
			"name": &graphql.Field{Type: graphql.String}, "nick": &graphql.Field{Type: graphql.String},
			"alias": &graphql.Field{Type: graphql.String}, "age": &graphql.Field{Type: graphql.Int},
			"broken":  &graphql.Field{Type: graphql.String, Resolve: fail("broken")},
			"lazyBad": &graphql.Field{Type: graphql.String, Resolve: c12FailingThunk("lazy broken")},
			"argEcho": c12ArgEchoField(),
		}
		for k, v := range extra {
			f[k] = v
		}
		return f
	}
	kind := func(k string) graphql.IsTypeOfFn {
		return func(p graphql.IsTypeOfParams) bool {
			m, ok := p.Value.(map[string]interface{})
			return ok && m["kind"] == k
		}
	}
	dog := graphql.NewObject(graphql.ObjectConfig{Name: "Dog", Interfaces: []*graphql.Interface{named, being, pet}, IsTypeOf: kind("Dog"),
		Fields: common(graphql.Fields{"barks": &graphql.Field{Type: graphql.Boolean}, "barkVolume": &graphql.Field{Type: graphql.Int}})})
	cat := graphql.NewObject(graphql.ObjectConfig{Name: "Cat", Interfaces: []*graphql.Interface{named, being, pet}, IsTypeOf: kind("Cat"),
		Fields: common(graphql.Fields{"meows": &graphql.Field{Type: graphql.Boolean}, "meowVolume": &graphql.Field{Type: graphql.Int}})})
	human := graphql.NewObject(graphql.ObjectConfig{Name: "Human", Interfaces: []*graphql.Interface{named, being}, IsTypeOf: kind("Human"),
		Fields: common(graphql.Fields{"pets": &graphql.Field{Type: graphql.NewList(pet)}})})
	robot := graphql.NewObject(graphql.ObjectConfig{Name: "Robot", Interfaces: []*graphql.Interface{named}, IsTypeOf: kind("Robot"),
		Fields: common(graphql.Fields{"model": &graphql.Field{Type: graphql.String}})})
	catOrDog := graphql.NewUnion(graphql.UnionConfig{Name: "CatOrDog", Types: []*graphql.Object{cat, dog}})
	color := graphql.NewEnum(graphql.EnumConfig{Name: "Color", Values: graphql.EnumValueConfigMap{
		"RED": &graphql.EnumValueConfig{Value: 1}, "GREEN": &graphql.EnumValueConfig{Value: 2}, "BLUE": &graphql.EnumValueConfig{Value: 3},
		"GREY": &graphql.EnumValueConfig{Value: 4}, "GRAY": &graphql.EnumValueConfig{Value: 5}, "BLACK": &graphql.EnumValueConfig{Value: 6}}})
	inner := graphql.NewInputObject(graphql.InputObjectConfig{Name: "Inner", Fields: graphql.InputObjectConfigFieldMap{
		"p": &graphql.InputObjectFieldConfig{Type: graphql.NewNonNull(graphql.Int)},
		"q": &graphql.InputObjectFieldConfig{Type: graphql.NewNonNull(graphql.Int)},
		"r": &graphql.InputObjectFieldConfig{Type: graphql.String}}})
	inn := graphql.NewInputObject(graphql.InputObjectConfig{Name: "Inn", Fields: graphql.InputObjectConfigFieldMap{
		"a": &graphql.InputObjectFieldConfig{Type: graphql.NewNonNull(graphql.Int)},
		"b": &graphql.InputObjectFieldConfig{Type: graphql.String},
		"c": &graphql.InputObjectFieldConfig{Type: graphql.NewList(graphql.Int)},
		"d": &graphql.InputObjectFieldConfig{Type: inner},
		"e": &graphql.InputObjectFieldConfig{Type: graphql.NewNonNull(graphql.Boolean)},
		"f": &graphql.InputObjectFieldConfig{Type: color, DefaultValue: 1},
		"g": &graphql.InputObjectFieldConfig{Type: graphql.Float}}})
	inx := graphql.NewInputObject(graphql.InputObjectConfig{Name: "Inx", Fields: graphql.InputObjectConfigFieldMap{
		"a": &graphql.InputObjectFieldConfig{Type: graphql.Int}}})
	iny := graphql.NewInputObject(graphql.InputObjectConfig{Name: "Iny", Fields: graphql.InputObjectConfigFieldMap{
		"a": &graphql.InputObjectFieldConfig{Type: graphql.Int}}})
	animals := []interface{}{
		map[string]interface{}{"kind": "Dog", "name": "Rex", "nick": "R", "barks": true},
		map[string]interface{}{"kind": "Cat", "name": "Tom", "nick": "T", "meows": true},
	}
	qf := graphql.Fields{
		"argEcho": c12ArgEchoField(),
		"aab":     &graphql.Field{Type: graphql.String, Resolve: str("aab")}, "aac": &graphql.Field{Type: graphql.String, Resolve: str("aac")},
		"aad": &graphql.Field{Type: graphql.String, Resolve: str("aad")}, "aae": &graphql.Field{Type: graphql.String, Resolve: str("aae")},
		"aba": &graphql.Field{Type: graphql.String, Resolve: str("aba")}, "aca": &graphql.Field{Type: graphql.String, Resolve: str("aca")},
		"echo": &graphql.Field{Type: graphql.String, Args: graphql.FieldConfigArgument{
			"in": &graphql.ArgumentConfig{Type: inn}, "color": &graphql.ArgumentConfig{Type: color}, "n": &graphql.ArgumentConfig{Type: graphql.Int},
			"ina": &graphql.ArgumentConfig{Type: inx}, "inb": &graphql.ArgumentConfig{Type: iny}},
			Resolve: func(p graphql.ResolveParams) (interface{}, error) {
				b, _ := json.Marshal(p.Args)
				return string(b), nil
			}},
		"args3": &graphql.Field{Type: graphql.String, Args: graphql.FieldConfigArgument{
			"arga": &graphql.ArgumentConfig{Type: graphql.Int}, "argb": &graphql.ArgumentConfig{Type: graphql.Int},
			"argc": &graphql.ArgumentConfig{Type: graphql.Int}, "argd": &graphql.ArgumentConfig{Type: graphql.Int, DefaultValue: 7}},
			Resolve: str("args3")},
		"req2": &graphql.Field{Type: graphql.String, Args: graphql.FieldConfigArgument{
			"x": &graphql.ArgumentConfig{Type: graphql.NewNonNull(graphql.Int)}, "y": &graphql.ArgumentConfig{Type: graphql.NewNonNull(graphql.Int)},
			"z": &graphql.ArgumentConfig{Type: graphql.NewNonNull(graphql.Int)}}, Resolve: str("req2")},
		"pets":  &graphql.Field{Type: graphql.NewList(pet), Resolve: func(p graphql.ResolveParams) (interface{}, error) { return animals, nil }},
		"named": &graphql.Field{Type: graphql.NewList(named), Resolve: func(p graphql.ResolveParams) (interface{}, error) { return animals, nil }},
		"dogs": &graphql.Field{Type: graphql.NewList(dog), Resolve: func(p graphql.ResolveParams) (interface{}, error) {
			return []interface{}{map[string]interface{}{"kind": "Dog", "name": "Rex"}, map[string]interface{}{"kind": "Dog", "name": "Fido"},
				map[string]interface{}{"kind": "Dog", "name": "Bo"}}, nil
		}},
		"catOrDog": &graphql.Field{Type: graphql.NewList(catOrDog), Resolve: func(p graphql.ResolveParams) (interface{}, error) { return animals, nil }},
		"human": &graphql.Field{Type: human, Resolve: func(p graphql.ResolveParams) (interface{}, error) {
			return map[string]interface{}{"kind": "Human", "name": "Ann", "pets": animals}, nil
		}},
		"robot": &graphql.Field{Type: robot, Resolve: func(p graphql.ResolveParams) (interface{}, error) {
			return map[string]interface{}{"kind": "Robot", "name": "R2"}, nil
		}},
	}
	for i := 1; i <= 6; i++ {
		qf[fmt.Sprintf("e%d", i)] = &graphql.Field{Type: graphql.String, Resolve: fail(fmt.Sprintf("e%d failed", i))}
		qf[fmt.Sprintf("t%d", i)] = &graphql.Field{Type: graphql.String, Resolve: c12FailingThunk(fmt.Sprintf("t%d failed", i))}
	}
	q := graphql.NewObject(graphql.ObjectConfig{Name: "Query", Fields: qf})
	// the mutation type offers every query field too, so that each request class exists in both forms
	mf := graphql.Fields{}
	for k, f := range qf {
		cp := *f
		mf[k] = &cp
	}
	for i := 1; i <= 4; i++ {
		mf[fmt.Sprintf("m%d", i)] = &graphql.Field{Type: graphql.String, Resolve: c12FailingThunk(fmt.Sprintf("m%d failed", i))}
		mf[fmt.Sprintf("ok%d", i)] = &graphql.Field{Type: graphql.String, Resolve: str("ok")}
	}
	m := graphql.NewObject(graphql.ObjectConfig{Name: "Mutation", Fields: mf})
	sf := graphql.Fields{}
	for i := 1; i <= 3; i++ {
		v := fmt.Sprintf("event%d", i)
		sf[fmt.Sprintf("s%d", i)] = &graphql.Field{Type: graphql.String,
			Subscribe: func(p graphql.ResolveParams) (interface{}, error) {
				c := make(chan interface{}, 1)
				c <- v
				close(c)
				return c, nil
			},
			Resolve: func(p graphql.ResolveParams) (interface{}, error) { return p.Source, nil }}
	}
	sub := graphql.NewObject(graphql.ObjectConfig{Name: "Subscription", Fields: sf})
	dir := graphql.NewDirective(graphql.DirectiveConfig{Name: "tag", Locations: []string{graphql.DirectiveLocationField},
		Args: graphql.FieldConfigArgument{"za": &graphql.ArgumentConfig{Type: graphql.Int}, "yb": &graphql.ArgumentConfig{Type: graphql.Int},
			"xc": &graphql.ArgumentConfig{Type: graphql.Int}, "wd": &graphql.ArgumentConfig{Type: graphql.Int}}})
	s, err := graphql.NewSchema(graphql.SchemaConfig{Query: q, Mutation: m, Subscription: sub, Types: []graphql.Type{dog, cat, human, robot, catOrDog, inx, iny},
		Directives: append([]*graphql.Directive{dir}, graphql.SpecifiedDirectives...)})
	if err != nil {
		panic(err)
	}
	return s
}

// ---- requests ----

type c12Req struct {
	Kind  string                 `json:"kind"`
	Query string                 `json:"query"`
	Op    string                 `json:"op,omitempty"`
	Vars  map[string]interface{} `json:"vars,omitempty"`
}

func c12Corpus() []c12Req {
	q := func(kind, query string) c12Req { return c12Req{Kind: kind, Query: query} }
	badObj := map[string]interface{}{"a": "x", "b": 1, "zz": 1, "yy": 2, "c": []interface{}{"u"}, "d": map[string]interface{}{"q": "w", "k": 1}}
	rs := []c12Req{
		q("valid", `{ aab aac aad pets { name ... on Dog { barks } ... on Cat { meows } } human { name pets { name } } }`),
		q("valid", `query Q($n: Int = 3) { echo(n: $n, color: RED, in: {a: 1, e: true, d: {p: 1, q: 2}}) args3(arga: 1) }`),
		q("valid", `{ named { name nick } catOrDog { ... on Named { name } } robot { model } }`),
		// resolvers that read their all-literal arguments and then modify p.Args: at the root, twice in one
		// selection, under lists with several items, in a mutation-free query repeated on a cached plan
		q("args-mutated", `{ argEcho(a: 1, b: "x", c: [1, 2]) }`), q("args-mutated", `{ argEcho }`),
		q("args-mutated", `{ x: argEcho(a: 1, b: "x") y: argEcho(a: 1, b: "x") }`),
		q("args-mutated", `{ dogs { name argEcho(a: 7, b: "p", c: [3]) } }`),
		q("args-mutated", `{ dogs { argEcho } human { argEcho(a: 2) pets { ... on Dog { argEcho(a: 3, d: false) } ... on Cat { argEcho(a: 5) } } } }`),
		{Kind: "args-mutated", Query: `query($v: Int) { argEcho(a: $v, b: "lit") dogs { argEcho(a: $v, b: "lit") } }`, Vars: map[string]interface{}{"v": 9}},
		// did-you-mean lists with equally distant candidates
		q("suggest-field", `{ aaa }`), q("suggest-field", `{ aa }`), q("suggest-field", `{ aab aaz abb }`), q("suggest-field", `{ a }`),
		q("suggest-field", `{ human { nam nic ag } }`), q("suggest-field", `{ e7 t9 }`),
		q("suggest-type", `query($i: Inz) { aab }`), q("suggest-type", `query($i: In) { aab }`),
		q("suggest-type", `{ aab ...F } fragment F on Dot { name }`), q("suggest-type", `{ pets { ... on Cot { name } } }`),
		q("suggest-arg", `{ args3(argx: 1) }`), q("suggest-arg", `{ echo(im: 1, i: 2) }`), q("suggest-arg", `{ aab @tag(zz: 1) }`),
		q("suggest-abstract", `{ pets { barks } }`), q("suggest-abstract", `{ named { age meows barks } }`),
		q("suggest-abstract", `{ catOrDog { name } }`), q("suggest-abstract", `{ named { pets model } }`),
		// invalid input-object literals with several bad fields
		q("bad-literal", `{ echo(in: {}) }`), q("bad-literal", `{ echo(in: {a: "x", b: 1, zz: 1, yy: 2, e: 3}) }`),
		q("bad-literal", `{ echo(in: {zz: 1, yy: 2, xx: 3, ww: 4}) }`), q("bad-literal", `{ echo(in: {a: 1, e: true, d: {}}) }`),
		q("bad-literal", `{ echo(in: {a: 1, e: true, d: {p: "s", q: "t", r: 1, k: 2}, c: ["a", "b"]}) }`),
		q("bad-literal", `{ echo(color: PURPLE) }`), q("bad-literal", `{ echo(color: GREN, in: {a: 1, e: true, f: GRAU}) }`),
		q("bad-literal", `query($v: Inn = {zz: 1, yy: 2}) { echo(in: $v) }`),
		q("bad-literal", `{ req2 }`), q("bad-literal", `{ req2(x: "a", y: "b", z: "c") }`),
		// invalid variables with several bad fields
		{Kind: "bad-variable", Query: `query($i: Inn) { echo(in: $i) }`, Vars: map[string]interface{}{"i": badObj}},
		{Kind: "bad-variable", Query: `query($i: Inn!) { echo(in: $i) }`, Vars: map[string]interface{}{"i": map[string]interface{}{}}},
		{Kind: "bad-variable", Query: `query($i: Inn, $j: Inn, $n: Int!) { echo(in: $i, n: $n) x: echo(in: $j) }`,
			Vars: map[string]interface{}{"i": badObj, "j": map[string]interface{}{"zz": 1, "yy": 1}}},
		{Kind: "bad-variable", Query: `query($c: Color, $n: Int) { echo(color: $c, n: $n) }`, Vars: map[string]interface{}{"c": "PURPLE", "n": "x"}},
		{Kind: "valid", Query: `query($i: Inn) { echo(in: $i) }`, Vars: map[string]interface{}{"i": map[string]interface{}{"a": 1, "e": true, "g": 1.5, "d": map[string]interface{}{"p": 1, "q": 2}}}},
		// failing at execution
		q("exec-errors", `{ e1 e2 e3 e4 e5 e6 }`), q("exec-errors", `{ t1 t2 t3 t4 t5 t6 }`), q("exec-errors", `{ t4 e2 t1 e3 t3 e1 aab }`),
		q("exec-errors", `{ pets { name broken lazyBad } human { broken lazyBad pets { lazyBad broken } } named { lazyBad } }`),
		q("exec-errors", `{ z: t1 y: t2 x: t3 w: t4 v: e1 u: e2 }`),
		q("exec-errors", `mutation { m1 m2 ok1 m3 m4 }`), q("exec-errors", `mutation { d: m1 c: m2 b: m3 a: m4 }`),
		// objects holding several failing deferred values (2, 3, 6 of them), below root fields and below lists
		q("exec-errors", `{ human { a: lazyBad b: lazyBad } }`), q("exec-errors", `{ robot { c: lazyBad b: lazyBad a: lazyBad } }`),
		q("exec-errors", `{ human { f: lazyBad e: lazyBad d: lazyBad c: lazyBad b: lazyBad a: lazyBad pets { y: lazyBad x: lazyBad } } second: human { b: lazyBad a: broken c: lazyBad } }`),
		q("exec-errors", `{ dogs { q: lazyBad p: lazyBad } t2 robot { k: lazyBad j: lazyBad } t1 }`),
		// introspection
		q("introspection", `{ __schema { types { name fields { name args { name } } } } }`),
		q("introspection", `{ __schema { types { name kind inputFields { name defaultValue } enumValues { name } interfaces { name } possibleTypes { name } } } }`),
		q("introspection", `{ __type(name: "Inn") { inputFields { name type { name } defaultValue } } }`),
		q("introspection", `{ __type(name: "Color") { enumValues { name } } }`),
		q("introspection", `{ a: __type(name: "Named") { possibleTypes { name } fields { name } } b: __type(name: "Being") { possibleTypes { name } } c: __type(name: "Pet") { possibleTypes { name } } }`),
		q("introspection", `{ __type(name: "CatOrDog") { possibleTypes { name } } }`),
		q("introspection", `{ __type(name: "Dog") { interfaces { name } fields { name } } }`),
		q("introspection", `{ __schema { directives { name locations args { name defaultValue } } queryType { name } mutationType { fields { name } } } }`),
		q("introspection", `{ __type(name: "Query") { fields { name args { name defaultValue } } } }`),
		q("introspection", testutil.IntrospectionQuery),
		// one document per validation rule (several violations each where possible)
		q("rule", `{ aab { x } human }`), q("rule", `query A { aab } query A { aac } query B { aad } query B { aae }`),
		q("rule", `{ aab } query B { aac } { aad }`), q("rule", `{ aab ...F ...G } fragment F on Query { aab } fragment F on Query { aac } fragment G on Query { aad } fragment G on Query { aad }`),
		q("rule", `{ aab } fragment U1 on Query { aab } fragment U2 on Query { aac } fragment U3 on Query { aad }`),
		q("rule", `{ ...A } fragment A on Query { ...B } fragment B on Query { ...C ...A } fragment C on Query { ...A ...B }`),
		q("rule", `{ ...X ...Y ...Z }`), q("rule", `query($a: Int, $b: Int, $c: Int) { aab }`),
		q("rule", `{ echo(n: $a, color: $b) args3(arga: $c, argb: $d) }`), q("rule", `query($a: Int, $a: Int, $b: Int, $b: Int) { echo(n: $a) args3(arga: $b) }`),
		q("rule", `{ args3(arga: 1, arga: 2, argb: 1, argb: 2) }`), q("rule", `{ echo(in: {a: 1, a: 2, e: true, e: false}) }`),
		q("rule", `{ aab @nope @alsoNope aac @skip }`), q("rule", `query @skip(if: true) { aab @tag @tag }`),
		q("rule", `query($a: Query, $b: [Dog!], $c: Pet) { aab }`), q("rule", `query($a: Int = "x", $b: Int! = 1, $c: Inn = {zz: 1}) { echo(n: $a) args3(arga: $b) x: echo(in: $c) }`),
		q("rule", `query($a: String, $b: Int) { echo(n: $a, color: $b) }`), q("rule", `{ x: aab x: aac y: aad y: aae echo(n: 1) echo(n: 2) }`),
		q("rule", `{ pets { ... on Human { name } ... on Robot { name } } human { ... on Dog { name } } }`),
		q("rule", `{ aab ...F ...G } fragment F on Int { x } fragment G on Color { y }`), q("rule", `{ human pets named { name { x } } }`),
		q("rule", `subscription { aab }`), q("rule", `{ aab`), q("rule", `{ aab } }`), q("rule", `query { echo(n: 99999999999) echo2: echo(n: 1.5) }`),
		q("subscription", `subscription { s2 }`), q("subscription", `subscription { s1 s2 s3 }`), q("subscription", `subscription { z: s3 a: s1 m: s2 }`),
		{Kind: "operation", Query: `query A { aab } query B { aac }`, Op: "C"}, {Kind: "operation", Query: `query A { aab } query B { aac }`},
		{Kind: "operation", Query: `query A { aab } query B { aac }`, Op: "B"},
	}
	// one response key selected three times on a level, the later occurrences behind variable-driven directives:
	// the same document under every assignment, so that a cached plan is reused across assignments in every order
	for _, dq := range []string{
		`query($x: Boolean!, $y: Boolean!) { human { name } human @include(if: $x) { pets { name } } human @include(if: $y) { n2: name } }`,
		`query($x: Boolean!, $y: Boolean!) { pets { name } pets @skip(if: $x) { ... on Dog { barks } } pets @skip(if: $y) { ... on Cat { meows } } }`,
		`query($x: Boolean!, $y: Boolean!) { a: human { name } a: human @include(if: $x) { pets { name } } a: human @skip(if: $y) { pets { ... on Dog { barks } } } aab @include(if: $x) }`,
	} {
		for _, xv := range []bool{true, false} {
			for _, yv := range []bool{false, true} {
				rs = append(rs, c12Req{Kind: "dyn-directive", Query: dq, Vars: map[string]interface{}{"x": xv, "y": yv}})
			}
		}
	}
	// every executable request class in mutation form as well (serial execution, depth-first forcing)
	both := map[string]bool{"valid": true, "exec-errors": true, "args-mutated": true, "bad-literal": true, "suggest-field": true, "suggest-arg": true}
	n := len(rs)
	for i := 0; i < n; i++ {
		if both[rs[i].Kind] && strings.HasPrefix(rs[i].Query, "{") {
			rs = append(rs, c12Req{Kind: rs[i].Kind + "-mutation", Query: "mutation " + rs[i].Query, Vars: rs[i].Vars})
		}
	}
	return rs
}

// generated requests: random selections with misspelt names, random input objects with random bad fields
func c12Generated(seed uint64, n int) []c12Req {
	roots := []string{"aab", "aac", "aad", "aae", "aba", "aca", "e1", "e2", "e3", "t1", "t2", "t3", "t4", "args3", "pets", "named", "human"}
	letters := "abcdeginprstz"
	var rs []c12Req
	for i := 0; i < n; i++ {
		r := NewRng(seed, uint64(i)+77000)
		var sb strings.Builder
		kind := "gen-select"
		sb.WriteString("{")
		k := 1 + r.Intn(6)
		for j := 0; j < k; j++ {
			name := r.Pick(roots)
			if r.Chance(35) { // misspell
				b := []byte(name)
				p := r.Intn(len(b))
				switch r.Intn(3) {
				case 0:
					b[p] = letters[r.Intn(len(letters))]
				case 1:
					b = append(b[:p], b[p+1:]...)
				default:
					b = append(b[:p], append([]byte{letters[r.Intn(len(letters))]}, b[p:]...)...)
				}
				if len(b) > 0 {
					name = string(b)
				}
			}
			fmt.Fprintf(&sb, " k%d: %s", j, name)
			switch {
			case strings.HasPrefix(name, "pets"), strings.HasPrefix(name, "named"), strings.HasPrefix(name, "human"):
				sub := []string{"name", "nick", "nam", "barks", "meows", "broken", "lazyBad", "age", "agee", "alias"}
				sb.WriteString(" {")
				for x := 0; x < 1+r.Intn(4); x++ {
					fmt.Fprintf(&sb, " s%d: %s", x, r.Pick(sub))
				}
				sb.WriteString(" }")
			}
		}
		if r.Chance(50) {
			kind = "gen-input"
			fields := []string{"a: 1", "a: \"s\"", "b: \"s\"", "b: 2", "c: [1]", "c: [\"x\"]", "e: true", "e: 0", "f: RED", "f: PINK", "g: 1.5", "g: \"x\"",
				"zz: 1", "yy: 2", "xx: 3", "d: {p: 1, q: 2}", "d: {p: \"s\"}", "d: {k: 1, j: 2}"}
			sb.WriteString(" echo(in: {")
			used := map[string]bool{}
			for x := 0; x < r.Intn(7); x++ {
				f := r.Pick(fields)
				nm := f[:strings.Index(f, ":")]
				if used[nm] {
					continue
				}
				used[nm] = true
				if len(used) > 1 {
					sb.WriteString(", ")
				}
				sb.WriteString(f)
			}
			sb.WriteString("})")
		}
		sb.WriteString(" }")
		if r.Chance(35) {
			rs = append(rs, c12Req{Kind: kind + "-mutation", Query: "mutation " + sb.String()})
			continue
		}
		rs = append(rs, c12Req{Kind: kind, Query: sb.String()})
	}
	return rs
}

// ---- execution paths ----

func c12Marshal(res *graphql.Result) string {
	b, err := json.Marshal(res)
	if err != nil {
		return "marshal error: " + err.Error()
	}
	return string(b)
}

func c12Do(s *graphql.Schema, rq c12Req) (out string) {
	if p := guard(func() {
		out = c12Marshal(graphql.Do(graphql.Params{Schema: *s, RequestString: rq.Query, OperationName: rq.Op, VariableValues: rq.Vars, Context: context.Background()}))
	}); p != "" {
		return p
	}
	return out
}

func c12ViaCache(s *graphql.Schema, cache *graphql.PlanCache, rq c12Req) (out string) {
	if p := guard(func() {
		pr := cache.Get(s, rq.Query, rq.Op)
		if pr.Plan == nil {
			out = c12Marshal(&graphql.Result{Errors: pr.Errors})
			return
		}
		args := rq.Vars
		if len(pr.SynthArgs) > 0 {
			args = map[string]interface{}{}
			for k, v := range rq.Vars {
				args[k] = v
			}
			for k, v := range pr.SynthArgs {
				args[k] = v
			}
		}
		out = c12Marshal(graphql.ExecutePlan(pr.Plan, graphql.ExecuteParams{Schema: *s, OperationName: rq.Op, Args: args, Context: context.Background()}))
	}); p != "" {
		return p
	}
	return out
}

// the first result delivered by ExecuteSubscription
func c12Subscribe(s *graphql.Schema, rq c12Req) (out string) {
	if p := guard(func() {
		doc, err := gqlparser.Parse(gqlparser.ParseParams{Source: source.NewSource(&source.Source{Body: []byte(rq.Query), Name: "GraphQL request"})})
		if err != nil {
			out = c12Marshal(&graphql.Result{Errors: gqlerrors.FormatErrors(err)})
			return
		}
		if vr := graphql.ValidateDocument(s, doc, nil); !vr.IsValid {
			out = c12Marshal(&graphql.Result{Errors: vr.Errors})
			return
		}
		ctx, cancel := context.WithCancel(context.Background())
		defer cancel()
		ch := graphql.ExecuteSubscription(graphql.ExecuteParams{Schema: *s, AST: doc, OperationName: rq.Op, Args: rq.Vars, Context: ctx})
		select {
		case r, ok := <-ch:
			if !ok {
				out = "closed without a result"
				return
			}
			out = c12Marshal(r)
		case <-time.After(5 * time.Second):
			out = "no result within 5s"
		}
	}); p != "" {
		return p
	}
	return out
}

func c12Validate(s *graphql.Schema, rq c12Req) (out string) {
	if p := guard(func() {
		doc, err := gqlparser.Parse(gqlparser.ParseParams{Source: source.NewSource(&source.Source{Body: []byte(rq.Query), Name: "GraphQL request"})})
		if err != nil {
			out = c12Marshal(&graphql.Result{Errors: gqlerrors.FormatErrors(err)})
			return
		}
		vr := graphql.ValidateDocument(s, doc, nil)
		b, _ := json.Marshal(vr.Errors)
		out = strconv.FormatBool(vr.IsValid) + string(b)
	}); p != "" {
		return p
	}
	return out
}

// the outputs of one request, per path, as sets (first occurrence order)
type c12Seen struct {
	Do, Cache, Valid []string
}

func c12Add(l *[]string, s string) {
	for _, x := range *l {
		if x == s {
			return
		}
	}
	*l = append(*l, s)
}

// run every request reps times, each round in a different rotation/stride so
// that every request is preceded by changing histories, through Do, a warm
// plan cache and ValidateDocument
func c12RunAll(reqs []c12Req, reps int) []c12Seen {
	s := c12Schema()
	cache := graphql.NewPlanCache(graphql.PlanCacheOptions{})
	seen := make([]c12Seen, len(reqs))
	n := len(reqs)
	strides := []int{1, 7, 3, 11, 5, 13, 17, 19, 23, 29}
	for rep := 0; rep < reps; rep++ {
		st := strides[rep%len(strides)]
		for n > 1 && c12Gcd(st, n) != 1 {
			st++
		}
		for j := 0; j < n; j++ {
			i := (rep*31 + j*st) % n
			if reqs[i].Kind == "subscription" {
				c12Add(&seen[i].Do, c12Subscribe(&s, reqs[i]))
				c12Add(&seen[i].Cache, seen[i].Do[0])
				continue
			}
			c12Add(&seen[i].Do, c12Do(&s, reqs[i]))
			if strings.HasPrefix(reqs[i].Kind, "exec-errors") {
				// error order decided by a two-entry map shows in about one run of eight: repeat more
				for x := 0; x < 5; x++ {
					c12Add(&seen[i].Do, c12Do(&s, reqs[i]))
				}
			}
			if rep%2 == 0 {
				c12Add(&seen[i].Cache, c12ViaCache(&s, cache, reqs[i]))
			}
			if rep%4 == 0 {
				c12Add(&seen[i].Valid, c12Validate(&s, reqs[i]))
			}
		}
		if rep%5 == 4 { // a fresh schema value and a cold cache in the middle of the history
			s = c12Schema()
			cache = graphql.NewPlanCache(graphql.PlanCacheOptions{})
		}
	}
	return seen
}

func c12Gcd(a, b int) int {
	for b != 0 {
		a, b = b, a%b
	}
	return a
}

func c12Requests(seed uint64, n int) []c12Req {
	return append(c12Corpus(), c12Generated(seed, n)...)
}

// child process: GQLVERIF_C12_CHILD = "seed:n:reps"; prints one JSON line per request
func c12Child(spec string) {
	var seed uint64
	var n, reps int
	fmt.Sscanf(spec, "%d:%d:%d", &seed, &n, &reps)
	reqs := c12Requests(seed, n)
	seen := c12RunAll(reqs, reps)
	w := json.NewEncoder(os.Stdout)
	for _, s := range seen {
		w.Encode(s)
	}
}

func c12Spawn(seed uint64, n, reps int) ([]c12Seen, error) {
	cmd := exec.Command(os.Args[0])
	cmd.Env = append(os.Environ(), fmt.Sprintf("GQLVERIF_C12_CHILD=%d:%d:%d", seed, n, reps))
	var stderr bytes.Buffer
	cmd.Stderr = &stderr
	out, err := cmd.Output()
	if err != nil {
		return nil, fmt.Errorf("%v: %s", err, stderr.String())
	}
	var seen []c12Seen
	dec := json.NewDecoder(bytes.NewReader(out))
	for dec.More() {
		var s c12Seen
		if err := dec.Decode(&s); err != nil {
			return nil, err
		}
		seen = append(seen, s)
	}
	return seen, nil
}

// ---- map-range sites ----

const c12LibPath = "github.com/graphql-go/graphql"

// the classification the C12 model (Ext/Determinism.v) was written against:
// site -> why the iteration order cannot reach the response
var c12KnownSites = map[string]string{
	"definition.go:*Enum.defineEnumValues:valueMap":           "sorted: names collected then sort.Strings (site_by_name)",
	"definition.go:*InputObject.defineFieldMap:fieldMap":      "builds a map; construction-time error choice only",
	"definition.go:defineFieldMap:field.Args":                 "sorted: argument names collected then sort.Strings (site_by_name)",
	"definition.go:defineFieldMap:fieldMap":                   "builds a map; construction-time error choice only",
	"directives.go:NewDirective:config.Args":                  "argument list of a directive; observed through introspection in the corpus",
	"executor.go:sortedKeys:m":                                "sorted: sorted_keys",
	"introspection.go:astFromValue:ttype.Fields()":            "sorted: field names collected then sort.Strings (site_by_name)",
	"introspection.go:init:schema.TypeMap()":                  "sorted: type names collected then sort.Strings (site_by_name)",
	"introspection.go:init:ttype.Fields()":                    "sorted: field names collected then sorted (site_by_name)",
	"plan.go:fragmentCycleThroughField:fragments":             "sorted: fragment names collected then sort.Strings",
	"plan.go:resolvePlannedField:fp.args.static":              "copies a map into a map",
	"rules.go:KnownTypeNamesRule:context.Schema().TypeMap()":  "options of suggestionList (site_suggestions)",
	"rules.go:getSuggestedFieldNames:fields":                  "options of suggestionList (site_suggestions)",
	"rules.go:isValidLiteralValue:fields":                     "sorted: field names collected then sort.Strings (site_by_name)",
	"schema.go:*Schema.AddImplementation:gq.typeMap":          "implementation lists; construction-time, observed through possibleTypes in the corpus",
	"schema.go:*Schema.buildPossibleTypeMap:gq.typeMap":       "builds a set",
	"schema.go:NewSchema:schema.typeMap":                      "implementation lists / interface assertions; construction-time, observed through possibleTypes in the corpus",
	"schema.go:assertObjectImplementsInterface:ifaceFieldMap": "construction-time error choice only",
	"schema.go:typeMapReducer:fieldMap":                       "builds the type map; construction-time error choice only",
	"subscription.go:ExecuteSubscription:fields":              "minimum by document position (then name): independent of the order; exercised by the subscription requests",
	"util.go:appendFields:origin":                             "copies a map into a map",
	"values.go:coerceValue:ttype.Fields()":                    "builds a map keyed by field name",
	"values.go:isValidInputValue:fields":                      "sorted: field names collected then sort.Strings (site_by_name)",
	"values.go:isValidInputValue:valueMap":                    "sorted: field names collected then sort.Strings (site_by_name)",
	"values.go:valueFromAST:ttype.Fields()":                   "builds a map keyed by field name",
}

// types whose values outlive a request on one schema value / one plan cache
var c12PersistentTypes = map[string]bool{"Schema": true, "Object": true, "Interface": true, "Union": true, "Enum": true, "InputObject": true,
	"Scalar": true, "List": true, "NonNull": true, "Directive": true, "FieldDefinition": true, "InputObjectField": true,
	"EnumValueDefinition": true, "Argument": true, "Plan": true, "fieldPlan": true, "selectionPlan": true, "planArgs": true,
	"PlanCache": true, "planCacheEntry": true}

const (
	c12Lazy     = "lazily built table of the type system: initialised once from the type's configuration (History.v slot, init = function of the schema)"
	c12PlanSlot = "cached plan or a part of a plan built on demand: determined by schema, request text, operation name (History.v slot)"
	c12Edit     = "schema-editing API called by the application, not by a request: starts a new history"
)

// fields of persistent types written outside their constructors, as the C12
// history model (Ext/History.v) accounts for them
var c12KnownWrites = map[string]string{
	"Enum.nameLookup <- *Enum.getNameLookup": c12Lazy, "Enum.valuesLookup <- *Enum.getValueLookup": c12Lazy,
	"EnumValueDefinition.Value <- *Enum.defineEnumValues": c12Lazy, "FieldDefinition.Args <- defineFieldMap": c12Lazy,
	"InputObject.err <- *InputObject.defineFieldMap": c12Lazy, "InputObject.fields <- *InputObject.Fields": c12Lazy,
	"InputObject.init <- *InputObject.defineFieldMap": c12Lazy, "InputObjectField.DefaultValue <- *InputObject.defineFieldMap": c12Lazy,
	"InputObjectField.PrivateDescription <- *InputObject.defineFieldMap": c12Lazy, "InputObjectField.PrivateName <- *InputObject.defineFieldMap": c12Lazy,
	"InputObjectField.Type <- *InputObject.defineFieldMap": c12Lazy,
	"Interface.err <- *Interface.Fields":                   c12Lazy, "Interface.fields <- *Interface.Fields": c12Lazy, "Interface.initialisedFields <- *Interface.Fields": c12Lazy,
	"Object.err <- *Object.Fields": c12Lazy, "Object.err <- *Object.Interfaces": c12Lazy, "Object.fields <- *Object.Fields": c12Lazy,
	"Object.initialisedFields <- *Object.Fields": c12Lazy, "Object.initialisedInterfaces <- *Object.Interfaces": c12Lazy,
	"Object.interfaces <- *Object.Interfaces": c12Lazy,
	"Union.err <- *Union.Types":               c12Lazy, "Union.initalizedTypes <- *Union.Types": c12Lazy, "Union.types <- *Union.Types": c12Lazy,
	"Schema.possibleTypeMap <- *Schema.buildPossibleTypeMap": c12Lazy,
	"Plan.root <- PlanQuery":                                 c12PlanSlot, "Plan.subPlans <- *Plan.planSelectionSetsLocked": c12PlanSlot,
	"PlanCache.entries <- *PlanCache.store": c12PlanSlot, "PlanCache.entries <- *PlanCache.Reset": c12PlanSlot, "PlanCache.order <- *PlanCache.Reset": c12PlanSlot,
	"fieldPlan.abstractAlternatives <- *Plan.abstractAlternative": c12PlanSlot, "fieldPlan.args <- *Plan.collectInto": c12PlanSlot,
	"fieldPlan.fieldASTs <- *Plan.collectInto": c12PlanSlot, "fieldPlan.returnType <- *Plan.collectInto": c12PlanSlot,
	"fieldPlan.sub <- *Plan.planMergedFieldChildren": c12PlanSlot, "selectionPlan.dynamic <- *Plan.planSelectionSetsLocked": c12PlanSlot,
	"selectionPlan.fields <- *Plan.collectInto": c12PlanSlot, "selectionPlan.fields <- *Plan.planSelectionSetsLocked": c12PlanSlot,
	"Schema.extensions <- *Schema.AddExtensions": c12Edit, "Schema.implementations <- *Schema.AddImplementation": c12Edit,
	"Schema.possibleTypeMap <- *Schema.AddImplementation": c12Edit, "Schema.typeMap <- *Schema.AppendType": c12Edit,
	"Object.initialisedFields <- *Object.AddFieldConfig": c12Edit, "Interface.initialisedFields <- *Interface.AddFieldConfig": c12Edit,
	"InputObject.fields <- *InputObject.AddFieldConfig": c12Edit, "InputObject.err <- *InputObject.AddFieldConfig": c12Edit,
}

// is the write outside the constructor of its type?
func c12AfterConstruction(key string) (string, bool) {
	parts := strings.SplitN(key, " <- ", 2)
	if len(parts) != 2 {
		return "", false
	}
	typ := parts[0][:strings.Index(parts[0], ".")]
	if !c12PersistentTypes[typ] {
		return "", false
	}
	fn := parts[1]
	if strings.HasPrefix(fn, "New") {
		return "", false
	}
	return typ, true
}

type c12Importer struct {
	root   string
	fset   *token.FileSet
	pkgs   map[string]*types.Package
	sites  map[string]int
	writes map[string]int // "Type.field <- func": assignments to fields of the library's own struct types
}

// the struct type (of the library's root package) whose field the expression selects, if it does
func c12FieldOf(info *types.Info, e ast.Expr) (string, bool) {
	for {
		switch x := e.(type) {
		case *ast.IndexExpr: // t.f[k] = v writes into the table held by t.f
			e = x.X
			continue
		case *ast.ParenExpr:
			e = x.X
			continue
		case *ast.StarExpr:
			e = x.X
			continue
		}
		break
	}
	sel, ok := e.(*ast.SelectorExpr)
	if !ok {
		return "", false
	}
	s, ok := info.Selections[sel]
	if !ok || s.Kind() != types.FieldVal {
		return "", false
	}
	t := s.Recv()
	if p, ok := t.(*types.Pointer); ok {
		t = p.Elem()
	}
	named, ok := t.(*types.Named)
	if !ok || named.Obj().Pkg() == nil || named.Obj().Pkg().Path() != c12LibPath {
		return "", false
	}
	if _, isStruct := named.Underlying().(*types.Struct); !isStruct {
		return "", false
	}
	return named.Obj().Name() + "." + sel.Sel.Name, true
}

func (li *c12Importer) Import(path string) (*types.Package, error) {
	if p, ok := li.pkgs[path]; ok {
		return p, nil
	}
	if path != c12LibPath && !strings.HasPrefix(path, c12LibPath+"/") {
		// packages outside the library are not needed to recognise the library's own map types
		parts := strings.Split(path, "/")
		p := types.NewPackage(path, parts[len(parts)-1])
		p.MarkComplete()
		li.pkgs[path] = p
		return p, nil
	}
	dir := filepath.Join(li.root, strings.TrimPrefix(path, c12LibPath))
	pkgs, err := parser.ParseDir(li.fset, dir, func(fi os.FileInfo) bool { return !strings.HasSuffix(fi.Name(), "_test.go") }, 0)
	if err != nil {
		return nil, err
	}
	for _, pkg := range pkgs {
		var names []string
		for n := range pkg.Files {
			names = append(names, n)
		}
		sort.Strings(names)
		var files []*ast.File
		for _, n := range names {
			files = append(files, pkg.Files[n])
		}
		info := &types.Info{Types: map[ast.Expr]types.TypeAndValue{}, Selections: map[*ast.SelectorExpr]*types.Selection{}}
		conf := types.Config{Importer: li, Error: func(error) {}}
		tp, _ := conf.Check(path, li.fset, files, info)
		li.pkgs[path] = tp
		for _, f := range files {
			fn := ""
			ast.Inspect(f, func(n ast.Node) bool {
				switch x := n.(type) {
				case *ast.FuncDecl:
					fn = x.Name.Name
					if x.Recv != nil && len(x.Recv.List) > 0 {
						fn = types.ExprString(x.Recv.List[0].Type) + "." + fn
					}
				case *ast.AssignStmt:
					for _, lhs := range x.Lhs {
						if tf, ok := c12FieldOf(info, lhs); ok {
							li.writes[tf+" <- "+fn]++
						}
					}
				case *ast.IncDecStmt:
					if tf, ok := c12FieldOf(info, x.X); ok {
						li.writes[tf+" <- "+fn]++
					}
				case *ast.RangeStmt:
					if tv, ok := info.Types[x.X]; ok && tv.Type != nil {
						if _, isMap := tv.Type.Underlying().(*types.Map); isMap {
							rel, _ := filepath.Rel(li.root, li.fset.Position(x.Pos()).Filename)
							li.sites[fmt.Sprintf("%s:%s:%s", filepath.ToSlash(rel), fn, types.ExprString(x.X))]++
						}
					}
				}
				return true
			})
		}
		return tp, nil
	}
	return nil, fmt.Errorf("no Go package in %s", dir)
}

// every `range` over a map-typed expression in the non-test files of the library
func c12ScanSites() (map[string]int, map[string]int, string) {
	f := runtime.FuncForPC(reflect.ValueOf(graphql.Do).Pointer())
	if f == nil {
		return nil, nil, "cannot locate the library source"
	}
	file, _ := f.FileLine(f.Entry())
	root := filepath.Dir(file)
	if _, err := os.Stat(filepath.Join(root, "graphql.go")); err != nil {
		return nil, nil, "cannot locate the library source: " + err.Error()
	}
	li := &c12Importer{root: root, fset: token.NewFileSet(), pkgs: map[string]*types.Package{}, sites: map[string]int{}, writes: map[string]int{}}
	filepath.Walk(root, func(p string, info os.FileInfo, err error) error {
		if err != nil || !info.IsDir() {
			return nil
		}
		b := filepath.Base(p)
		if p != root && (strings.HasPrefix(b, ".") || b == "examples" || b == "testutil" || b == "benchutil") {
			return filepath.SkipDir
		}
		rel, _ := filepath.Rel(root, p)
		path := c12LibPath
		if rel != "." {
			path += "/" + filepath.ToSlash(rel)
		}
		li.Import(path)
		return nil
	})
	return li.sites, li.writes, ""
}

// ---- observed iteration orders of real maps (Coq side: premise of the model) ----

func c12RangeCases(e *Emitter) {
	s := c12Schema()
	emit := func(what string, iter func() []string) {
		a, b := iter(), iter()
		for try := 0; try < 20 && reflect.DeepEqual(a, b); try++ {
			b = iter()
		}
		ha := make([]string, len(a))
		hb := make([]string, len(b))
		for i := range a {
			ha[i] = coqHex([]byte(a[i]))
		}
		for i := range b {
			hb[i] = coqHex([]byte(b[i]))
		}
		e.Emit(Case{Group: "map-range-order", Coq: fmt.Sprintf("RangeCase %s %s", coqList(ha), coqList(hb)),
			Desc: map[string]interface{}{"map": what, "order1": a, "order2": b}, NT: !reflect.DeepEqual(a, b), Tags: []string{"observed-order"}})
	}
	emit("Schema.TypeMap()", func() []string {
		var ks []string
		for k := range s.TypeMap() {
			ks = append(ks, k)
		}
		return ks
	})
	for _, tn := range []string{"Query", "Dog", "Mutation"} {
		o := s.TypeMap()[tn].(*graphql.Object)
		emit(tn+".Fields()", func() []string {
			var ks []string
			for k := range o.Fields() {
				ks = append(ks, k)
			}
			return ks
		})
	}
	in := s.TypeMap()["Inn"].(*graphql.InputObject)
	emit("Inn.Fields()", func() []string {
		var ks []string
		for k := range in.Fields() {
			ks = append(ks, k)
		}
		return ks
	})
}

func c12Clip(s string) string {
	if len(s) > 1500 {
		return s[:1500] + fmt.Sprintf("...(%d bytes)", len(s))
	}
	return s
}

func c12FirstDiff(a, b string) int {
	n := len(a)
	if len(b) < n {
		n = len(b)
	}
	for i := 0; i < n; i++ {
		if a[i] != b[i] {
			return i
		}
	}
	return n
}

func genC12(tier string, seed uint64, n int, e *Emitter) {
	reps, procs, childReps := 20, 4, 3
	if n == 0 {
		n = 120
		if tier == "thorough" {
			n = 1500
		}
	}
	if tier == "thorough" {
		reps, procs, childReps = 40, 8, 5
	}
	// (0) map-range sites of the library against the committed classification
	sites, writes, scanErr := c12ScanSites()
	if os.Getenv("GQLVERIF_C12_DUMP") != "" {
		var ws []string
		for k, v := range writes {
			ws = append(ws, fmt.Sprintf("%s x%d", k, v))
		}
		sort.Strings(ws)
		fmt.Fprintln(os.Stderr, strings.Join(ws, "\n"))
	}
	unknown := 0
	var keys []string
	for k := range sites {
		keys = append(keys, k)
	}
	sort.Strings(keys)
	for _, k := range keys {
		why, ok := c12KnownSites[k]
		tag := "site:classified"
		if !ok {
			tag, why = "site:unknown", "not in the classification of the C12 model: repetition budget raised"
			unknown++
		}
		e.Emit(Case{Group: "map-range-site", Desc: map[string]interface{}{"site": k, "occurrences": sites[k], "classification": why}, Tags: []string{tag}})
	}
	var wkeys []string
	for k := range writes {
		if _, ok := c12AfterConstruction(k); ok {
			wkeys = append(wkeys, k)
		}
	}
	sort.Strings(wkeys)
	for _, k := range wkeys {
		why, ok := c12KnownWrites[k]
		tag := "slot:classified"
		if !ok {
			tag, why = "slot:unknown", "a field of a persistent type written after construction that the C12 history model does not list: repetition budget raised"
			unknown++
		}
		e.Emit(Case{Group: "persisted-slot", Desc: map[string]interface{}{"write": k, "occurrences": writes[k], "classification": why}, Tags: []string{tag}})
	}
	if scanErr != "" {
		e.Emit(Case{Group: "map-range-site", Desc: map[string]interface{}{"scan": scanErr}, Tags: []string{"site:scan-unavailable"}})
		unknown = 1
	}
	if unknown > 0 { // advisory: unknown sites multiply the budget, they do not fail the check
		m := 1 + unknown
		if m > 4 {
			m = 4
		}
		reps *= m
		procs *= 2
	}
	// (1) observed iteration orders of the library's maps
	c12RangeCases(e)
	// (2) repetitions in this process and in fresh processes
	reqs := c12Requests(seed, n)
	// the fresh processes run while this one does its own repetitions
	type c12ChildRes struct {
		seen []c12Seen
		err  error
	}
	results := make([]chan c12ChildRes, procs)
	for p := 0; p < procs; p++ {
		results[p] = make(chan c12ChildRes, 1)
		go func(ch chan c12ChildRes) {
			seen, err := c12Spawn(seed, n, childReps)
			ch <- c12ChildRes{seen, err}
		}(results[p])
	}
	local := c12RunAll(reqs, reps)
	var children [][]c12Seen
	childErr := ""
	for p := 0; p < procs; p++ {
		r := <-results[p]
		if r.err != nil || len(r.seen) != len(reqs) {
			if childErr == "" {
				childErr = fmt.Sprintf("fresh process %d: %v (%d results for %d requests)", p, r.err, len(r.seen), len(reqs))
			}
			continue
		}
		children = append(children, r.seen)
	}
	for i, rq := range reqs {
		all := c12Seen{}
		for _, s := range local[i].Do {
			c12Add(&all.Do, s)
		}
		for _, s := range local[i].Cache {
			c12Add(&all.Cache, s)
		}
		for _, s := range local[i].Valid {
			c12Add(&all.Valid, s)
		}
		inproc := len(all.Do) > 1 || len(all.Cache) > 1 || len(all.Valid) > 1
		for _, ch := range children {
			for _, s := range ch[i].Do {
				c12Add(&all.Do, s)
			}
			for _, s := range ch[i].Cache {
				c12Add(&all.Cache, s)
			}
			for _, s := range ch[i].Valid {
				c12Add(&all.Valid, s)
			}
		}
		runs := reps + reps/2 + reps/4 + len(children)*childReps*2
		h := sha256.Sum256([]byte(all.Do[0]))
		desc := map[string]interface{}{"request": rq.Query, "operation": rq.Op, "variables": rq.Vars, "runs": runs, "processes": 1 + len(children),
			"response_sha256": hex.EncodeToString(h[:8]), "response": c12Clip(all.Do[0])}
		tags := []string{"kind:" + rq.Kind}
		hasErr := strings.Contains(all.Do[0], `"errors"`)
		if hasErr {
			tags = append(tags, "response-has-errors")
		}
		c := Case{Group: rq.Kind, Desc: desc, NT: hasErr || rq.Kind == "introspection", Tags: tags}
		report := func(path string, outs []string) {
			where := "between fresh processes"
			if inproc {
				where = "within one process"
			}
			c.Tags = append(c.Tags, "differs:"+path)
			if c.Fail == "" {
				c.Fail = fmt.Sprintf("%d different outputs of %s for one request (%s), first difference at byte %d:\n  A: %s\n  B: %s",
					len(outs), path, where, c12FirstDiff(outs[0], outs[1]), c12Clip(outs[0]), c12Clip(outs[1]))
			}
		}
		if len(all.Do) > 1 && rq.Kind == "subscription" {
			report("first result of ExecuteSubscription(...)", all.Do)
		} else if len(all.Do) > 1 {
			report("json.Marshal(Do(...))", all.Do)
		}
		if len(all.Valid) > 1 {
			report("ValidateDocument(...).Errors", all.Valid)
		}
		if len(all.Cache) > 1 {
			report("json.Marshal(ExecutePlan(cache.Get(...)))", all.Cache)
		}
		if c.Fail == "" && len(all.Cache) == 1 && all.Cache[0] != all.Do[0] {
			c.Tags = append(c.Tags, "differs:cached-vs-uncached")
			c.Fail = fmt.Sprintf("the response through a plan cache differs from graphql.Do's, first difference at byte %d:\n  Do:    %s\n  cache: %s",
				c12FirstDiff(all.Do[0], all.Cache[0]), c12Clip(all.Do[0]), c12Clip(all.Cache[0]))
		}
		e.Emit(c)
	}
	if childErr != "" {
		e.Emit(Case{Group: "fresh-process", Desc: childErr, Fail: "could not compare with a fresh process: " + childErr, Tags: []string{"harness"}})
	}
}
