package main

import (
	"flag"
	"fmt"
	"os"
	"strings"
)

type genFn func(tier string, seed uint64, n int, e *Emitter)

var props = map[string]genFn{}

func main() {
	if len(os.Args) < 2 {
		fmt.Fprintln(os.Stderr, "usage: gqlverif <property> -tier quick|thorough -seed N -n N -out FILE")
		os.Exit(2)
	}
	prop := strings.ToUpper(os.Args[1])
	fs := flag.NewFlagSet(prop, flag.ExitOnError)
	tier := fs.String("tier", "quick", "")
	seed := fs.Uint64("seed", 1, "")
	n := fs.Int("n", 0, "number of generated cases (0 = tier default)")
	out := fs.String("out", "cases.jsonl", "")
	fs.Parse(os.Args[2:])
	g, ok := props[prop]
	if !ok {
		fmt.Fprintln(os.Stderr, "unknown property", prop)
		os.Exit(2)
	}
	e := NewEmitter(*out)
	g(*tier, *seed, *n, e)
	e.Close()
}
