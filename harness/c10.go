package main

// C10 -- introspection describes the schema exactly.
//
// Schemas are C11 configurations (c11gen.go) decorated with descriptions,
// deprecation reasons, default values and custom directives; some of the
// types are appended after construction.  The full introspection query and
// small sub-queries run through graphql.Do; the JSON is projected to a
// Gallina description (lists in name order, default literals parsed with the
// library's parser) and judged in Coq against the schema as built.

import (
	"crypto/sha256"
	"encoding/hex"
	"encoding/json"
	"fmt"
	"sort"
	"strings"

	"github.com/graphql-go/graphql"
	"github.com/graphql-go/graphql/language/ast"
	"github.com/graphql-go/graphql/language/parser"
	"github.com/graphql-go/graphql/testutil"
)

func init() { props["C10"] = genC10 }

// values and their Go representations: c10val.go

func c10Bytes(s string) string { return c11Name(s) }

// descriptions cross as themselves when short, as a hash otherwise (both sides alike)
func c10Text(s string) string {
	if len(s) > 24 {
		h := sha256.Sum256([]byte(s))
		s = "~" + hex.EncodeToString(h[:6])
	}
	return c10Bytes(s)
}

// ---------------------------------------------------------------- custom directives

type c10Dir struct {
	Name string
	Desc string
	Locs []string
	Args []c11Arg
}

func (w *c11World) directive(d c10Dir) *graphql.Directive {
	c := graphql.DirectiveConfig{Name: d.Name, Description: d.Desc, Locations: d.Locs}
	if len(d.Args) > 0 {
		c.Args = graphql.FieldConfigArgument{}
		for _, a := range d.Args {
			ac := &graphql.ArgumentConfig{Type: w.ref(a.T), Description: a.Desc}
			if a.Def != nil {
				ac.DefaultValue = a.Def.toGo()
			}
			c.Args[a.Name] = ac
		}
	}
	return graphql.NewDirective(c)
}

// ---------------------------------------------------------------- decorating a valid configuration

var c10Descs = []string{"", "", "d", "a description", "a description that is longer than twenty-four bytes",
	"with \"quotes\", a \\ backslash and é", "line one\nline two"}
func c10Decorate(r *Rng, c *c11Cfg) {
	// pass 1: input field defaults (never of input-object type, so that object defaults stay canonical)
	for _, d := range c.Defs {
		d.Desc = r.Pick(c10Descs)
		if d.Kind == c11Input {
			for i := range d.IFields {
				f := &d.IFields[i]
				f.Desc = r.Pick(c10Descs)
				if r.Chance(40) && !c10IsObjectish(c, f.T) {
					f.Def = c10GenDefault(r, c, f.T, 0)
				}
			}
		}
		for i := range d.Values {
			d.Values[i].Desc = r.Pick(c10Descs)
			if r.Chance(25) {
				d.Values[i].Dep = r.Pick([]string{"old", graphql.DefaultDeprecationReason, "use something else, this is long gone"})
			}
		}
	}
	for _, d := range c.Defs {
		for i := range d.Fields {
			f := &d.Fields[i]
			f.Desc = r.Pick(c10Descs)
			if r.Chance(25) {
				f.Dep = r.Pick([]string{"old", graphql.DefaultDeprecationReason})
			}
			for j := range f.Args {
				a := &f.Args[j]
				a.Desc = r.Pick(c10Descs)
				if r.Chance(60) {
					a.Def = c10GenDefault(r, c, a.T, 0)
				}
			}
		}
	}
	if r.Chance(50) {
		g := &c11G{r: r, cfg: c}
		reach := c11Reachable(c, nil) // directive argument types do not enter the type map by themselves
		for _, d := range c.Defs {
			if !reach[d.ID] {
				continue
			}
			switch d.Kind {
			case c11Enum:
				g.enums = append(g.enums, d.ID)
			case c11Input:
				g.inputs = append(g.inputs, d.ID)
			}
		}
		for k, n := 0, 1+r.Intn(2); k < n; k++ {
			xd := c10Dir{Name: fmt.Sprintf("dir%d", k), Desc: r.Pick(c10Descs), Locs: []string{graphql.DirectiveLocationField}}
			if r.Bool() {
				xd.Locs = append(xd.Locs, graphql.DirectiveLocationQuery)
			}
			for j, m := 0, r.Intn(3); j < m; j++ {
				// only types that are in the type map anyway: String and Boolean (through the
				// introspection types) and reachable enums / input objects
				pool := []int{c11IDString, c11IDBoolean}
				pool = append(pool, g.enums...)
				pool = append(pool, g.inputs...)
				a := c11Arg{Name: fmt.Sprintf("p%d", j), T: g.wrap(c11Named(g.pick(pool)), 2)}
				a.Desc = r.Pick(c10Descs)
				if r.Chance(60) {
					a.Def = c10GenDefault(r, c, a.T, 0)
				}
				xd.Args = append(xd.Args, a)
			}
			c.XDirs = append(c.XDirs, xd)
		}
		c.NoSpecDirs = r.Chance(25)
	}
}

// ---------------------------------------------------------------- decorations as a Gallina term

func c10ArgDec(desc string, def *c10Val) string {
	d := "None"
	if def != nil {
		d = "(Some " + def.coq() + ")"
	}
	return "(AD " + c10Text(desc) + " " + d + ")"
}

func c10FieldDecs(fs []c11Field) string {
	xs := []string{}
	for _, f := range fs {
		as := []string{}
		for _, a := range f.Args {
			as = append(as, "("+c10Bytes(a.Name)+", "+c10ArgDec(a.Desc, a.Def)+")")
		}
		xs = append(xs, "("+c10Bytes(f.Name)+", FD "+c10Text(f.Desc)+" "+c10Text(f.Dep)+" "+coqList(as)+")")
	}
	return coqList(xs)
}

func c10TypeDec(d *c11Def) string {
	vs := []string{}
	for _, v := range d.Values {
		vs = append(vs, "("+c10Bytes(v.Name)+", VD "+c10Text(v.Desc)+" "+c10Text(v.Dep)+")")
	}
	is := []string{}
	for _, f := range d.IFields {
		is = append(is, "("+c10Bytes(f.Name)+", "+c10ArgDec(f.Desc, f.Def)+")")
	}
	return fmt.Sprintf("(%s, TD %s %s %s %s)", coqN(d.ID), c10Text(d.Desc), c10FieldDecs(d.Fields), coqList(vs), coqList(is))
}

// the library's own types, read from its objects
func c10MetaDefs(w *c11World) []*c11Def {
	b := c11Builtins()
	var ids []int
	for id := range b {
		ids = append(ids, id)
	}
	sort.Ints(ids)
	var out []*c11Def
	for _, id := range ids {
		d := &c11Def{ID: id, Name: b[id].Name(), Desc: b[id].Description()}
		switch t := b[id].(type) {
		case *graphql.Enum:
			for _, v := range t.Values() {
				d.Values = append(d.Values, c11EnumVal{Name: v.Name, Desc: v.Description, Dep: v.DeprecationReason})
			}
		case *graphql.Object:
			for name, f := range t.Fields() {
				cf := c11Field{Name: name, Desc: f.Description, Dep: f.DeprecationReason}
				for _, a := range f.Args {
					cf.Args = append(cf.Args, c11Arg{Name: a.PrivateName, Desc: a.PrivateDescription, Def: c10FromGo(a.DefaultValue)})
				}
				d.Fields = append(d.Fields, cf)
			}
		}
		out = append(out, d)
	}
	return out
}

func c10DirDec(w *c11World, d *graphql.Directive) string {
	locs := []string{}
	for _, l := range d.Locations {
		locs = append(locs, c10Bytes(l))
	}
	// the configured default of a custom directive's argument is the configuration's value (the Go
	// type that carries it is not read back); the library's own directives are read from its objects
	configured := map[string]*c10Val{}
	custom := false
	for _, xd := range w.cfg.XDirs {
		if xd.Name == d.Name {
			custom = true
			for _, a := range xd.Args {
				configured[a.Name] = a.Def
			}
		}
	}
	as := []string{}
	for _, a := range d.Args {
		def := c10FromGoDeep(a.DefaultValue)
		if custom {
			def = configured[a.PrivateName]
		}
		as = append(as, fmt.Sprintf("(%s, (%s, %s))", c10Bytes(a.PrivateName), c11RefCoq(w.refOf(a.Type)), c10ArgDec(a.PrivateDescription, def)))
	}
	return fmt.Sprintf("(DD %s %s %s %s)", c10Bytes(d.Name), c10Text(d.Description), coqList(locs), coqList(as))
}

func c10FromGoDeep(x interface{}) *c10Val {
	switch x := x.(type) {
	case []interface{}:
		v := &c10Val{K: 5}
		for _, e := range x {
			if y := c10FromGoDeep(e); y != nil {
				v.L = append(v.L, *y)
			} else {
				v.L = append(v.L, c10Val{})
			}
		}
		return v
	case map[string]interface{}:
		v := &c10Val{K: 6}
		var ks []string
		for k := range x {
			ks = append(ks, k)
		}
		sort.Strings(ks)
		for _, k := range ks {
			if y := c10FromGoDeep(x[k]); y != nil {
				v.F = append(v.F, c10KV{k, *y})
			}
		}
		return v
	}
	return c10FromGo(x)
}

func c10Decor(w *c11World, c *c11Cfg, dirs []*graphql.Directive, full bool) string {
	ts := []string{}
	if full {
		for _, d := range c10MetaDefs(w) {
			ts = append(ts, c10TypeDec(d))
		}
	}
	for _, d := range c.Defs {
		ts = append(ts, c10TypeDec(d))
	}
	ds := []string{}
	for _, d := range dirs {
		ds = append(ds, c10DirDec(w, d))
	}
	return "(Decor " + coqList(ts) + " " + coqList(ds) + ")"
}

// ---------------------------------------------------------------- introspection JSON -> Gallina description

type c10Proj struct {
	fail      string
	full      bool // false: the library's own types are left out of the description
	unordered bool // types, the fields of a type or its input fields were not listed in name order
}

func (p *c10Proj) noteOrder(xs []c10Named) {
	if !sort.SliceIsSorted(xs, func(i, j int) bool { return xs[i].name < xs[j].name }) {
		p.unordered = true
	}
}

func (p *c10Proj) str(x interface{}) string {
	if x == nil {
		return ""
	}
	s, ok := x.(string)
	if !ok {
		p.fail = fmt.Sprintf("expected a string, got %v", x)
	}
	return s
}

func (p *c10Proj) dref(x interface{}) (string, string) {
	m, ok := x.(map[string]interface{})
	if !ok {
		p.fail = fmt.Sprintf("expected a type reference, got %v", x)
		return "(DRNamed (h \"\") (h \"\"))", ""
	}
	kind := p.str(m["kind"])
	switch kind {
	case "LIST":
		s, _ := p.dref(m["ofType"])
		return "(DRList " + s + ")", ""
	case "NON_NULL":
		s, _ := p.dref(m["ofType"])
		return "(DRNonNull " + s + ")", ""
	}
	name := p.str(m["name"])
	return "(DRNamed " + c10Bytes(kind) + " " + c10Bytes(name) + ")", name
}

func c10Lit(v ast.Value) string {
	switch v := v.(type) {
	case *ast.IntValue:
		return "(LInt " + c10Bytes(v.Value) + ")"
	case *ast.FloatValue:
		return "(LFloat " + c10Bytes(v.Value) + ")"
	case *ast.StringValue:
		return "(LStr " + c10Bytes(v.Value) + ")"
	case *ast.BooleanValue:
		return "(LBool " + coqBool(v.Value) + ")"
	case *ast.EnumValue:
		return "(LEnum " + c10Bytes(v.Value) + ")"
	case *ast.ListValue:
		xs := []string{}
		for _, e := range v.Values {
			xs = append(xs, c10Lit(e))
		}
		return "(LList " + coqList(xs) + ")"
	case *ast.ObjectValue:
		xs := []string{}
		for _, f := range v.Fields {
			xs = append(xs, "("+c10Bytes(f.Name.Value)+", "+c10Lit(f.Value)+")")
		}
		return "(LObj " + coqList(xs) + ")"
	}
	return "(LEnum " + c10Bytes("$") + ")" // a variable: not a constant
}

// the library's own reading of a defaultValue string, or nil
func c10ParseLiteral(s string) ast.Value {
	doc, err := parser.Parse(parser.ParseParams{Source: "{f(a: " + s + "\n)}"})
	if err != nil || len(doc.Definitions) != 1 {
		return nil
	}
	op, ok := doc.Definitions[0].(*ast.OperationDefinition)
	if !ok || op.SelectionSet == nil || len(op.SelectionSet.Selections) != 1 {
		return nil
	}
	f, ok := op.SelectionSet.Selections[0].(*ast.Field)
	if !ok || len(f.Arguments) != 1 || f.Name == nil || f.Name.Value != "f" {
		return nil
	}
	return f.Arguments[0].Value
}

// the reported defaultValue crosses as its bytes, next to what the library's parser makes of it;
// whether it is a literal that gives back the default is decided in Coq
func (p *c10Proj) defaultLit(x interface{}) string {
	if x == nil {
		return "DNone"
	}
	s := p.str(x)
	lit := "None"
	if v := c10ParseLiteral(s); v != nil {
		lit = "(Some " + c10Lit(v) + ")"
	}
	return "(DText " + c10Bytes(s) + " " + lit + ")"
}

type c10Named struct{ name, term string }

func c10Sorted(xs []c10Named) string {
	sort.SliceStable(xs, func(i, j int) bool { return xs[i].name < xs[j].name })
	ts := make([]string, len(xs))
	for i, x := range xs {
		ts[i] = x.term
	}
	return coqList(ts)
}

func (p *c10Proj) list(x interface{}) ([]interface{}, bool) {
	if x == nil {
		return nil, false
	}
	l, ok := x.([]interface{})
	if !ok {
		p.fail = fmt.Sprintf("expected a list, got %v", x)
	}
	return l, true
}

func (p *c10Proj) inputs(x interface{}) string {
	l, _ := p.list(x)
	var xs []c10Named
	for _, e := range l {
		m, _ := e.(map[string]interface{})
		t, _ := p.dref(m["type"])
		n := p.str(m["name"])
		xs = append(xs, c10Named{n, fmt.Sprintf("(DI %s %s %s %s)", c10Bytes(n), c10Text(p.str(m["description"])), t, p.defaultLit(m["defaultValue"]))})
	}
	return c10Sorted(xs)
}

func (p *c10Proj) optStr(x interface{}) string {
	if x == nil {
		return "None"
	}
	return "(Some " + c10Text(p.str(x)) + ")"
}

func (p *c10Proj) optName(x interface{}) string {
	if x == nil {
		return "None"
	}
	m, _ := x.(map[string]interface{})
	return "(Some " + c10Bytes(p.str(m["name"])) + ")"
}

func (p *c10Proj) refs(x interface{}) string {
	l, some := p.list(x)
	if !some {
		return "None"
	}
	var xs []c10Named
	for _, e := range l {
		t, n := p.dref(e)
		xs = append(xs, c10Named{n, t})
	}
	return "(Some " + c10Sorted(xs) + ")"
}

func (p *c10Proj) description(data interface{}) string {
	root, _ := data.(map[string]interface{})
	sch, ok := root["__schema"].(map[string]interface{})
	if !ok {
		p.fail = "no __schema in the result"
		return ""
	}
	var types, allTypes []c10Named
	tl, _ := p.list(sch["types"])
	for _, e := range tl {
		m, _ := e.(map[string]interface{})
		name := p.str(m["name"])
		allTypes = append(allTypes, c10Named{name: name})
		if !p.full && c10BuiltinNames[name] {
			continue
		}
		fields := "None"
		if fl, some := p.list(m["fields"]); some {
			var xs []c10Named
			for _, fe := range fl {
				fm, _ := fe.(map[string]interface{})
				t, _ := p.dref(fm["type"])
				dep, _ := fm["isDeprecated"].(bool)
				n := p.str(fm["name"])
				xs = append(xs, c10Named{n, fmt.Sprintf("(DF %s %s %s %s %s %s)", c10Bytes(n), c10Text(p.str(fm["description"])), p.inputs(fm["args"]), t, coqBool(dep), p.optStr(fm["deprecationReason"]))})
			}
			p.noteOrder(xs)
			fields = "(Some " + c10Sorted(xs) + ")"
		}
		enums := "None"
		if el, some := p.list(m["enumValues"]); some {
			var xs []c10Named
			for _, ee := range el {
				em, _ := ee.(map[string]interface{})
				dep, _ := em["isDeprecated"].(bool)
				n := p.str(em["name"])
				xs = append(xs, c10Named{n, fmt.Sprintf("(DE %s %s %s %s)", c10Bytes(n), c10Text(p.str(em["description"])), coqBool(dep), p.optStr(em["deprecationReason"]))})
			}
			enums = "(Some " + c10Sorted(xs) + ")"
		}
		inputs := "None"
		if m["inputFields"] != nil {
			if l, _ := m["inputFields"].([]interface{}); true {
				var ns []c10Named
				for _, ie := range l {
					im, _ := ie.(map[string]interface{})
					ns = append(ns, c10Named{name: p.str(im["name"])})
				}
				p.noteOrder(ns)
			}
			inputs = "(Some " + p.inputs(m["inputFields"]) + ")"
		}
		types = append(types, c10Named{name, fmt.Sprintf("(DT %s %s %s %s %s %s %s %s)", c10Bytes(p.str(m["kind"])), c10Bytes(name), c10Text(p.str(m["description"])),
			fields, p.refs(m["interfaces"]), p.refs(m["possibleTypes"]), enums, inputs)})
	}
	p.noteOrder(allTypes)
	var dirs []c10Named
	dl, _ := p.list(sch["directives"])
	for _, e := range dl {
		m, _ := e.(map[string]interface{})
		locs := []string{}
		ll, _ := p.list(m["locations"])
		for _, l := range ll {
			locs = append(locs, c10Bytes(p.str(l)))
		}
		n := p.str(m["name"])
		dirs = append(dirs, c10Named{n, fmt.Sprintf("(DDir %s %s %s %s)", c10Bytes(n), c10Text(p.str(m["description"])), coqList(locs), p.inputs(m["args"]))})
	}
	return fmt.Sprintf("(Desc %s %s %s %s %s)", c10Sorted(types), p.optName(sch["queryType"]), p.optName(sch["mutationType"]), p.optName(sch["subscriptionType"]), c10Sorted(dirs))
}

// ---------------------------------------------------------------- running

var c10BuiltinNames = func() map[string]bool {
	m := map[string]bool{}
	for _, t := range c11Builtins() {
		m[t.Name()] = true
	}
	return m
}()

func c10JSON(res *graphql.Result) (interface{}, error) {
	b, err := json.Marshal(res.Data)
	if err != nil {
		return nil, err
	}
	var x interface{}
	err = json.Unmarshal(b, &x)
	return x, err
}

func genC10(tier string, seed uint64, n int, e *Emitter) {
	if n == 0 {
		n = 32
		if tier == "thorough" {
			n = 2500
		}
	}
	// corpus first: one hand-made schema with a default of every kind (with and without the
	// library's own types in the compared description)
	c10RunCase(e, NewRng(seed^0xC10, 1<<40), c10Corpus(false), nil, false, []string{"corpus"})
	if tier == "thorough" {
		c10RunCase(e, NewRng(seed^0xC10, 1<<40+1), c10Corpus(false), nil, true, []string{"corpus"})
		// a default without a literal in this edition of the language: a known finding
		c10RunCase(e, NewRng(seed^0xC10, 1<<40+2), c10Corpus(true), nil, false, []string{"corpus"})
	}
	for i := 0; i < n; i++ {
		r := NewRng(seed^0xC10, uint64(i))
		c := c11GenValid(r)
		c10Decorate(r, c)
		// some of the extra types are appended after construction, in random order
		var keep, later []int
		for _, id := range c.Types {
			if r.Chance(50) {
				later = append(later, id)
			} else {
				keep = append(keep, id)
			}
		}
		for k := len(later) - 1; k > 0; k-- {
			j := r.Intn(k + 1)
			later[k], later[j] = later[j], later[k]
		}
		if r.Chance(20) && len(later) > 0 {
			later = append(later, later[0]) // appended twice
		}
		c.Types = keep
		var tags []string
		if r.Chance(85) {
			// a carrier appended after construction: a union whose member is a fresh object (reachable from
			// nowhere else) that implements an interface the schema already has; the interface's
			// possibleTypes must then list the new object, as in the same schema built at once
			if u := c10LateImplementer(r, c); u >= 0 {
				k := r.Intn(len(later) + 1)
				later = append(later[:k], append([]int{u}, later[k:]...)...)
				tags = append(tags, "late-implementer")
			}
		}
		c10RunCase(e, r, c, later, i%8 == 0, tags)
	}
}

// adds an object implementing an interface of the schema as constructed (same fields and
// arguments as the interface declares) and a union around it; returns the union's id, or -1
func c10LateImplementer(r *Rng, c *c11Cfg) int {
	reach := c11Reachable(c, nil)
	var ifaces []*c11Def
	next := 0
	for _, d := range c.Defs {
		if d.Kind == c11Interface && reach[d.ID] && len(d.Fields) > 0 {
			ifaces = append(ifaces, d)
		}
		if d.ID >= next {
			next = d.ID + 1
		}
	}
	if len(ifaces) == 0 {
		return -1
	}
	iface := ifaces[r.Intn(len(ifaces))]
	o := &c11Def{ID: next, Kind: c11Object, Name: fmt.Sprintf("Late%d", next), Desc: "appended through a union", IsTypeOf: true,
		Slot: c11SlotList, Members: []int{iface.ID}, Thunk: r.Bool()}
	for _, f := range iface.Fields {
		g := f
		g.Args = append([]c11Arg{}, f.Args...)
		o.Fields = append(o.Fields, g)
	}
	if r.Bool() {
		o.Fields = append(o.Fields, c11Field{Name: "lateOnly", T: c11Named(c11IDString)})
	}
	u := &c11Def{ID: next + 1, Kind: c11Union, Name: fmt.Sprintf("LateU%d", next+1), ResolveType: true, Slot: c11SlotList, Members: []int{o.ID}}
	if r.Bool() {
		u.Slot = c11SlotThunk
	}
	c.Defs = append(c.Defs, o, u)
	return u.ID
}

// the defaultValue strings of an introspection result, keyed like c10Defaults
func c10ReportedDefaults(data interface{}) map[string]string {
	out := map[string]string{}
	root, _ := data.(map[string]interface{})
	sch, _ := root["__schema"].(map[string]interface{})
	inputs := func(prefix, suffix string, x interface{}) {
		l, _ := x.([]interface{})
		for _, e := range l {
			m, _ := e.(map[string]interface{})
			n, _ := m["name"].(string)
			if dv, ok := m["defaultValue"].(string); ok {
				out[prefix+n+suffix] = dv
			}
		}
	}
	tl, _ := sch["types"].([]interface{})
	for _, e := range tl {
		m, _ := e.(map[string]interface{})
		tn, _ := m["name"].(string)
		fl, _ := m["fields"].([]interface{})
		for _, fe := range fl {
			fm, _ := fe.(map[string]interface{})
			fn, _ := fm["name"].(string)
			inputs(tn+"."+fn+"(", ":)", fm["args"])
		}
		inputs(tn+".", "", m["inputFields"])
	}
	dl, _ := sch["directives"].([]interface{})
	for _, e := range dl {
		m, _ := e.(map[string]interface{})
		dn, _ := m["name"].(string)
		inputs("@"+dn+"(", ":)", m["args"])
	}
	return out
}

// every (type, configured default) of a configuration
func c10Defaults(c *c11Cfg, f func(where string, t c11Ref, v *c10Val)) {
	for _, d := range c.Defs {
		for _, fl := range d.Fields {
			for _, a := range fl.Args {
				if a.Def != nil {
					f(d.Name+"."+fl.Name+"("+a.Name+":)", a.T, a.Def)
				}
			}
		}
		for _, fl := range d.IFields {
			if fl.Def != nil {
				f(d.Name+"."+fl.Name, fl.T, fl.Def)
			}
		}
	}
	for _, xd := range c.XDirs {
		for _, a := range xd.Args {
			if a.Def != nil {
				f("@"+xd.Name+"("+a.Name+":)", a.T, a.Def)
			}
		}
	}
}

func c10RunCase(e *Emitter, r *Rng, c *c11Cfg, later []int, full bool, tags []string) {
	tags = append([]string{}, tags...)
	if len(later) > 0 {
		tags = append(tags, "appended")
	}
	if len(c.XDirs) > 0 {
		tags = append(tags, "custom-directives")
	}
	var w *c11World
	var s graphql.Schema
	var res, res2 *graphql.Result
	var decor, buildErr, probeFail string
	var dep []c10DepQuery
	feat := c10Features(c)
	noLiteral := false
	for _, f := range feat {
		if f == "no-literal-default" {
			noLiteral = true
		}
	}
	pm := guard(func() {
		w = c11NewWorld(c)
		sc := w.schemaConfig(nil)
		var err error
		s, err = graphql.NewSchema(sc)
		if err != nil {
			buildErr = err.Error()
			return
		}
		for _, id := range later {
			if err := s.AppendType(w.types[id]); err != nil {
				buildErr = err.Error()
				return
			}
		}
		decor = c10Decor(w, c, s.Directives(), full)
		res = graphql.Do(graphql.Params{Schema: s, RequestString: testutil.IntrospectionQuery})
		res2 = graphql.Do(graphql.Params{Schema: s, RequestString: testutil.IntrospectionQuery})
		dep = c10DepQueries(r, c, w, &s)
	})
	desc := map[string]interface{}{"config": c11Desc(c), "appended": fmt.Sprint(later)}
	var defs []string
	c10Defaults(c, func(where string, t c11Ref, v *c10Val) { defs = append(defs, where+" = "+v.String()) })
	if len(defs) > 0 {
		desc["defaults"] = defs
	}
	base := Case{Group: "introspection", Desc: desc, Tags: tags}
	if pm != "" {
		base.Fail = "NewSchema/AppendType/Do: " + pm
		e.Emit(base)
		return
	}
	if buildErr != "" {
		// not a C10 matter (C11 judges construction); skip
		return
	}
	if len(res.Errors) > 0 {
		base.Fail = fmt.Sprintf("introspection query returned errors: %v", res.Errors)
		e.Emit(base)
		return
	}
	data, err := c10JSON(res)
	if err != nil {
		base.Fail = "result is not JSON: " + err.Error()
		e.Emit(base)
		return
	}
	// the same request twice gives the same bytes (the order of types, fields, arguments, possible
	// types and directives does not depend on map iteration)
	b1, _ := json.Marshal(res.Data)
	b2, _ := json.Marshal(res2.Data)
	if string(b1) != string(b2) {
		base.Fail = "two runs of the introspection query on one schema gave different results"
	}
	p := &c10Proj{full: full}
	d := p.description(data)
	if p.fail != "" {
		base.Fail = p.fail
		e.Emit(base)
		return
	}
	if !noLiteral && base.Fail == "" {
		// the property's sentence end to end on the implementation: every reported defaultValue,
		// handed back to the library as an argument value of the same type, is received by the
		// resolver as the configured default
		reported := c10ReportedDefaults(data)
		if pm := guard(func() {
			c10Defaults(c, func(where string, t c11Ref, v *c10Val) {
				if probeFail != "" {
					return
				}
				text, ok := reported[where]
				if !ok {
					return // the type is not in the type map (unreachable definition)
				}
				if msg := c10Probe(w.ref(t), text, *v); msg != "" {
					probeFail = where + ": " + msg
				}
			})
		}); pm != "" {
			probeFail = "probe: " + pm
		}
		base.Fail = probeFail
	}
	app := c11TypesCoq(later)
	base.Tags = append(base.Tags, feat...)
	base.NT = len(feat) >= 3
	subs := []string{}
	for _, q := range dep {
		if q.fail != "" {
			base.Fail = q.fail
			continue
		}
		subs = append(subs, fmt.Sprintf("SubQ %s %s %s %s %s", coqN(q.id), coqBool(q.incl), q.fields, q.enums, c10Bytes(q.typename)))
		desc["subquery_"+fmt.Sprint(len(subs))] = q.query + " => " + q.result
	}
	if full {
		base.Tags = append(base.Tags, "with-library-types")
	}
	base.Coq = fmt.Sprintf("IntroCase %s %s %s %s %s %s %s", coqBool(full), c11CfgCoq(c), app, decor, d, coqBool(!p.unordered), coqList(subs))
	e.Emit(base)
}

func c10Features(c *c11Cfg) []string {
	set := map[string]bool{}
	depth := func(t c11Ref) int {
		n := 0
		for t.K >= 2 {
			n++
			t = *t.Of
		}
		return n
	}
	for _, d := range c.Defs {
		if d.Kind == c11Interface || d.Kind == c11Union {
			set["abstract"] = true
		}
		for _, f := range d.Fields {
			if depth(f.T) >= 2 {
				set["wrapper-depth>=2"] = true
			}
			if f.Dep != "" {
				set["deprecated"] = true
			}
		}
	}
	c10Defaults(c, func(where string, t c11Ref, v *c10Val) { c10DefaultTags(set, c, t, v) })
	var out []string
	for k := range set {
		out = append(out, k)
	}
	sort.Strings(out)
	return out
}

type c10DepQuery struct {
	id             int
	incl           bool
	query, result  string
	fields, enums  string
	typename, fail string
}

func c10DepQueries(r *Rng, c *c11Cfg, w *c11World, s *graphql.Schema) []c10DepQuery {
	var out []c10DepQuery
	var cands []*c11Def
	for _, d := range c.Defs {
		if _, in := s.TypeMap()[d.Name]; in && (d.Kind == c11Object || d.Kind == c11Interface || d.Kind == c11Enum) {
			cands = append(cands, d)
		}
	}
	for k := 0; k < 2 && len(cands) > 0; k++ {
		d := cands[r.Intn(len(cands))]
		q := c10DepQuery{id: d.ID}
		arg := ""
		switch r.Intn(3) {
		case 0:
			arg = "(includeDeprecated: true)"
			q.incl = true
		case 1:
			arg = "(includeDeprecated: false)"
		}
		q.query = fmt.Sprintf("{ __typename __type(name: %q) { fields%s { name } enumValues%s { name } } }", d.Name, arg, arg)
		res := graphql.Do(graphql.Params{Schema: *s, RequestString: q.query})
		if len(res.Errors) > 0 {
			q.fail = fmt.Sprintf("sub-query %s returned errors: %v", q.query, res.Errors)
			out = append(out, q)
			continue
		}
		data, err := c10JSON(res)
		if err != nil {
			q.fail = err.Error()
			out = append(out, q)
			continue
		}
		b, _ := json.Marshal(data)
		q.result = string(b)
		root, _ := data.(map[string]interface{})
		q.typename, _ = root["__typename"].(string)
		tm, _ := root["__type"].(map[string]interface{})
		names := func(x interface{}) string {
			if x == nil {
				return "None"
			}
			l, _ := x.([]interface{})
			var ns []string
			for _, e := range l {
				m, _ := e.(map[string]interface{})
				n, _ := m["name"].(string)
				ns = append(ns, n)
			}
			sort.Strings(ns)
			xs := []string{}
			for _, n := range ns {
				xs = append(xs, c10Bytes(n))
			}
			return "(Some " + coqList(xs) + ")"
		}
		if tm == nil {
			q.fail = "__type returned null for a type of the schema: " + strings.TrimSpace(q.query)
		} else {
			q.fields = names(tm["fields"])
			q.enums = names(tm["enumValues"])
		}
		out = append(out, q)
	}
	return out
}
