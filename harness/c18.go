package main

import (
	"fmt"
	"strings"

	"github.com/graphql-go/graphql"
	"github.com/graphql-go/graphql/language/location"
	"github.com/graphql-go/graphql/language/source"
)

func init() { props["C18"] = genC18 }

var c18Alphabet = []string{"a", "b", " ", " ", "\n", "\n", "\r", "\r\n", "\t", "é", "😀", "\ufeff", "#", "\"", "{", "}"}

func hasMultibyte(b []byte) bool {
	for _, c := range b {
		if c >= 0x80 {
			return true
		}
	}
	return false
}

var c18Schema graphql.Schema

func c18BuildSchema() {
	obj := graphql.NewObject(graphql.ObjectConfig{Name: "O", Fields: graphql.Fields{
		"x": &graphql.Field{Type: graphql.String},
	}})
	q := graphql.NewObject(graphql.ObjectConfig{Name: "Q", Fields: graphql.Fields{
		"a": &graphql.Field{Type: graphql.String, Args: graphql.FieldConfigArgument{"x": &graphql.ArgumentConfig{Type: graphql.String}},
			Resolve: func(p graphql.ResolveParams) (interface{}, error) { return "A", nil }},
		"b": &graphql.Field{Type: graphql.String, Resolve: func(p graphql.ResolveParams) (interface{}, error) { return "B", nil }},
		"fail": &graphql.Field{Type: graphql.String, Resolve: func(p graphql.ResolveParams) (interface{}, error) { return nil, fmt.Errorf("boom") }},
		"o": &graphql.Field{Type: obj, Resolve: func(p graphql.ResolveParams) (interface{}, error) { return map[string]interface{}{"x": "X"}, nil }},
	}})
	s, err := graphql.NewSchema(graphql.SchemaConfig{Query: q})
	if err != nil {
		panic(err)
	}
	c18Schema = s
}

// ignored text between tokens
func c18Sep(r *Rng, multibyte bool) string {
	var sb strings.Builder
	k := 1 + r.Intn(3)
	for i := 0; i < k; i++ {
		switch r.Intn(9) {
		case 0, 1, 2:
			sb.WriteString(" ")
		case 3:
			sb.WriteString("\n")
		case 4:
			sb.WriteString("\r")
			// a bare CR must not be followed by LF from the next piece
			sb.WriteString(" ")
		case 5:
			sb.WriteString("\r\n")
		case 6:
			sb.WriteString("\t")
		case 7:
			sb.WriteString(",")
		case 8:
			if multibyte {
				sb.WriteString("#é😀\n")
			} else {
				sb.WriteString("# c\n")
			}
		}
	}
	return sb.String()
}

func genC18(tier string, seed uint64, n int, e *Emitter) {
	c18BuildSchema()
	if n == 0 {
		n = 1500
		if tier == "thorough" {
			n = 30000
		}
	}
	// (0) corpus: hand-picked and past failing inputs, always first
	for _, c := range []struct {
		body string
		off  int
	}{
		{"#\u00e9\u00e9\u00e9\u00e9\u00e9\u00e9\u00e9\u00e9\u00e9\u00e9\n  %", 24},
		{"{ a #\u00e9\n zz }", 9},
		{"{ a\r\n  zz }", 7},
		{"{ a\r  zz }", 6},
		{"{ a\n\r\n\r zz }", 8},
		{"{ a(x:\"\u00e9\") zz }", 13},
	} {
		body := c.body
		var res *graphql.Result
		guard(func() { res = graphql.Do(graphql.Params{Schema: c18Schema, RequestString: body}) })
		tags := []string{"corpus"}
		if hasMultibyte([]byte(body[:c.off])) {
			tags = append(tags, "multibyte-before-token")
		}
		cs := Case{Group: "do-error", Desc: map[string]interface{}{"request": body, "offending_offset": c.off}, NT: true, Tags: tags}
		if res == nil || len(res.Errors) != 1 || len(res.Errors[0].Locations) != 1 {
			cs.Fail = fmt.Sprintf("expected one error with one location, got %v", res)
		} else {
			l := res.Errors[0].Locations[0]
			cs.Coq = fmt.Sprintf("ErrCase %s %s %s %s", coqHex([]byte(body)), coqN(c.off), coqN(l.Line), coqZ(l.Column))
			cs.Desc.(map[string]interface{})["impl"] = l
		}
		e.Emit(cs)
	}
	// (4) syntax errors of generated erroneous documents (harness/c18syn.go)
	c18GenSyntax(tier, seed, n/4, e)
	// (1) direct calls of GetLocation
	for i := 0; i < n; i++ {
		r := NewRng(seed, uint64(i))
		var sb strings.Builder
		k := r.Intn(40)
		for j := 0; j < k; j++ {
			sb.WriteString(r.Pick(c18Alphabet))
		}
		body := []byte(sb.String())
		pos := r.Intn(len(body) + 1)
		loc := location.GetLocation(&source.Source{Body: body}, pos)
		nt := false
		for _, c := range body[:pos] {
			if c == '\n' || c == '\r' || c >= 0x80 {
				nt = true
			}
		}
		e.Emit(Case{
			Group: "getlocation",
			Coq:   fmt.Sprintf("LocCase %s %s %s %s", coqHex(body), coqN(pos), coqN(loc.Line), coqZ(loc.Column)),
			Desc:  map[string]interface{}{"body": string(body), "position": pos, "impl": loc},
			NT:    nt,
		})
	}
	// (3) field errors of generated requests: every error path addresses a null in data (C18 paths)
	defer func() {
		k := n / 6
		if k < 60 {
			k = 60
		}
		xGenPropWrap("C18", 18, tier, seed, k, e, func(x string) string { return "ExecCase (" + x + ")" })
	}()
	// (2) errors reported by Do for an offending token / node at a known byte offset
	m := n / 2
	for i := 0; i < m; i++ {
		r := NewRng(seed^0x18, uint64(i))
		multibyte := r.Chance(25)
		kind := r.Intn(4)
		var toks []string
		bad := -1 // index of the offending token
		switch kind {
		case 0: // syntax: unexpected character
			toks = []string{"{", "a", "b", "%", "}"}
			bad = 3
		case 1: // syntax: stray closing brace after the document
			toks = []string{"{", "a", "}", "}"}
			bad = 3
		case 2: // validation: unknown field
			toks = []string{"{", "a", "zz", "b", "}"}
			bad = 2
		case 3: // field error
			toks = []string{"{", "a", "fail", "b", "}"}
			bad = 2
		}
		if multibyte && r.Bool() {
			// a string argument with multi-byte content before the offending token
			toks = append([]string{toks[0], "a", "(", "x", ":", "\"é\"", ")"}, toks[2:]...)
			bad += 5
		}
		var sb strings.Builder
		off := 0
		sb.WriteString(c18Sep(r, multibyte))
		for j, t := range toks {
			if j == bad {
				off = sb.Len()
			}
			sb.WriteString(t)
			sb.WriteString(c18Sep(r, multibyte))
		}
		body := sb.String()
		var res *graphql.Result
		if pm := guard(func() { res = graphql.Do(graphql.Params{Schema: c18Schema, RequestString: body}) }); pm != "" {
			e.Emit(Case{Group: "do-error", Desc: map[string]interface{}{"request": body}, NT: true, Fail: "graphql.Do: " + pm})
			continue
		}
		tags := []string{fmt.Sprintf("kind%d", kind)}
		if hasMultibyte([]byte(body[:off])) {
			tags = append(tags, "multibyte-before-token")
		}
		c := Case{Group: "do-error", Desc: map[string]interface{}{"request": body, "offending_offset": off, "errors": fmt.Sprint(res.Errors)}, NT: true, Tags: tags}
		if len(res.Errors) != 1 || len(res.Errors[0].Locations) != 1 {
			c.Fail = fmt.Sprintf("expected one error with one location, got %v", res.Errors)
			c.Coq = ""
		} else {
			l := res.Errors[0].Locations[0]
			c.Coq = fmt.Sprintf("ErrCase %s %s %s %s", coqHex([]byte(body)), coqN(off), coqN(l.Line), coqZ(l.Column))
			c.Desc.(map[string]interface{})["impl"] = l
		}
		e.Emit(c)
	}
}
