package main

// C19: planning and validation work is polynomial in document size.  Families of documents
// scaled by n; the step counters of the `verif` build tag are read after ValidateDocument
// (overlap rule alone), PlanQuery and ExecutePlan.  No wall-clock is used.

import (
	"fmt"
	"strings"
	"time"

	"github.com/graphql-go/graphql"
	"github.com/graphql-go/graphql/language/ast"
	"github.com/graphql-go/graphql/language/parser"
)

func init() { props["C19"] = genC19 }

type c19Node struct{ Type string }

// c19Schema: Q with self-typed object fields, an interface I0 with m implementers.
func c19Schema(m int) *xSchema {
	s := &xSchema{Pool: map[string]*xField{}, Query: "Q", Mutation: "M"}
	for _, sc := range [][2]string{{"Int", "SInt"}, {"Float", "SFloat"}, {"String", "SString"}, {"Boolean", "SBoolean"}, {"ID", "SID"}} {
		s.Types = append(s.Types, &xType{Name: sc[0], Kind: "scalar", Scalar: sc[1]})
	}
	pool := func(name string, t *xTy, args ...xArg) {
		s.Pool[name] = &xField{Name: name, Type: t, Args: args}
		s.PoolKeys = append(s.PoolKeys, name)
	}
	pool("a", xNamed("String"))
	pool("b", xNamed("String"))
	pool("c", xNamed("String"))
	pool("o", xNamed("Q"))
	pool("x", xNamed("Q"))
	pool("y", xNamed("Q"))
	pool("if0", xNamed("I0"))
	pool("lif0", xList(xNamed("I0")))
	pool("fr", xNamed("String"), xArg{Name: "in", Type: xNamed("R0")})
	s.Types = append(s.Types, &xType{Name: "R0", Kind: "input", Inputs: []xArg{{Name: "r", Type: xNamed("R0")}, {Name: "v", Type: xNamed("Int")}}})
	s.Types = append(s.Types, &xType{Name: "I0", Kind: "interface", Fields: []string{"a", "if0"}})
	for i := 0; i < m; i++ {
		s.Types = append(s.Types, &xType{Name: fmt.Sprintf("O%d", i), Kind: "object", Fields: []string{"a", "b", "if0"}, Ifaces: []string{"I0"}})
	}
	s.Types = append(s.Types,
		&xType{Name: "Q", Kind: "object", Fields: []string{"a", "b", "c", "o", "x", "y", "if0", "lif0", "fr"}},
		&xType{Name: "M", Kind: "object", Fields: []string{"a"}})
	return s
}

type c19Built struct {
	sc *c02Schema
	k  int // how many distinct runtime types lif0 returns
}

func c19Build(m int, k *int) *c02Schema {
	xs := c19Schema(m)
	var built *xBuilt
	h := &xHooks{
		Resolve: func(p graphql.ResolveParams) (interface{}, error) {
			switch p.Info.FieldName {
			case "lif0":
				out := []interface{}{}
				for i := 0; i < *k; i++ {
					out = append(out, &c19Node{Type: fmt.Sprintf("O%d", i)})
				}
				// every type twice: the second encounter must not plan again
				for i := 0; i < *k; i++ {
					out = append(out, &c19Node{Type: fmt.Sprintf("O%d", i)})
				}
				return out, nil
			case "if0":
				if c19NilObjects {
					return nil, nil
				}
				return &c19Node{Type: "O0"}, nil
			case "o", "x", "y":
				if c19NilObjects {
					return nil, nil
				}
				return &c19Node{Type: "Q"}, nil
			}
			return "v", nil
		},
		ResolveType: func(p graphql.ResolveTypeParams, abstract string) *graphql.Object {
			if n, ok := p.Value.(*c19Node); ok {
				if o, ok := built.Types[n.Type].(*graphql.Object); ok {
					return o
				}
			}
			return nil
		},
	}
	b, err := xs.build(h)
	if err != nil {
		return nil
	}
	built = b
	f := &xSchema{Pool: xs.Pool, PoolKeys: xs.PoolKeys, Query: xs.Query, Mutation: xs.Mutation}
	for _, t := range xs.Types {
		if b.Schema.Type(t.Name) != nil {
			f.Types = append(f.Types, t)
		}
	}
	return &c02Schema{xs: xs, built: b, coq: f.coq()}
}

// ---- families ----

type c19Family struct {
	name string
	gen  func(n int) string
	m    func(n int) int // implementers in the schema
}

func c19Families() []c19Family {
	one := func(int) int { return 2 }
	return []c19Family{
		{"chain-double-spread", func(n int) string {
			// F_i { x{...F_i+1} y{...F_i+1} }: the shape that doubled planning per level
			var sb strings.Builder
			sb.WriteString("{ ...F1 }")
			for i := 1; i < n; i++ {
				sb.WriteString(fmt.Sprintf(" fragment F%d on Q { x { ...F%d } y { ...F%d } }", i, i+1, i+1))
			}
			sb.WriteString(fmt.Sprintf(" fragment F%d on Q { a }", n))
			return sb.String()
		}, one},
		{"chain-same-key", func(n int) string {
			// both spreads under one response key: merged sub-selections
			var sb strings.Builder
			sb.WriteString("{ ...F1 }")
			for i := 1; i < n; i++ {
				sb.WriteString(fmt.Sprintf(" fragment F%d on Q { o { ...F%d } o { ...F%d b } }", i, i+1, i+1))
			}
			sb.WriteString(fmt.Sprintf(" fragment F%d on Q { a }", n))
			return sb.String()
		}, one},
		{"fan", func(n int) string {
			// every fragment spreads all later ones
			var sb strings.Builder
			sb.WriteString("{")
			for i := 1; i <= n; i++ {
				sb.WriteString(fmt.Sprintf(" ...F%d", i))
			}
			sb.WriteString(" }")
			for i := 1; i <= n; i++ {
				sb.WriteString(fmt.Sprintf(" fragment F%d on Q { a", i))
				for j := i + 1; j <= n; j++ {
					sb.WriteString(fmt.Sprintf(" ...F%d", j))
				}
				sb.WriteString(" }")
			}
			return sb.String()
		}, one},
		{"one-fragment-many-sites", func(n int) string {
			var sb strings.Builder
			sb.WriteString("{")
			for i := 0; i < n; i++ {
				sb.WriteString(fmt.Sprintf(" k%d: o { ...F } o { ...F }", i%3))
			}
			sb.WriteString(" } fragment F on Q { a b o { ...G } } fragment G on Q { c }")
			return sb.String()
		}, one},
		{"wide-repeated-keys", func(n int) string {
			var sb strings.Builder
			sb.WriteString("{")
			for i := 0; i < n; i++ {
				sb.WriteString(" a b o { a } o { b }")
			}
			sb.WriteString(" }")
			return sb.String()
		}, one},
		{"abstract-depth-by-implementers", func(n int) string {
			// depth n through an abstract field, n implementers in the schema
			var sb strings.Builder
			sb.WriteString("{")
			for i := 0; i < n; i++ {
				sb.WriteString(" if0 { a ... on O0 { b }")
			}
			for i := 0; i < n; i++ {
				sb.WriteString(" }")
			}
			sb.WriteString(" }")
			return sb.String()
		}, func(n int) int { return n }},
		{"nested-input-literal", func(n int) string {
			var sb strings.Builder
			sb.WriteString("{ fr(in: ")
			for i := 0; i < n; i++ {
				sb.WriteString("{v: 1, r: ")
			}
			sb.WriteString("{v: 2}")
			for i := 0; i < n; i++ {
				sb.WriteString("}")
			}
			sb.WriteString(") }")
			return sb.String()
		}, one},
		{"chain-merged-keys", func(n int) string {
			// every response key merges two selection sets along a reuse chain
			var sb strings.Builder
			sb.WriteString("{ ...F1 }")
			for i := 1; i < n; i++ {
				sb.WriteString(fmt.Sprintf(" fragment F%d on Q { a: x { ...F%d } a: x { ...F%d } b: x { ...F%d } b: x { ...F%d } }", i, i+1, i+1, i+1, i+1))
			}
			sb.WriteString(fmt.Sprintf(" fragment F%d on Q { c }", n))
			return sb.String()
		}, one},
		{"chain-multi-spread", func(n int) string {
			// each link spreads the next fragment at three sites
			var sb strings.Builder
			sb.WriteString("{ ...F1 }")
			for i := 1; i < n; i++ {
				sb.WriteString(fmt.Sprintf(" fragment F%d on Q { ...F%d ...F%d o { ...F%d } }", i, i+1, i+1, i+1))
			}
			sb.WriteString(fmt.Sprintf(" fragment F%d on Q { a }", n))
			return sb.String()
		}, one},
		{"exclusive-lattice", func(n int) string {
			// one response key under two object types of an abstract field; the sub-selections
			// spread fragments that spread one another along 2^n paths
			var sb strings.Builder
			sb.WriteString("{ if0 { ... on O0 { k: if0 { ...A1 } } ... on O1 { k: if0 { ...B1 } } } }")
			for i := 1; i < n; i++ {
				sb.WriteString(fmt.Sprintf(" fragment A%d on I0 { a ...A%d ...B%d }", i, i+1, i+1))
				sb.WriteString(fmt.Sprintf(" fragment B%d on I0 { a ...A%d ...B%d }", i, i+1, i+1))
			}
			sb.WriteString(fmt.Sprintf(" fragment A%d on I0 { a } fragment B%d on I0 { a }", n, n))
			return sb.String()
		}, one},
		{"inline-nesting", func(n int) string {
			var sb strings.Builder
			sb.WriteString("{")
			for i := 0; i < n; i++ {
				sb.WriteString(" ... on Q { a o { b }")
			}
			for i := 0; i < n; i++ {
				sb.WriteString(" }")
			}
			sb.WriteString(" }")
			return sb.String()
		}, one},
	}
}

func c19Counters() []int {
	out := make([]int, 8)
	for i := range out {
		out[i] = int(graphql.VerifCounters[i])
	}
	return out
}

func c19Term(text string) (string, *ast.Document, bool) {
	doc, err := parser.Parse(parser.ParseParams{Source: text})
	if err != nil {
		return "", nil, false
	}
	t := &c02Term{}
	term := t.doc(doc)
	if t.bad != "" {
		return "", nil, false
	}
	return term, doc, true
}

const c19Cap = 40000

// c19NilObjects makes the object-typed fields resolve to nil, so that executing a family member
// whose response would itself be exponential (x{..} y{..} chains) only plans
var c19NilObjects bool

// c19Watch runs f with a watchdog: an exponential blow-up is reported as the failing input
// instead of hanging the check (the goroutine is abandoned).
func c19Watch(f func()) (panicked string, timedOut bool) {
	done := make(chan string, 1)
	go func() { done <- guard(f) }()
	select {
	case p := <-done:
		return p, false
	case <-time.After(20 * time.Second):
		return "", true
	}
}

func genC19(tier string, seed uint64, n int, e *Emitter) {
	sizes := []int{2, 4, 8, 16, 32}
	if tier == "thorough" {
		sizes = []int{2, 4, 8, 16, 32, 64}
	}
	rules, bad := c02Rules()
	if bad != "" {
		e.Emit(Case{Group: "setup", Fail: bad})
		return
	}
	overlap := []graphql.ValidationRuleFn{rules[13]}
	cycles := []graphql.ValidationRuleFn{rules[9]}
	one := 1
	for _, fam := range c19Families() {
		valPts, planPts, dynPts := []string{}, []string{}, []string{}
		stop := false
		for _, sz := range sizes {
			if stop {
				break
			}
			sc := c19Build(fam.m(sz), &one)
			if sc == nil {
				e.Emit(Case{Group: fam.name, Fail: "schema does not build"})
				break
			}
			text := fam.gen(sz)
			term, doc, ok := c19Term(text)
			if !ok {
				e.Emit(Case{Group: fam.name, Desc: text, Fail: "family member does not parse"})
				break
			}
			tags := []string{"family-" + fam.name, fmt.Sprintf("n-%d", sz)}
			// validation: overlap rule alone
			// the fragment-cycle search alone
			graphql.VerifResetCounters()
			var resc graphql.ValidationResult
			failc, toc := c19Watch(func() { resc = graphql.ValidateDocument(&sc.built.Schema, doc, cycles) })
			cc := c19Counters()
			if toc {
				e.Emit(Case{Group: "cycle-search", Desc: map[string]interface{}{"family": fam.name, "n": sz, "document": c19Clip(text), "counters": cc},
					Tags: tags, Fail: "watchdog: NoFragmentCycles did not finish within 20 s on a document of " + fmt.Sprint(len(text)) + " bytes"})
				return // the abandoned run keeps incrementing the global counters: nothing measured after it is reliable
			}
			if failc == "" && !resc.IsValid {
				failc = "family member rejected by NoFragmentCycles"
			}
			e.Emit(Case{Group: "cycle-search", Coq: fmt.Sprintf("(CycleCase %s %s)", term, c02NList(cc)),
				Desc: map[string]interface{}{"family": fam.name, "n": sz, "document": c19Clip(text), "counters": cc}, NT: sz >= 8, Tags: tags, Fail: failc})
			graphql.VerifResetCounters()
			var res graphql.ValidationResult
			fail, tov := c19Watch(func() { res = graphql.ValidateDocument(&sc.built.Schema, doc, overlap) })
			cv := c19Counters()
			if tov {
				e.Emit(Case{Group: "validate", Desc: map[string]interface{}{"family": fam.name, "n": sz, "document": c19Clip(text), "counters": cv},
					Tags: tags, Fail: "watchdog: the overlap rule did not finish within 20 s on a document of " + fmt.Sprint(len(text)) + " bytes"})
				return
			}
			for i := range cv {
				if i == 7 {
					cv[i] = cc[i]
				}
			}
			if fail == "" && !res.IsValid {
				fail = "family member rejected by the overlap rule: " + fmt.Sprint(res.Errors)
			}
			// all rules, to make sure the member is a valid document
			if fail == "" {
				if r2 := graphql.ValidateDocument(&sc.built.Schema, doc, nil); !r2.IsValid {
					fail = "family member is not valid: " + fmt.Sprint(r2.Errors)
				}
			}
			e.Emit(Case{Group: "validate", Coq: fmt.Sprintf("(OverlapCase %s %s %s)", sc.coq, term, c02NList(cv)),
				Desc: map[string]interface{}{"family": fam.name, "n": sz, "document": c19Clip(text), "counters": cv}, NT: sz >= 8, Tags: tags, Fail: fail})
			valPts = append(valPts, fmt.Sprintf("(%d, %s)", sz, c02NList(cv)))
			// planning
			graphql.VerifResetCounters()
			var perr error
			var top bool
			fail, top = c19Watch(func() { _, perr = graphql.PlanQuery(&sc.built.Schema, doc, "") })
			cp := c19Counters()
			if top {
				e.Emit(Case{Group: "plan", Desc: map[string]interface{}{"family": fam.name, "n": sz, "document": c19Clip(text), "counters": cp},
					Tags: tags, Fail: "watchdog: PlanQuery did not finish within 20 s on a document of " + fmt.Sprint(len(text)) + " bytes"})
				return
			}
			if fail == "" && perr != nil {
				fail = "PlanQuery: " + perr.Error()
			}
			e.Emit(Case{Group: "plan", Coq: fmt.Sprintf("(PlanCase %s %s %s)", sc.coq, term, c02NList(cp)),
				Desc: map[string]interface{}{"family": fam.name, "n": sz, "document": c19Clip(text), "counters": cp}, NT: sz >= 8, Tags: tags, Fail: fail})
			planPts = append(planPts, fmt.Sprintf("(%d, %s)", sz, c02NList(cp)))
			// the same member with a variable-driven directive on a sibling at the root: the root level is
			// collected when the plan is executed, and everything below it is planned then
			cd := []int{}
			dtext := strings.Replace(text, "{", "query($v: Boolean = true) { zz: __typename @include(if: $v) ", 1)
			if dterm, ddoc, dok := c19Term(dtext); dok {
				graphql.VerifResetCounters()
				var derr error
				var dres *graphql.Result
				c19NilObjects = true
				dfail, dto := c19Watch(func() {
					var pl *graphql.Plan
					if pl, derr = graphql.PlanQuery(&sc.built.Schema, ddoc, ""); derr == nil {
						dres = graphql.ExecutePlan(pl, graphql.ExecuteParams{Schema: sc.built.Schema, Args: map[string]interface{}{}})
					}
				})
				cd = c19Counters()
				if dto {
					e.Emit(Case{Group: "plan-dynamic", Desc: map[string]interface{}{"family": fam.name, "n": sz, "document": c19Clip(dtext), "counters": cd},
						Tags: tags, Fail: "watchdog: PlanQuery + ExecutePlan (object fields resolving to nil) did not finish within 20 s on a document of " + fmt.Sprint(len(dtext)) + " bytes"})
					return
				}
				c19NilObjects = false
				if dfail == "" && derr != nil {
					dfail = "PlanQuery: " + derr.Error()
				}
				if dfail == "" && (dres == nil || len(dres.Errors) > 0) {
					dfail = fmt.Sprint("ExecutePlan: ", dres)
				}
				e.Emit(Case{Group: "plan-dynamic", Coq: fmt.Sprintf("(DynPlanCase %s %s)", dterm, c02NList(cd)),
					Desc: map[string]interface{}{"family": fam.name, "n": sz, "document": c19Clip(dtext), "counters": cd}, NT: sz >= 8, Tags: append([]string{"dynamic-root"}, tags...), Fail: dfail})
				dynPts = append(dynPts, fmt.Sprintf("(%d, %s)", sz, c02NList(cd)))
			}
			for _, c := range append(append(cv, cp...), cd...) {
				if c > c19Cap {
					stop = true // larger members would take exponentially long on a broken build
				}
			}
		}
		e.Emit(Case{Group: "growth", Coq: "(GrowthCase " + coqList(valPts) + ")", Desc: map[string]interface{}{"family": fam.name, "phase": "validate", "points": valPts}, NT: true, Tags: []string{"family-" + fam.name, "growth-validate"}})
		e.Emit(Case{Group: "growth", Coq: "(GrowthCase " + coqList(planPts) + ")", Desc: map[string]interface{}{"family": fam.name, "phase": "plan", "points": planPts}, NT: true, Tags: []string{"family-" + fam.name, "growth-plan"}})
		e.Emit(Case{Group: "growth", Coq: "(GrowthCase " + coqList(dynPts) + ")", Desc: map[string]interface{}{"family": fam.name, "phase": "plan at execute time (dynamic root level)", "points": dynPts}, NT: true, Tags: []string{"family-" + fam.name, "growth-plan-dynamic"}})
	}
	// executing a request plans only the runtime types actually encountered
	pts := []string{}
	descs := []string{}
	for _, m := range []int{2, 4, 8, 16, 32} {
		for _, k := range []int{1, 2, 4} {
			if k > m {
				continue
			}
			kk := k
			sc := c19Build(m, &kk)
			if sc == nil {
				continue
			}
			doc, err := parser.Parse(parser.ParseParams{Source: "{ lif0 { a if0 { a } ... on O0 { b } ... on O1 { b if0 { a } } } }"})
			if err != nil {
				continue
			}
			var plan *graphql.Plan
			var perr error
			if f := guard(func() { plan, perr = graphql.PlanQuery(&sc.built.Schema, doc, "") }); f != "" || perr != nil {
				e.Emit(Case{Group: "runtime-types", Fail: fmt.Sprint("PlanQuery: ", f, perr)})
				continue
			}
			graphql.VerifResetCounters()
			var r *graphql.Result
			f := guard(func() { r = graphql.ExecutePlan(plan, graphql.ExecuteParams{Schema: sc.built.Schema}) })
			c := c19Counters()
			if f != "" || r == nil || len(r.Errors) > 0 {
				e.Emit(Case{Group: "runtime-types", Fail: fmt.Sprint("ExecutePlan: ", f, r)})
				continue
			}
			pts = append(pts, fmt.Sprintf("(%d, (%d, %d))", k, m, c[1]))
			descs = append(descs, fmt.Sprintf("k=%d m=%d planning calls=%d collectInto=%d", k, m, c[1], c[0]))
		}
	}
	e.Emit(Case{Group: "runtime-types", Coq: "(RuntimeCase " + coqList(pts) + ")", Desc: descs, NT: true, Tags: []string{"runtime-types"}})
	// planning one document does not depend on the number of implementers of the abstract
	// types it goes through (k = 0: nothing is executed)
	ipts := []string{}
	idescs := []string{}
	for _, m := range []int{2, 4, 8, 16, 32} {
		sc := c19Build(m, &one)
		if sc == nil {
			continue
		}
		doc, err := parser.Parse(parser.ParseParams{Source: "{ if0 { a if0 { a ... on O0 { b if0 { a } } } } lif0 { a ... on O1 { b } } }"})
		if err != nil {
			continue
		}
		graphql.VerifResetCounters()
		var perr error
		if f := guard(func() { _, perr = graphql.PlanQuery(&sc.built.Schema, doc, "") }); f != "" || perr != nil {
			e.Emit(Case{Group: "implementers", Fail: fmt.Sprint("PlanQuery: ", f, perr)})
			continue
		}
		c := c19Counters()
		ipts = append(ipts, fmt.Sprintf("(0, (%d, %d))", m, c[1]+1000*c[0]))
		idescs = append(idescs, fmt.Sprintf("m=%d planning calls=%d collectInto=%d", m, c[1], c[0]))
	}
	e.Emit(Case{Group: "implementers", Coq: "(ImplementersCase " + coqList(ipts) + ")", Desc: idescs, NT: true, Tags: []string{"implementers"}})
	_ = seed
	_ = n
}

func c19Clip(s string) string {
	if len(s) > 400 {
		return s[:400] + " ..."
	}
	return s
}
