package main

// C17 -- extension hooks are balanced, ordered and fault-isolated.
// Runs graphql.Do on requests of every outcome class with 0-3 instrumented
// extensions whose hooks misbehave in prescribed ways, records the event log
// seen by the extensions and hands (class, behaviours, log, len(Errors),
// Extensions keys) to the Coq runner (Run/C17run.v).

import (
	"context"
	"errors"
	"fmt"
	"sort"
	"strings"
	"sync"

	"github.com/graphql-go/graphql"
	"github.com/graphql-go/graphql/gqlerrors"
)

func init() { props["C17"] = genC17 }

// ---- behaviours (mirror Ext/ExtensionsModel.v) ----

const (
	c17PVNone = iota
	c17PVErr
	c17PVStr
	c17PVInt
)

var c17PVName = []string{"", "PVErr", "PVStr", "PVInt"}

func c17PanicValue(v int) interface{} {
	switch v {
	case c17PVErr:
		return errors.New("hook failed")
	case c17PVStr:
		return "hook failed"
	default:
		return 42
	}
}

// plain hook / finish function: pv == 0 is well-behaved
type c17Beh struct{ pv int }

func (b c17Beh) coq() string {
	if b.pv == 0 {
		return "BOk"
	}
	return "(BPanic " + c17PVName[b.pv] + ")"
}

// start hook: kind 0 returns a finish function (fin), 1 returns nil, 2 panics (pv)
type c17SBeh struct {
	kind int
	fin  c17Beh
	pv   int
}

func (s c17SBeh) coq() string {
	switch s.kind {
	case 0:
		return "(SFn " + s.fin.coq() + ")"
	case 1:
		return "SNil"
	default:
		return "(SPanic " + c17PVName[s.pv] + ")"
	}
}
func (s c17SBeh) faulty() bool { return s.kind != 0 || s.fin.pv != 0 }

// HasResult: kind 0 true, 1 false, 2 panics
type c17HBeh struct {
	kind int
	pv   int
}

func (h c17HBeh) coq() string {
	switch h.kind {
	case 0:
		return "HTrue"
	case 1:
		return "HFalse"
	default:
		return "(HPanic " + c17PVName[h.pv] + ")"
	}
}

type c17ExtBeh struct {
	name    int
	init    c17Beh
	parse   c17SBeh
	valid   c17SBeh
	exec    c17SBeh
	resolve []c17SBeh
	has     c17HBeh
	get     c17Beh
}

func (x *c17ExtBeh) coq() string {
	rs := make([]string, len(x.resolve))
	for i, r := range x.resolve {
		rs[i] = r.coq()
	}
	return fmt.Sprintf("(mkExt %d %s %s %s %s %s %s %s)", x.name, x.init.coq(), x.parse.coq(), x.valid.coq(), x.exec.coq(), coqList(rs), x.has.coq(), x.get.coq())
}
func (x *c17ExtBeh) faults() int {
	n := 0
	if x.init.pv != 0 {
		n++
	}
	for _, s := range append([]c17SBeh{x.parse, x.valid, x.exec}, x.resolve...) {
		if s.faulty() {
			n++
		}
	}
	if x.has.kind == 2 {
		n++
	}
	if x.get.pv != 0 {
		n++
	}
	return n
}

// request classes
const (
	c17Syntax = iota
	c17Invalid
	c17OpErr
	c17VarErr
	c17Exec
)

const (
	c17ROk = iota
	c17RErr
	c17RPanic
	c17RBad // the resolver returns a value whose completion fails (nil for a non-null type, a non-list for a list type)
)

// deferred values (mirror tbeh)
const (
	c17TNow = iota
	c17TLater
	c17TLaterFail
)

// a field instance of the request tree (mirror Ext/ExecOrder.v node); ids are
// assigned in document order and also give the response key ('a'+id), so that
// response-key order is document order
type c17Node struct {
	id int
	nn bool // the field's type is non-null: a failure escapes to the enclosing selection
	rb int
	th int
	ch []*c17Node
}

func (n *c17Node) coq() string {
	cs := make([]string, len(n.ch))
	for i, c := range n.ch {
		cs[i] = c.coq()
	}
	return fmt.Sprintf("(Node %d %s %s %s %s)", n.id, coqBool(n.nn), []string{"ROk", "RErr", "RPanic", "RBad"}[n.rb],
		[]string{"TNow", "TLater", "TLaterFail"}[n.th], coqList(cs))
}

// the field a node selects: fN an object, gN a non-null object, sN a string,
// nN a non-null string, lN a list of strings, mN a non-null list of strings
func (n *c17Node) fieldName() string {
	k := "s"
	switch {
	case len(n.ch) > 0 && n.nn:
		k = "g"
	case len(n.ch) > 0:
		k = "f"
	case n.rb == c17RBad && n.nn && n.id%2 == 1:
		k = "m"
	case n.rb == c17RBad && !n.nn:
		k = "l"
	case n.nn:
		k = "n"
	}
	return fmt.Sprintf("%s%d", k, n.id)
}

func (n *c17Node) write(sb *strings.Builder) {
	fmt.Fprintf(sb, " %c: %s", 'a'+n.id, n.fieldName())
	if len(n.ch) > 0 {
		sb.WriteString(" {")
		for _, c := range n.ch {
			c.write(sb)
		}
		sb.WriteString(" }")
	}
}

func c17Walk(ns []*c17Node, f func(*c17Node)) {
	for _, n := range ns {
		f(n)
		c17Walk(n.ch, f)
	}
}

// flat root selection of leaves with the given resolver behaviours
func c17Flat(rbs ...int) []*c17Node {
	ns := make([]*c17Node, len(rbs))
	for i, rb := range rbs {
		ns[i] = &c17Node{id: i, rb: rb}
	}
	return ns
}

type c17Req struct {
	class int
	m     int // c17Invalid: m+1 validation errors
	mut   bool
	roots []*c17Node // c17Exec
	calls int        // c17Exec: number of resolver calls observed with well-behaved extensions (sizes the hook slots)
}

func (q c17Req) coq() string {
	switch q.class {
	case c17Syntax:
		return "CSyntax"
	case c17Invalid:
		return fmt.Sprintf("(CInvalid %d)", q.m)
	case c17OpErr:
		return "COpErr"
	case c17VarErr:
		return "CVarErr"
	}
	rs := make([]string, len(q.roots))
	for i, n := range q.roots {
		rs[i] = n.coq()
	}
	return fmt.Sprintf("(CExec %s %s)", coqBool(q.mut), coqList(rs))
}
func (q c17Req) tag() string {
	switch q.class {
	case c17Syntax:
		return "class:syntax"
	case c17Invalid:
		return "class:validation"
	case c17OpErr:
		return "class:operation"
	case c17VarErr:
		return "class:variable"
	}
	t := "class:success"
	c17Walk(q.roots, func(n *c17Node) {
		if n.rb != c17ROk || n.th == c17TLaterFail {
			t = "class:field-errors"
		}
	})
	return t
}

// the request text and operation name of a class
func (q c17Req) request() (string, string) {
	switch q.class {
	case c17Syntax:
		return "{ s0 ", ""
	case c17Invalid:
		var sb strings.Builder
		sb.WriteString("{ s0")
		for i := 0; i <= q.m; i++ {
			fmt.Fprintf(&sb, " nope%d", i)
		}
		sb.WriteString(" }")
		return sb.String(), ""
	case c17OpErr:
		return "query A { s0 } query B { s1 }", "C"
	case c17VarErr:
		return "query($v: Int!) { s0(x: $v) }", ""
	}
	var sb strings.Builder
	if q.mut {
		sb.WriteString("mutation ")
	}
	sb.WriteString("{")
	for _, n := range q.roots {
		n.write(&sb)
	}
	sb.WriteString(" }")
	return sb.String(), ""
}

// ---- the instrumented extension ----

type c17Log struct {
	mu sync.Mutex
	ev []string
}

func (l *c17Log) add(s string) {
	l.mu.Lock()
	l.ev = append(l.ev, s)
	l.mu.Unlock()
}

type c17Ext struct {
	idx   int
	b     *c17ExtBeh
	log   *c17Log
	calls int // ResolveFieldDidStart calls so far
}

func (x *c17Ext) Name() string { return fmt.Sprintf("ext%d", x.b.name) }

func (x *c17Ext) Init(ctx context.Context, p *graphql.Params) context.Context {
	x.log.add(fmt.Sprintf("EInit %d %s", x.idx, coqBool(x.b.init.pv == 0)))
	if x.b.init.pv != 0 {
		panic(c17PanicValue(x.b.init.pv))
	}
	return ctx
}

var c17SRes = []string{"SROk", "SRNil", "SRFail"}

// start logs the hook entry; returns false when the hook must hand back nil
func (x *c17Ext) start(ph string, s c17SBeh) bool {
	x.log.add(fmt.Sprintf("EStart %d %s %s", x.idx, ph, c17SRes[s.kind]))
	if s.kind == 2 {
		panic(c17PanicValue(s.pv))
	}
	return s.kind == 0
}
func (x *c17Ext) finish(ph string, n int, s c17SBeh) {
	x.log.add(fmt.Sprintf("EFinish %d %s %d %s", x.idx, ph, n, coqBool(s.fin.pv == 0)))
	if s.fin.pv != 0 {
		panic(c17PanicValue(s.fin.pv))
	}
}

func (x *c17Ext) ParseDidStart(ctx context.Context) (context.Context, graphql.ParseFinishFunc) {
	if !x.start("PParse", x.b.parse) {
		return ctx, nil
	}
	return ctx, func(err error) {
		n := 0
		if err != nil {
			n = 1
		}
		x.finish("PParse", n, x.b.parse)
	}
}

func (x *c17Ext) ValidationDidStart(ctx context.Context) (context.Context, graphql.ValidationFinishFunc) {
	if !x.start("PValid", x.b.valid) {
		return ctx, nil
	}
	return ctx, func(errs []gqlerrors.FormattedError) { x.finish("PValid", len(errs), x.b.valid) }
}

func (x *c17Ext) ExecutionDidStart(ctx context.Context) (context.Context, graphql.ExecutionFinishFunc) {
	if !x.start("PExec", x.b.exec) {
		return ctx, nil
	}
	return ctx, func(r *graphql.Result) {
		n := 9999 // a nil result is not an outcome
		if r != nil {
			n = len(r.Errors)
		}
		x.finish("PExec", n, x.b.exec)
	}
}

func (x *c17Ext) resolveBeh(k int) c17SBeh {
	if k >= 0 && k < len(x.b.resolve) {
		return x.b.resolve[k]
	}
	return c17SBeh{}
}

// the k-th call is the k-th resolve notification; the finish function reports
// which field it was told about and whether the resolver failed: 2*id + failed
func (x *c17Ext) ResolveFieldDidStart(ctx context.Context, info *graphql.ResolveInfo) (context.Context, graphql.ResolveFieldFinishFunc) {
	k := x.calls
	x.calls++
	id := 4000 // not one of the numbered fields: never generated
	if len(info.FieldName) > 1 {
		fmt.Sscanf(info.FieldName[1:], "%d", &id)
	}
	ph := fmt.Sprintf("(PResolve %d)", k)
	s := x.resolveBeh(k)
	if !x.start(ph, s) {
		return ctx, nil
	}
	return ctx, func(v interface{}, err error) {
		n := 2 * id
		if err != nil {
			n++
		} else if sv, ok := v.(string); ok && sv != fmt.Sprintf("v%d", id) {
			n = 8000 // the value of another field
		}
		x.finish(ph, n, s)
	}
}

var c17HRes = []string{"HRTrue", "HRFalse", "HRFail"}

func (x *c17Ext) HasResult() bool {
	x.log.add(fmt.Sprintf("EHas %d %s", x.idx, c17HRes[x.b.has.kind]))
	if x.b.has.kind == 2 {
		panic(c17PanicValue(x.b.has.pv))
	}
	return x.b.has.kind == 0
}

func (x *c17Ext) GetResult(ctx context.Context) interface{} {
	x.log.add(fmt.Sprintf("EGet %d %s", x.idx, coqBool(x.b.get.pv == 0)))
	if x.b.get.pv != 0 {
		panic(c17PanicValue(x.b.get.pv))
	}
	return x.idx
}

// ---- one run ----

const c17MaxIDs = 12

func c17Schema(q c17Req, exts []graphql.Extension) (graphql.Schema, error) {
	byID := map[int]*c17Node{}
	c17Walk(q.roots, func(n *c17Node) { byID[n.id] = n })
	deliver := func(id int, value, bad interface{}) (interface{}, error) {
		n := byID[id]
		if n == nil {
			return value, nil
		}
		switch n.rb {
		case c17RErr:
			return nil, fmt.Errorf("resolver %d failed", id)
		case c17RPanic:
			panic(fmt.Sprintf("resolver %d panicked", id))
		case c17RBad:
			return bad, nil
		}
		switch n.th {
		case c17TLater:
			return func() (interface{}, error) { return value, nil }, nil
		case c17TLaterFail:
			return func() (interface{}, error) { return nil, fmt.Errorf("deferred value %d failed", id) }, nil
		}
		return value, nil
	}
	var obj *graphql.Object
	mkFields := func() graphql.Fields {
		fields := graphql.Fields{}
		for i := 0; i < c17MaxIDs; i++ {
			id := i
			str := func(p graphql.ResolveParams) (interface{}, error) { return deliver(id, fmt.Sprintf("v%d", id), nil) }
			list := func(p graphql.ResolveParams) (interface{}, error) { return deliver(id, []string{"x"}, 5) }
			object := func(p graphql.ResolveParams) (interface{}, error) { return deliver(id, map[string]interface{}{}, nil) }
			fields[fmt.Sprintf("s%d", i)] = &graphql.Field{Type: graphql.String, Resolve: str,
				Args: graphql.FieldConfigArgument{"x": &graphql.ArgumentConfig{Type: graphql.Int}}}
			fields[fmt.Sprintf("n%d", i)] = &graphql.Field{Type: graphql.NewNonNull(graphql.String), Resolve: str}
			fields[fmt.Sprintf("l%d", i)] = &graphql.Field{Type: graphql.NewList(graphql.String), Resolve: list}
			fields[fmt.Sprintf("m%d", i)] = &graphql.Field{Type: graphql.NewNonNull(graphql.NewList(graphql.String)), Resolve: list}
			fields[fmt.Sprintf("f%d", i)] = &graphql.Field{Type: obj, Resolve: object}
			fields[fmt.Sprintf("g%d", i)] = &graphql.Field{Type: graphql.NewNonNull(obj), Resolve: object}
		}
		return fields
	}
	obj = graphql.NewObject(graphql.ObjectConfig{Name: "T", Fields: graphql.FieldsThunk(mkFields)})
	return graphql.NewSchema(graphql.SchemaConfig{
		Query:      graphql.NewObject(graphql.ObjectConfig{Name: "Q", Fields: graphql.FieldsThunk(mkFields)}),
		Mutation:   graphql.NewObject(graphql.ObjectConfig{Name: "M", Fields: graphql.FieldsThunk(mkFields)}),
		Extensions: exts,
	})
}

type c17Out struct {
	log      []string
	nerr     int
	keys     []int
	panicked string
}

func c17Run(q c17Req, behs []*c17ExtBeh) c17Out {
	lg := &c17Log{}
	exts := make([]graphql.Extension, len(behs))
	for i, b := range behs {
		exts[i] = &c17Ext{idx: i, b: b, log: lg}
	}
	var out c17Out
	schema, err := c17Schema(q, exts)
	if err != nil {
		out.panicked = "schema: " + err.Error()
		return out
	}
	req, op := q.request()
	var res *graphql.Result
	out.panicked = guard(func() {
		res = graphql.Do(graphql.Params{Schema: schema, RequestString: req, OperationName: op, Context: context.Background()})
	})
	lg.mu.Lock()
	out.log = append([]string(nil), lg.ev...)
	lg.mu.Unlock()
	if out.panicked != "" {
		return out
	}
	if res == nil {
		out.panicked = "Do returned nil"
		return out
	}
	out.nerr = len(res.Errors)
	for k := range res.Extensions {
		n := -1
		fmt.Sscanf(k, "ext%d", &n)
		out.keys = append(out.keys, n)
	}
	sort.Ints(out.keys)
	return out
}

func c17Emit(e *Emitter, group string, q c17Req, behs []*c17ExtBeh, extraTags ...string) {
	out := c17Run(q, behs)
	faults := 0
	xs := make([]string, len(behs))
	names := map[int]bool{}
	collide := false
	for i, b := range behs {
		xs[i] = b.coq()
		faults += b.faults()
		if names[b.name] {
			collide = true
		}
		names[b.name] = true
	}
	feat := map[string]bool{}
	for _, n := range q.roots {
		if n.nn && n.rb != c17ROk {
			feat["root-non-null-failure"] = true
		}
		c17Walk(n.ch, func(c *c17Node) {
			feat["nested"] = true
			if c.nn && c.rb != c17ROk {
				feat["nested-non-null-failure"] = true
			}
		})
	}
	c17Walk(q.roots, func(n *c17Node) {
		if n.th != c17TNow {
			feat["thunk"] = true
		}
		if n.rb == c17RBad {
			feat["completion-failure"] = true
		}
		if n.nn && len(n.ch) > 0 {
			feat["non-null-parent"] = true
		}
	})
	if q.class == c17Exec && q.mut {
		feat["mutation"] = true
	}
	for _, f := range []string{"root-non-null-failure", "nested", "nested-non-null-failure", "thunk", "mutation", "completion-failure", "non-null-parent"} {
		if feat[f] {
			extraTags = append(extraTags, f)
		}
	}
	tags := []string{q.tag(), fmt.Sprintf("exts:%d", len(behs)), fmt.Sprintf("faults:%d", faults)}
	if collide {
		tags = append(tags, "colliding-names")
	}
	tags = append(tags, extraTags...)
	req, op := q.request()
	desc := map[string]interface{}{"request": req, "operation": op, "class": q.coq(), "extensions": xs, "impl_log": out.log}
	c := Case{Group: group, Desc: desc, NT: len(behs) > 0 && faults > 0, Tags: tags}
	if out.panicked != "" {
		c.Fail = "graphql.Do did not return a result: " + out.panicked
	} else {
		evs := make([]string, len(out.log))
		for i, s := range out.log {
			evs[i] = "(" + s + ")"
		}
		ks := make([]string, len(out.keys))
		for i, k := range out.keys {
			ks[i] = coqN(k)
		}
		desc["impl_errors"] = out.nerr
		desc["impl_extension_keys"] = out.keys
		c.Coq = fmt.Sprintf("Case17 %s %s %s %s %s", q.coq(), coqList(xs), coqList(evs), coqN(out.nerr), coqList(ks))
	}
	e.Emit(c)
}

// ---- hook slots and faults ----

// a slot names one hook of an extension: 0 init, 1..3 parse/valid/exec start,
// 4..6 their finish functions, 7 HasResult, 8 GetResult, 9+2k resolve start of
// field k, 10+2k its finish function
func c17Slots(nfields int) int { return 9 + 2*nfields }

// faults applicable to a slot: 1..3 panic values; 4 = nil func (start slots) / false (HasResult)
func c17Faults(slot int) []int {
	switch {
	case slot >= 1 && slot <= 3, slot >= 9 && (slot-9)%2 == 0, slot == 7:
		return []int{1, 2, 3, 4}
	}
	return []int{1, 2, 3}
}

func c17Well(name, nfields int) *c17ExtBeh {
	return &c17ExtBeh{name: name, resolve: make([]c17SBeh, nfields)}
}

func c17SlotName(slot int) string {
	names := []string{"init", "parse-start", "valid-start", "exec-start", "parse-finish", "valid-finish", "exec-finish", "has-result", "get-result"}
	if slot < 9 {
		return names[slot]
	}
	if (slot-9)%2 == 0 {
		return "resolve-start"
	}
	return "resolve-finish"
}

func c17Apply(x *c17ExtBeh, slot, fault int) {
	setStart := func(s *c17SBeh) {
		if fault == 4 {
			*s = c17SBeh{kind: 1}
		} else {
			*s = c17SBeh{kind: 2, pv: fault}
		}
	}
	setFin := func(s *c17SBeh) {
		if s.kind == 0 {
			s.fin = c17Beh{pv: fault}
		}
	}
	switch slot {
	case 0:
		x.init = c17Beh{pv: fault}
	case 1:
		setStart(&x.parse)
	case 2:
		setStart(&x.valid)
	case 3:
		setStart(&x.exec)
	case 4:
		setFin(&x.parse)
	case 5:
		setFin(&x.valid)
	case 6:
		setFin(&x.exec)
	case 7:
		if fault == 4 {
			x.has = c17HBeh{kind: 1}
		} else {
			x.has = c17HBeh{kind: 2, pv: fault}
		}
	case 8:
		x.get = c17Beh{pv: fault}
	default:
		k := (slot - 9) / 2
		if k < len(x.resolve) {
			if (slot-9)%2 == 0 {
				setStart(&x.resolve[k])
			} else {
				setFin(&x.resolve[k])
			}
		}
	}
}

func c17N(id, rb, th int, ch ...*c17Node) *c17Node { return &c17Node{id: id, rb: rb, th: th, ch: ch} }

// a field of non-null type
func c17NN(id, rb int, ch ...*c17Node) *c17Node { return &c17Node{id: id, nn: true, rb: rb, ch: ch} }

// the tree a(f0){ b c(f2){ d } } e with a deferred, c deferred, e a failing deferred value
func c17ThunkTree() []*c17Node {
	return []*c17Node{
		c17N(0, c17ROk, c17TLater, c17N(1, c17ROk, c17TNow), c17N(2, c17ROk, c17TLater, c17N(3, c17RErr, c17TNow))),
		c17N(4, c17ROk, c17TLaterFail),
		c17N(5, c17ROk, c17TNow, c17N(6, c17ROk, c17TLater)),
	}
}

var c17Classes = []c17Req{
	{class: c17Syntax},
	{class: c17Invalid, m: 0},
	{class: c17Invalid, m: 2},
	{class: c17OpErr},
	{class: c17VarErr},
	{class: c17Exec, roots: c17Flat(c17ROk)},
	{class: c17Exec, roots: c17Flat(c17RPanic, c17ROk, c17RErr)},
	{class: c17Exec, roots: []*c17Node{c17N(0, c17ROk, c17TNow), c17NN(1, c17RErr), c17N(2, c17ROk, c17TNow)}},
	// values whose completion fails: a non-list for a list, nil for a non-null root field
	{class: c17Exec, roots: []*c17Node{c17N(0, c17RBad, c17TNow), c17N(1, c17ROk, c17TNow), c17NN(2, c17RBad), c17N(3, c17ROk, c17TNow)}},
	// a failure that escapes through a non-null parent to the nearest nullable field
	{class: c17Exec, roots: []*c17Node{c17N(0, c17ROk, c17TNow, c17NN(1, c17ROk, c17NN(2, c17RBad), c17N(3, c17ROk, c17TNow)), c17N(4, c17ROk, c17TNow)), c17N(5, c17ROk, c17TNow)}},
	// nested selections
	{class: c17Exec, roots: []*c17Node{c17N(0, c17ROk, c17TNow, c17N(1, c17ROk, c17TNow), c17N(2, c17ROk, c17TNow, c17N(3, c17RErr, c17TNow))), c17N(4, c17ROk, c17TNow)}},
	// a non-null failure below a nullable object: the rest of that selection is skipped
	{class: c17Exec, roots: []*c17Node{c17N(0, c17ROk, c17TNow, c17NN(1, c17RPanic), c17N(2, c17ROk, c17TNow)), c17N(3, c17ROk, c17TNow)}},
	// deferred values: query (breadth first) and mutation (depth first after each root field)
	{class: c17Exec, roots: c17ThunkTree()},
	{class: c17Exec, mut: true, roots: c17ThunkTree()},
}

// random request tree: at most c17MaxIDs field instances, depth <= 3
func c17RandTree(r *Rng) []*c17Node {
	next := 0
	var sel func(depth, max int) []*c17Node
	sel = func(depth, max int) []*c17Node {
		var ns []*c17Node
		k := 1 + r.Intn(max)
		for i := 0; i < k && next < c17MaxIDs; i++ {
			n := &c17Node{id: next}
			next++
			n.nn = r.Chance(22)
			switch x := r.Intn(100); {
			case x < 10:
				n.rb = c17RErr
			case x < 18:
				n.rb = c17RPanic
			case x < 32:
				n.rb = c17RBad
			}
			if !n.nn { // deferred values of non-null type are outside the model
				switch x := r.Intn(100); {
				case x < 25:
					n.th = c17TLater
				case x < 35:
					n.th = c17TLaterFail
				}
			}
			// a nullable object has no value whose completion fails; such a field stays a leaf
			if (n.rb != c17RBad || n.nn) && depth < 3 && r.Chance(40) && next < c17MaxIDs {
				n.ch = sel(depth+1, 3)
			}
			ns = append(ns, n)
		}
		return ns
	}
	return sel(1, 4)
}

// the number of resolver calls of a request with well-behaved extensions
func c17Probe(q *c17Req) {
	if q.class != c17Exec {
		return
	}
	out := c17Run(*q, []*c17ExtBeh{c17Well(1, 0)})
	for _, ev := range out.log {
		if strings.HasPrefix(ev, "EStart 0 (PResolve") {
			q.calls++
		}
	}
}

func c17Names(n int, collide bool) []int {
	names := make([]int, n)
	for i := range names {
		names[i] = i + 1
		if collide {
			names[i] = 1
		}
	}
	return names
}

func c17RandFault(r *Rng, slot int) int {
	fs := c17Faults(slot)
	return fs[r.Intn(len(fs))]
}

func genC17(tier string, seed uint64, n int, e *Emitter) {
	if n == 0 {
		n = 600
		if tier == "thorough" {
			n = 20000
		}
	}
	classes := make([]c17Req, len(c17Classes))
	for i, q := range c17Classes {
		c17Probe(&q)
		classes[i] = q
	}
	// (0) no extension, and well-behaved extensions, every class
	for _, q := range classes {
		for nx := 0; nx <= 3; nx++ {
			for _, collide := range []bool{false, true} {
				if collide && nx < 2 {
					continue
				}
				behs := []*c17ExtBeh{}
				for _, nm := range c17Names(nx, collide) {
					behs = append(behs, c17Well(nm, q.calls))
				}
				c17Emit(e, "no-fault", q, behs)
			}
		}
	}
	// (1) the single-fault space for one and two extensions, enumerated
	for _, q := range classes {
		for nx := 1; nx <= 2; nx++ {
			for _, collide := range []bool{false, true} {
				// equal names only matter for Result.Extensions and the finish-function tables:
				// enumerated on the small classes, sampled on the trees
				if collide && (nx < 2 || q.calls > 1) {
					continue
				}
				for who := 0; who < nx; who++ {
					for slot := 0; slot < c17Slots(q.calls); slot++ {
						for _, fault := range c17Faults(slot) {
							behs := []*c17ExtBeh{}
							for _, nm := range c17Names(nx, collide) {
								behs = append(behs, c17Well(nm, q.calls))
							}
							c17Apply(behs[who], slot, fault)
							c17Emit(e, "single-fault", q, behs, "slot:"+c17SlotName(slot), fmt.Sprintf("fault:%d", fault))
						}
					}
				}
			}
		}
	}
	// (2) sampled: 0-3 extensions, pairs and larger sets of faulty hooks
	for i := 0; i < n; i++ {
		r := NewRng(seed, uint64(i))
		var q c17Req
		switch r.Intn(8) {
		case 0:
			q = c17Req{class: c17Syntax}
		case 1:
			q = c17Req{class: c17Invalid, m: r.Intn(3)}
		case 2:
			q = c17Req{class: c17OpErr}
		case 3:
			q = c17Req{class: c17VarErr}
		default:
			q = c17Req{class: c17Exec, mut: r.Chance(30), roots: c17RandTree(r)}
			c17Probe(&q)
		}
		nx := r.Intn(4)
		collide := r.Chance(30)
		behs := []*c17ExtBeh{}
		for j := 0; j < nx; j++ {
			nm := j + 1
			if collide {
				nm = 1 + r.Intn(2)
			}
			behs = append(behs, c17Well(nm, q.calls))
		}
		group := "pair-fault"
		if nx > 0 {
			nfaults := 2
			if i%3 == 2 {
				nfaults = 3 + r.Intn(6)
				group = "multi-fault"
			}
			for f := 0; f < nfaults; f++ {
				who := r.Intn(nx)
				// bias toward the slots the request reaches
				slot := r.Intn(c17Slots(q.calls))
				c17Apply(behs[who], slot, c17RandFault(r, slot))
			}
		}
		c17Emit(e, group, q, behs)
	}
}
