package main

// C18, syntax-error clause: sources the implementation rejects, with the (line, column) it
// reports; the runner computes the error-position model (SynErr/ParseErr.v) on the same
// bytes.  Sources come from the C03 generators (token sequences over the C03 alphabet,
// grammar-generated documents and their token- and byte-level mutations), are ASCII only
// (the lexer counts characters, GetLocation bytes: finding C18-mixed-offset-units) and are
// laid out with LF / CR / CRLF / tab / comma / comment separators.

import (
	"fmt"
	"strings"

	"github.com/graphql-go/graphql"
	"github.com/graphql-go/graphql/gqlerrors"
	"github.com/graphql-go/graphql/language/ast"
	"github.com/graphql-go/graphql/language/parser"
)

var c18SynCorpus = []string{
	"{ }", "{ a() }", "schema { }", "query () { a }", "{ a { } }", "query { }", "{ a @d() }",
	"\"d\" query { a }", "\"d\" fragment F on T {a}", "\"d\" schema {query:Q}", "\"d\" extend type T {a:Int}", "\"\"\"d\"\"\" { a }", "\"d\" mutation",
	"schema { foo %", "schema { foo: Q }", "foo %", "foo {", "{ } %", "{a} %", "\"d\" foo", "\"d\" {", "\"d\"", "\"d\" %",
	"{a(x:null)}", "", " ", "# c", "{a(x:\"ab", "{a(x:\"ab\nc\")}", "{a(x:\"ab\rc\")}", "{a(x:01)}", "{a(x:1.e)}", "{a(x:1.)}", "{a(x:-)}", "{a(x:1e+)}", "{a(x:1e)}", "{a(x:-a)}",
	"{a(x:\"\\q\")}", "{a(x:\"\\u00zz\")}", "{a(x:\"\\u00\")}", "{a(x:\"\\u0", "{a(x:\"a\\", "{a(x:\"\x07\")}", "{a(x:\"\"\"abc", "{a(x:\"\"\"a\x01b\"\"\")}", "{a(x:\"\"\" \\\"\"\" ",
	"query($a: [Int", "query($a:", "query($a: [", "type T { a: [Int }", "type T { a: ", "{a ..b}", "{a . b}", "{a \x00 b}", "{a \x7f b}", "{ a ~ }", "{ a\r\n  b(\r\n }", "{ a\r  b(\r }", "{\n a\n\r\n b: \n}",
	"{ a } }", "{ a", "query Q", "{ a: }", "{ : a }", "{ ...on }", "fragment on on T { a }", "fragment F T { a }", "type T implements { a: Int }", "union U = ", "union U = |", "directive @d on", "directive d on A",
	"type A implements & <", "type A implements & %", "type A implements &\n<", "extend type String\r\nimplements\r& <# c\n", "type A implements & B & <", "type A implements &", "union U = | <", "union U = A | %",
	"enum E { true: }", "input I { a }", "interface I { a: }", "extend T { a: Int }", "scalar", "type", "{ a(x: $) }", "query Q($a: Int = $b) { a }", "query Q($a Int) { a }", "{ a(x: [1 }", "{ a(x: {b 1}) }",
}

func c18Ascii(b []byte) bool {
	for _, c := range b {
		if c >= 0x80 {
			return false
		}
	}
	return true
}

// more line terminators: single spaces become LF / CR / CRLF now and then (wherever they
// stand -- whatever source results is a legitimate input)
func c18Relayout(r *Rng, src []byte) []byte {
	var out []byte
	for i, c := range src {
		if c == ' ' && r.Chance(30) {
			switch r.Intn(3) {
			case 0:
				out = append(out, '\n')
			case 1:
				out = append(out, '\r', '\n')
			default:
				// a bare CR must not be joined with a following LF
				if i+1 < len(src) && src[i+1] == '\n' {
					out = append(out, '\r', ' ')
				} else {
					out = append(out, '\r')
				}
			}
			continue
		}
		out = append(out, c)
	}
	return out
}

// a lexeme the lexer rejects (mostly; some combinations are well-formed and are dropped by the
// caller when the source parses)
func c18BadLexeme(r *Rng) string {
	switch r.Intn(4) {
	case 0: // numbers
		s := r.Pick([]string{"", "-"}) + r.Pick([]string{"0", "1", "12", "01", "00", "", "0"}) +
			r.Pick([]string{"", "", ".", ".5", ".5", "..", ".e"}) +
			r.Pick([]string{"", "e", "E", "e+", "e-", "E+", "e5", "E-3", "e+x", "ee"}) +
			r.Pick([]string{"", "", "x", "_", ".", "-"})
		if s == "" {
			s = "-"
		}
		return s
	case 1: // strings
		body := r.Pick([]string{"", "a", "ab c", "a\\n", "\\\"", "x\\u0041y"})
		bad := r.Pick([]string{"\\q", "\\u12", "\\u12G4", "\\uZZZZ", "\\", "\\ ", "\x07", "\x00", "\x1f", "\\'", "\\U0041", "\\x41"})
		tail := r.Pick([]string{"\"", "\"", "", "\n\"", "\r\"", " z\""})
		switch r.Intn(3) {
		case 0:
			return "\"" + body + bad + body + tail
		case 1:
			return "\"" + body + r.Pick([]string{"", "\n", "\r", "\r\n"}) // unterminated
		default:
			return "\"" + body + bad
		}
	case 2: // block strings
		body := r.Pick([]string{"", "a", " a\n  b ", "x \\\"\"\" y", "\\\"\"\"", "q\"\"r", "\\"})
		switch r.Intn(3) {
		case 0:
			return "\"\"\"" + body + r.Pick([]string{"", "\"", "\"\"", "\n"}) // unterminated: runs to the end
		case 1:
			return "\"\"\"" + body + r.Pick([]string{"\x01", "\x00", "\x1f", "\x0b"}) + body + "\"\"\""
		default:
			return "\"\"\"" + body + "\\\"\"\"" + r.Pick([]string{"\x02", ""}) // escaped closing quotes
		}
	default: // characters
		return r.Pick([]string{"%", "~", "?", ".", "..", ". .", "\x00", "\x7f", "\x08", "^", "*", "<", ";", "'", "`", "\\", "+", "/", "#\x00", "....", "-.", ".5"})
	}
}

var c18DoSchema *graphql.Schema

func c18SynSchema() *graphql.Schema {
	if c18DoSchema == nil {
		q := graphql.NewObject(graphql.ObjectConfig{Name: "Q", Fields: graphql.Fields{
			"a": &graphql.Field{Type: graphql.String},
		}})
		s, err := graphql.NewSchema(graphql.SchemaConfig{Query: q})
		if err != nil {
			panic(err)
		}
		c18DoSchema = &s
	}
	return c18DoSchema
}

// runs the source through parser.Parse (and, when viaDo, through graphql.Do as well) and emits a
// case when it is rejected; returns whether it was
func c18EmitSyn(e *Emitter, src []byte, tags []string, viaDo bool) bool {
	if !c18Ascii(src) {
		return false
	}
	var doc *ast.Document
	var err error
	if pm := guard(func() { doc, err = parser.Parse(parser.ParseParams{Source: string(src)}) }); pm != "" {
		e.Emit(Case{Group: "syntax-error", Desc: map[string]interface{}{"source": string(src)}, NT: true, Tags: tags, Fail: "parser.Parse: " + pm})
		return true
	}
	if err == nil {
		_ = doc
		return false
	}
	c := Case{Group: "syntax-error", Tags: tags}
	desc := map[string]interface{}{"source": string(src)}
	c.Desc = desc
	ge, ok := err.(*gqlerrors.Error)
	if !ok || len(ge.Locations) != 1 {
		c.NT = true
		c.Fail = fmt.Sprintf("a syntax error without exactly one location: %T %v", err, err)
		e.Emit(c)
		return true
	}
	l := ge.Locations[0]
	desc["impl"] = l
	c.NT = l.Line > 1 || l.Column > 1
	for _, t := range []struct{ tag, sub string }{{"has-crlf", "\r\n"}, {"has-lf", "\n"}, {"has-cr", "\r"}, {"has-comment", "#"}} {
		if strings.Contains(string(src), t.sub) {
			c.Tags = append(c.Tags, t.tag)
		}
	}
	if l.Line > 1 {
		c.Tags = append(c.Tags, "line>1")
	}
	if viaDo {
		var res *graphql.Result
		if pm := guard(func() { res = graphql.Do(graphql.Params{Schema: *c18SynSchema(), RequestString: string(src)}) }); pm != "" {
			c.Fail = "graphql.Do: " + pm
		} else if len(res.Errors) != 1 || len(res.Errors[0].Locations) != 1 {
			c.Fail = fmt.Sprintf("graphql.Do: expected one error with one location, got %v", res.Errors)
		} else if dl := res.Errors[0].Locations[0]; dl.Line != l.Line || dl.Column != l.Column {
			c.Fail = fmt.Sprintf("graphql.Do locates the syntax error at %d:%d, parser.Parse at %d:%d", dl.Line, dl.Column, l.Line, l.Column)
		}
		c.Tags = append(c.Tags, "via-do")
	}
	if c.Fail == "" {
		c.Coq = fmt.Sprintf("SynCase %s %s %s", coqHex(src), coqN(l.Line), coqZ(l.Column))
	}
	e.Emit(c)
	return true
}

func c18GenSyntax(tier string, seed uint64, n int, e *Emitter) {
	// (a) corpus
	for i, s := range c18SynCorpus {
		c18EmitSyn(e, []byte(s), []string{"corpus"}, i%3 == 0)
	}
	// (b) token sequences over the C03 alphabet: every pair, and random longer ones
	for _, a := range c03Alphabet {
		for _, b := range c03Alphabet {
			c18EmitSyn(e, []byte(a+" "+b), []string{"tokens", "len2"}, false)
		}
	}
	m := n
	for i := 0; i < m; i++ {
		r := NewRng(seed^0x5e18, uint64(i))
		k := 3 + r.Intn(6)
		toks := make([]string, k)
		for j := range toks {
			toks[j] = r.Pick(c03Alphabet)
		}
		// start from something that gets the parser going
		switch r.Intn(4) {
		case 0:
			toks = append([]string{"{", "foo"}, toks...)
		case 1:
			toks = append([]string{"type", "foo", "{", "foo", ":"}, toks...)
		case 2:
			toks = append([]string{"query", "foo", "("}, toks...)
		}
		c18EmitSyn(e, c18Relayout(r, c03Render(r, toks, false)), []string{"tokens", "random"}, i%8 == 0)
	}
	// (d) malformed lexemes: as an argument value behind a random valid beginning (the lexer's
	// report), and at a random token boundary of a generated document (lexer or parser, whoever
	// comes first under lazy lexing)
	for i := 0; i < m; i++ {
		r := NewRng(seed^0x1e8e, uint64(i))
		bad := c18BadLexeme(r)
		var toks []string
		what := "lexeme-as-value"
		if i%2 == 0 {
			toks = []string{"{", r.Pick(c03Names), "(", r.Pick(c03Names), ":", bad, ")", "}"}
			if r.Bool() {
				toks = append([]string{"query", r.Pick(c03Names), "@", "d"}, toks...)
			}
		} else {
			what = "lexeme-anywhere"
			doc, _ := c03GenDoc(r)
			k := r.Intn(len(doc) + 1)
			toks = append(append(append([]string{}, doc[:k]...), bad), doc[k:]...)
		}
		src := c03Render(r, toks, false)
		if r.Bool() {
			src = c18Relayout(r, src)
		}
		c18EmitSyn(e, src, []string{"lexical", what}, i%8 == 2)
	}
	// (c) grammar-generated documents, mutated
	for i := 0; i < m; i++ {
		r := NewRng(seed^0x18c3, uint64(i))
		toks, sdl := c03GenDoc(r)
		kind := "exec"
		if sdl {
			kind = "sdl"
		}
		for j := 0; j < 2; j++ {
			mt, what := c03MutateToks(r, toks)
			if r.Chance(30) {
				mt, _ = c03MutateToks(r, mt)
			}
			src := c03Render(r, mt, false)
			if r.Bool() {
				src = c18Relayout(r, src)
			}
			c18EmitSyn(e, src, []string{"mutated", kind, what}, (i+j)%8 == 0)
		}
		src := c03Render(r, toks, false)
		if r.Bool() {
			src = c18Relayout(r, src)
		}
		for j := 0; j < 2; j++ {
			mbs, what := c03MutateBytes(r, src)
			if r.Chance(30) {
				mbs, _ = c03MutateBytes(r, mbs)
			}
			c18EmitSyn(e, mbs, []string{"mutated", kind, what}, (i+j)%8 == 1)
		}
	}
}
