package main

// Documents of the execution family: a small document AST that is rendered to
// GraphQL text (one line, so column-1 = byte offset = node id) and to a Gallina
// term; a type-directed generator that is valid by construction (DESIGN.md §7 C01 G).

import (
	"fmt"
	"sort"
	"strings"

	"github.com/graphql-go/graphql"
	"github.com/graphql-go/graphql/language/ast"
)

var xOddType = graphql.NewScalar(graphql.ScalarConfig{
	Name: "Odd",
	Serialize: func(v interface{}) interface{} {
		if i, ok := v.(int); ok && i%2 != 0 {
			return i
		}
		return nil
	},
	ParseValue: func(v interface{}) interface{} {
		if i, ok := v.(int); ok && i%2 != 0 {
			return i
		}
		return nil
	},
	ParseLiteral: func(v ast.Value) interface{} {
		if iv, ok := v.(*ast.IntValue); ok {
			var n int
			if _, err := fmt.Sscanf(iv.Value, "%d", &n); err == nil && n%2 != 0 {
				return n
			}
		}
		return nil
	},
})

func xOddScalar() *graphql.Scalar { return xOddType }

type xValue struct {
	Kind string // var int float str bool enum list obj
	S    string
	I    int
	F    float64
	B    bool
	List []*xValue
	Obj  []xObjField
}
type xObjField struct {
	Name string
	V    *xValue
}
type xArgVal struct {
	Name string
	V    *xValue
}
type xDir struct {
	Name string
	If   *xValue
}
type xSel struct {
	Kind     string // field spread inline
	Alias    string
	Name     string
	Args     []xArgVal
	Dirs     []xDir
	Sub      []*xSel
	TypeCond string
	ID       int
}
type xVarDef struct {
	Name    string
	Type    *xTy
	Default *xValue
}
type xOp struct {
	Kind string
	Name string
	Vars []xVarDef
	Sel  []*xSel
}
type xFrag struct {
	Name string
	Cond string
	Sel  []*xSel
	idx  int
}
type xDoc struct {
	Ops   []*xOp
	Frags []*xFrag
}

// ---- rendering ----

func (v *xValue) text() string {
	switch v.Kind {
	case "var":
		return "$" + v.S
	case "int":
		return fmt.Sprint(v.I)
	case "float":
		s := fmt.Sprint(v.F)
		if !strings.ContainsAny(s, ".e") {
			s += ".0"
		}
		return s
	case "str":
		return "\"" + v.S + "\""
	case "bool":
		return fmt.Sprint(v.B)
	case "enum":
		return v.S
	case "list":
		xs := []string{}
		for _, e := range v.List {
			xs = append(xs, e.text())
		}
		return "[" + strings.Join(xs, ", ") + "]"
	case "obj":
		xs := []string{}
		for _, f := range v.Obj {
			xs = append(xs, f.Name+": "+f.V.text())
		}
		return "{" + strings.Join(xs, ", ") + "}"
	}
	return "?"
}

func (v *xValue) coq() string {
	switch v.Kind {
	case "var":
		return "(VVar " + coqStr(v.S) + ")"
	case "int":
		return fmt.Sprintf("(VInt (%d)%%Z)", v.I)
	case "float":
		return strings.Replace(jvCoq(v.F), "JFloat", "VFloat", 1)
	case "str":
		return "(VStr " + coqStr(v.S) + ")"
	case "bool":
		return "(VBool " + coqBool(v.B) + ")"
	case "enum":
		return "(VEnum " + coqStr(v.S) + ")"
	case "list":
		xs := []string{}
		for _, e := range v.List {
			xs = append(xs, e.coq())
		}
		return "(VList " + coqList(xs) + ")"
	case "obj":
		xs := []string{}
		for _, f := range v.Obj {
			xs = append(xs, "("+coqStr(f.Name)+", "+f.V.coq()+")")
		}
		return "(VObj " + coqList(xs) + ")"
	}
	return "?"
}

type xRender struct{ sb strings.Builder }

func (r *xRender) w(s string) { r.sb.WriteString(s) }

func (r *xRender) dirs(ds []xDir) {
	for _, d := range ds {
		r.w(" @" + d.Name + "(if: " + d.If.text() + ")")
	}
}

func (r *xRender) sels(ss []*xSel) {
	r.w("{")
	for _, s := range ss {
		r.w(" ")
		s.ID = r.sb.Len()
		switch s.Kind {
		case "field":
			if s.Alias != "" {
				r.w(s.Alias + ": ")
			}
			r.w(s.Name)
			if len(s.Args) > 0 {
				xs := []string{}
				for _, a := range s.Args {
					xs = append(xs, a.Name+": "+a.V.text())
				}
				r.w("(" + strings.Join(xs, ", ") + ")")
			}
			r.dirs(s.Dirs)
			if len(s.Sub) > 0 {
				r.w(" ")
				r.sels(s.Sub)
			}
		case "spread":
			r.w("..." + s.Name)
			r.dirs(s.Dirs)
		case "inline":
			r.w("...")
			if s.TypeCond != "" {
				r.w(" on " + s.TypeCond)
			}
			r.dirs(s.Dirs)
			r.w(" ")
			r.sels(s.Sub)
		}
	}
	r.w(" }")
}

func (d *xDoc) text() string {
	r := &xRender{}
	for i, o := range d.Ops {
		if i > 0 {
			r.w(" ")
		}
		r.w(o.Kind)
		if o.Name != "" {
			r.w(" " + o.Name)
		}
		if len(o.Vars) > 0 {
			xs := []string{}
			for _, v := range o.Vars {
				s := "$" + v.Name + ": " + v.Type.String()
				if v.Default != nil {
					s += " = " + v.Default.text()
				}
				xs = append(xs, s)
			}
			r.w("(" + strings.Join(xs, ", ") + ")")
		}
		r.w(" ")
		r.sels(o.Sel)
	}
	for _, f := range d.Frags {
		r.w(" fragment " + f.Name + " on " + f.Cond + " ")
		r.sels(f.Sel)
	}
	return r.sb.String()
}

func xDirsCoq(ds []xDir) string {
	xs := []string{}
	for _, d := range ds {
		xs = append(xs, "{| d_name := "+coqStr(d.Name)+"; d_args := [(\"if\", "+d.If.coq()+")] |}")
	}
	return coqList(xs)
}

func xSelsCoq(ss []*xSel) string {
	xs := []string{}
	for _, s := range ss {
		switch s.Kind {
		case "field":
			al := "None"
			if s.Alias != "" {
				al = "(Some " + coqStr(s.Alias) + ")"
			}
			as := []string{}
			for _, a := range s.Args {
				as = append(as, "("+coqStr(a.Name)+", "+a.V.coq()+")")
			}
			xs = append(xs, fmt.Sprintf("(SField %d %s %s %s %s %s)", s.ID, al, coqStr(s.Name), coqList(as), xDirsCoq(s.Dirs), xSelsCoq(s.Sub)))
		case "spread":
			xs = append(xs, fmt.Sprintf("(SSpread %d %s %s)", s.ID, coqStr(s.Name), xDirsCoq(s.Dirs)))
		case "inline":
			tc := "None"
			if s.TypeCond != "" {
				tc = "(Some " + coqStr(s.TypeCond) + ")"
			}
			xs = append(xs, fmt.Sprintf("(SInline %d %s %s %s)", s.ID, tc, xDirsCoq(s.Dirs), xSelsCoq(s.Sub)))
		}
	}
	return coqList(xs)
}

// coq must be called after text() (node ids are assigned while rendering)
func (d *xDoc) coq() string {
	ops := []string{}
	for _, o := range d.Ops {
		k := map[string]string{"query": "OpQuery", "mutation": "OpMutation", "subscription": "OpSubscription"}[o.Kind]
		nm := "None"
		if o.Name != "" {
			nm = "(Some " + coqStr(o.Name) + ")"
		}
		vs := []string{}
		for _, v := range o.Vars {
			dv := "None"
			if v.Default != nil {
				dv = "(Some " + v.Default.coq() + ")"
			}
			vs = append(vs, "{| v_name := "+coqStr(v.Name)+"; v_type := "+v.Type.coq()+"; v_default := "+dv+" |}")
		}
		ops = append(ops, "{| o_kind := "+k+"; o_name := "+nm+"; o_vars := "+coqList(vs)+"; o_sel := "+xSelsCoq(o.Sel)+" |}")
	}
	frs := []string{}
	for _, f := range d.Frags {
		frs = append(frs, "{| fr_name := "+coqStr(f.Name)+"; fr_cond := "+coqStr(f.Cond)+"; fr_sel := "+xSelsCoq(f.Sel)+" |}")
	}
	return "{| d_ops := " + coqList(ops) + "; d_frags := " + coqList(frs) + " |}"
}

// ---- generator ----

type xGenOpts struct {
	DynDirPct   int  // chance that a directive's `if` is a variable
	DirPct      int  // chance of a directive on a selection
	FragPct     int  // chance of a named fragment spread
	InlinePct   int  // chance of an inline fragment
	VarArgPct   int  // chance that an argument is a variable
	Mutation    bool // generate a mutation
	MaxDepth    int
	MultiOp     bool
	BadInputPct int // chance that a variable's raw value is a one-step mutant of a conformant one (C05)
	NestedVarPct int // chance that a field of an input-object literal is written as a variable (default 20)
	OmitVarPct   int // chance that a nullable / defaulted variable is not supplied (default 25)
	OobIntPct    int // chance that an Int literal lies outside 32 bits (the document must then be rejected by validation)
	ReusePct     int // chance of the fragment-reuse family at the root (two sites sharing a fragment, differing later)
}

type xGen struct {
	r        *Rng
	s        *xSchema
	o        xGenOpts
	variants map[string][]xArgVal // response key -> args bound to it
	varTypes map[string]*xTy
	varDefs  map[string]*xValue
	frags    []*xFrag
	curFrag  int // index of the fragment whose body is being generated, -1 at operation level
	expectInvalid bool // the generator deliberately wrote something validation must reject
}

func (g *xGen) overlap(a, b string) bool {
	pa, pb := g.s.possible(a), g.s.possible(b)
	for _, x := range pa {
		for _, y := range pb {
			if x == y {
				return true
			}
		}
	}
	return false
}

func (g *xGen) compositeTypes() []string {
	var out []string
	for _, t := range g.s.Types {
		if t.Kind == "object" || t.Kind == "interface" || t.Kind == "union" {
			if t.Name != "Q" && t.Name != "M" {
				out = append(out, t.Name)
			}
		}
	}
	return out
}

func (g *xGen) literal(t *xTy, depth int, allowVar bool) *xValue {
	if t.Kind == "nonnull" {
		return g.literal(t.Of, depth, allowVar)
	}
	if t.Kind == "list" {
		if g.r.Chance(15) && t.Of.Kind != "list" {
			// list-of-one coercion
			return g.literal(t.Of, depth, false)
		}
		n := g.r.Intn(4)
		v := &xValue{Kind: "list"}
		for i := 0; i < n; i++ {
			// items that are input-object literals may mention variables in their fields (a variable below an
			// object below a list literal); a variable as the item itself is not generated
			v.List = append(v.List, g.literal(t.Of, depth, allowVar))
		}
		return v
	}
	switch t.Name {
	case "Int":
		if g.r.Chance(g.o.OobIntPct) {
			// an Int literal outside 32 bits: validation has to reject the document
			g.expectInvalid = true
			return &xValue{Kind: "int", I: []int{2147483648, -2147483649, 3000000000}[g.r.Intn(3)]}
		}
		return &xValue{Kind: "int", I: []int{0, 1, -1, 7, 42, 2147483647, -2147483648}[g.r.Intn(7)]}
	case "Odd":
		return &xValue{Kind: "int", I: []int{1, 3, -5, 99}[g.r.Intn(4)]}
	case "Float":
		if g.r.Bool() {
			return &xValue{Kind: "int", I: g.r.Intn(100)}
		}
		return &xValue{Kind: "float", F: float64(g.r.Intn(40)) + 0.5}
	case "String":
		return &xValue{Kind: "str", S: []string{"x", "foo", "", "bar baz"}[g.r.Intn(4)]}
	case "Boolean":
		return &xValue{Kind: "bool", B: g.r.Bool()}
	case "ID":
		if g.r.Bool() {
			return &xValue{Kind: "int", I: g.r.Intn(1000)}
		}
		return &xValue{Kind: "str", S: "id" + fmt.Sprint(g.r.Intn(9))}
	}
	ty := g.s.typ(t.Name)
	if ty.Kind == "enum" {
		return &xValue{Kind: "enum", S: ty.Vals[g.r.Intn(len(ty.Vals))].Name}
	}
	// input object
	v := &xValue{Kind: "obj"}
	for _, f := range ty.Inputs {
		required := f.Type.Kind == "nonnull" && !f.HasDef
		if !required && (depth <= 0 || g.r.Chance(45)) {
			continue
		}
		nv := g.o.NestedVarPct
		if nv == 0 {
			nv = 20
		}
		if allowVar && g.r.Chance(nv) && f.Type.named() != "In0" && f.Type.named() != "In1" {
			// a variable nested inside an input-object literal
			vn := "n_" + t.Name + "_" + f.Name
			g.varTypes[vn] = f.Type
			v.Obj = append(v.Obj, xObjField{f.Name, &xValue{Kind: "var", S: vn}})
			continue
		}
		v.Obj = append(v.Obj, xObjField{f.Name, g.literal(f.Type, depth-1, allowVar)})
	}
	return v
}

func (g *xGen) argsFor(f *xField, key string) []xArgVal {
	if as, ok := g.variants[key]; ok {
		return as
	}
	var as []xArgVal
	for _, a := range f.Args {
		required := a.Type.Kind == "nonnull" && !a.HasDef
		if !required && g.r.Chance(30) {
			continue
		}
		if g.r.Chance(g.o.VarArgPct) {
			vn := "a_" + f.Name + "_" + a.Name
			if _, ok := g.varTypes[vn]; !ok {
				g.varTypes[vn] = a.Type
				if a.Type.Kind != "nonnull" && g.r.Chance(40) {
					g.varDefs[vn] = g.literal(a.Type, 1, false)
				}
			}
			as = append(as, xArgVal{a.Name, &xValue{Kind: "var", S: vn}})
			continue
		}
		as = append(as, xArgVal{a.Name, g.literal(a.Type, 2, true)})
	}
	if as == nil {
		as = []xArgVal{}
	}
	g.variants[key] = as
	return as
}

func (g *xGen) dirs() []xDir {
	if !g.r.Chance(g.o.DirPct) {
		return nil
	}
	mk := func(name string) xDir {
		if g.r.Chance(g.o.DynDirPct) {
			vn := fmt.Sprintf("v%d", g.r.Intn(3))
			g.varTypes[vn] = xNonNull(xNamed("Boolean"))
			return xDir{name, &xValue{Kind: "var", S: vn}}
		}
		return xDir{name, &xValue{Kind: "bool", B: g.r.Bool()}}
	}
	switch g.r.Intn(5) {
	case 0, 1:
		return []xDir{mk("skip")}
	case 2, 3:
		return []xDir{mk("include")}
	}
	if g.r.Bool() {
		return []xDir{mk("skip"), mk("include")}
	}
	return []xDir{mk("include"), mk("skip")}
}

func (g *xGen) fieldSel(parent string, depth int) *xSel {
	pt := g.s.typ(parent)
	var avail []string
	if pt.Kind == "object" || pt.Kind == "interface" {
		avail = pt.Fields
	}
	var cands []string
	for _, fn := range avail {
		tn := g.s.Pool[fn].Type.named()
		tk := g.s.typ(tn).Kind
		composite := tk == "object" || tk == "interface" || tk == "union"
		if composite && depth <= 0 {
			continue
		}
		cands = append(cands, fn)
	}
	if len(cands) == 0 || g.r.Chance(6) {
		s := &xSel{Kind: "field", Name: "__typename"}
		if g.r.Chance(30) {
			s.Alias = "tn_1"
		}
		return s
	}
	fn := cands[g.r.Intn(len(cands))]
	f := g.s.Pool[fn]
	s := &xSel{Kind: "field", Name: fn}
	key := fn
	if j := g.r.Intn(3); j > 0 && g.r.Chance(50) {
		s.Alias = fmt.Sprintf("%s_%d", fn, j)
		key = s.Alias
	}
	s.Args = g.argsFor(f, key)
	s.Dirs = g.dirs()
	tn := f.Type.named()
	tk := g.s.typ(tn).Kind
	if tk == "object" || tk == "interface" || tk == "union" {
		s.Sub = g.selSet(tn, depth-1)
	}
	return s
}

func (g *xGen) selSet(parent string, depth int) []*xSel {
	n := 1 + g.r.Intn(4)
	var out []*xSel
	for i := 0; i < n; i++ {
		c := g.r.Intn(100)
		switch {
		case c < g.o.FragPct && depth >= 0:
			// named fragment spread: reuse a later fragment or create one
			var cands []*xFrag
			for _, f := range g.frags {
				if f.idx > g.curFrag && g.overlap(f.Cond, parent) && f.Sel != nil {
					cands = append(cands, f)
				}
			}
			var fr *xFrag
			if len(cands) > 0 && g.r.Chance(60) {
				fr = cands[g.r.Intn(len(cands))]
			} else if len(g.frags) < 5 {
				var conds []string
				for _, c := range append(g.compositeTypes(), parent) {
					if g.overlap(c, parent) {
						conds = append(conds, c)
					}
				}
				cond := conds[g.r.Intn(len(conds))]
				fr = &xFrag{Name: fmt.Sprintf("F%d", len(g.frags)), Cond: cond, idx: len(g.frags)}
				g.frags = append(g.frags, fr)
				saved := g.curFrag
				g.curFrag = fr.idx
				d := depth
				if d > 1 {
					d = 1
				}
				fr.Sel = g.selSet(cond, d)
				g.curFrag = saved
			}
			if fr != nil {
				out = append(out, &xSel{Kind: "spread", Name: fr.Name, Dirs: g.dirs()})
				continue
			}
			out = append(out, g.fieldSel(parent, depth))
		case c < g.o.FragPct+g.o.InlinePct && depth >= 0:
			s := &xSel{Kind: "inline", Dirs: g.dirs()}
			target := parent
			if g.r.Chance(70) {
				var conds []string
				for _, c := range append(g.compositeTypes(), parent) {
					if g.overlap(c, parent) {
						conds = append(conds, c)
					}
				}
				target = conds[g.r.Intn(len(conds))]
				s.TypeCond = target
			}
			d := depth
			if d > 1 {
				d = 1
			}
			s.Sub = g.selSet(target, d)
			out = append(out, s)
		default:
			out = append(out, g.fieldSel(parent, depth))
		}
	}
	return out
}

// variables reachable from a selection set (through fragments)
func (g *xGen) usedVars(ss []*xSel, seen map[string]bool, out map[string]bool) {
	var val func(v *xValue)
	val = func(v *xValue) {
		if v == nil {
			return
		}
		switch v.Kind {
		case "var":
			out[v.S] = true
		case "list":
			for _, e := range v.List {
				val(e)
			}
		case "obj":
			for _, f := range v.Obj {
				val(f.V)
			}
		}
	}
	for _, s := range ss {
		for _, d := range s.Dirs {
			val(d.If)
		}
		for _, a := range s.Args {
			val(a.V)
		}
		if s.Kind == "spread" {
			if !seen[s.Name] {
				seen[s.Name] = true
				for _, f := range g.frags {
					if f.Name == s.Name {
						g.usedVars(f.Sel, seen, out)
					}
				}
			}
			continue
		}
		g.usedVars(s.Sub, seen, out)
	}
}

// reuseFamily builds the shape  k1: f { ...F c { X } }  k2: f { ...F c { Y } }  fragment F on T { c { Z } }:
// two sites whose merged occurrences of a key share the parent type, the first sub-selection (from the
// reused fragment) and the number of occurrences, and differ only in a later occurrence
func (g *xGen) reuseFamily(root string) []*xSel {
	rt := g.s.typ(root)
	for _, fn := range rt.Fields {
		tn := g.s.Pool[fn].Type.named()
		tt := g.s.typ(tn)
		if tt == nil || tt.Kind != "object" || len(g.s.Pool[fn].Args) > 0 {
			continue
		}
		for _, cn := range tt.Fields {
			ctn := g.s.Pool[cn].Type.named()
			ct := g.s.typ(ctn)
			if ct == nil || (ct.Kind != "object" && ct.Kind != "interface") || len(g.s.Pool[cn].Args) > 0 {
				continue
			}
			fr := &xFrag{Name: fmt.Sprintf("F%d", len(g.frags)), Cond: tn, idx: len(g.frags)}
			g.frags = append(g.frags, fr)
			saved := g.curFrag
			g.curFrag = fr.idx
			fr.Sel = []*xSel{{Kind: "field", Name: cn, Args: g.argsFor(g.s.Pool[cn], cn), Sub: g.selSet(ctn, 0)}}
			g.curFrag = saved
			site := func(alias string) *xSel {
				return &xSel{Kind: "field", Alias: alias, Name: fn, Args: g.argsFor(g.s.Pool[fn], alias), Sub: []*xSel{
					{Kind: "spread", Name: fr.Name},
					{Kind: "field", Name: cn, Args: g.argsFor(g.s.Pool[cn], cn), Sub: g.selSet(ctn, 0)},
				}}
			}
			return []*xSel{site(fn + "_1"), site(fn + "_2")}
		}
	}
	return nil
}

func xGenDoc(r *Rng, s *xSchema, o xGenOpts) (*xDoc, *xGen) {
	g := &xGen{r: r, s: s, o: o, variants: map[string][]xArgVal{}, varTypes: map[string]*xTy{}, varDefs: map[string]*xValue{}, curFrag: -1}
	d := &xDoc{}
	mkOp := func(kind, name string) *xOp {
		root := "Q"
		if kind == "mutation" {
			root = "M"
		}
		sel := g.selSet(root, o.MaxDepth)
		if r.Chance(o.ReusePct) {
			sel = append(g.reuseFamily(root), sel...)
		}
		return &xOp{Kind: kind, Name: name, Sel: sel}
	}
	kind := "query"
	if o.Mutation {
		kind = "mutation"
	}
	if o.MultiOp {
		d.Ops = append(d.Ops, mkOp(kind, "A"))
		k2 := "query"
		if r.Bool() {
			k2 = "mutation"
		}
		d.Ops = append(d.Ops, mkOp(k2, "B"))
	} else {
		name := ""
		if r.Bool() {
			name = "A"
		}
		d.Ops = append(d.Ops, mkOp(kind, name))
	}
	d.Frags = g.frags
	for _, op := range d.Ops {
		used := map[string]bool{}
		g.usedVars(op.Sel, map[string]bool{}, used)
		names := []string{}
		for n := range used {
			names = append(names, n)
		}
		sort.Strings(names)
		for _, n := range names {
			op.Vars = append(op.Vars, xVarDef{Name: n, Type: g.varTypes[n], Default: g.varDefs[n]})
		}
	}
	return d, g
}

// a conformant raw value for a variable of type t
func (g *xGen) rawValue(t *xTy, depth int) interface{} {
	if t.Kind == "nonnull" {
		return g.rawValue(t.Of, depth)
	}
	if t.Kind == "list" {
		if g.r.Chance(15) && t.Of.Kind != "list" {
			return g.rawValue(t.Of, depth)
		}
		n := g.r.Intn(4)
		l := []interface{}{}
		for i := 0; i < n; i++ {
			l = append(l, g.rawValue(t.Of, depth))
		}
		return l
	}
	switch t.Name {
	case "Int":
		return []int{0, 1, -1, 7, 42, 2147483647, -2147483648}[g.r.Intn(7)]
	case "Odd":
		return []int{1, 3, -5, 99}[g.r.Intn(4)]
	case "Float":
		if g.r.Bool() {
			return g.r.Intn(100)
		}
		return float64(g.r.Intn(40)) + 0.5
	case "String":
		return []string{"x", "foo", "", "bar baz"}[g.r.Intn(4)]
	case "Boolean":
		return g.r.Bool()
	case "ID":
		if g.r.Bool() {
			return g.r.Intn(1000)
		}
		return "id" + fmt.Sprint(g.r.Intn(9))
	}
	ty := g.s.typ(t.Name)
	if ty.Kind == "enum" {
		return ty.Vals[g.r.Intn(len(ty.Vals))].Name
	}
	m := map[string]interface{}{}
	for _, f := range ty.Inputs {
		required := f.Type.Kind == "nonnull" && !f.HasDef
		if !required && (depth <= 0 || g.r.Chance(45)) {
			continue
		}
		m[f.Name] = g.rawValue(f.Type, depth-1)
	}
	return m
}

// a one-step mutant of a conformant value: may or may not still be conformant
func (g *xGen) mutate(t *xTy, v interface{}) interface{} {
	stringy := t.named() == "String" || t.named() == "ID"
	switch g.r.Intn(7) {
	case 0:
		return nil
	case 1:
		if stringy {
			// %v formatting of floats, lists and maps is not modelled
			return []interface{}{2147483648, "zz", true}[g.r.Intn(3)]
		}
		return []interface{}{2147483648, -2147483649, 1.5, "zz", true, map[string]interface{}{"zz": 1}, []interface{}{1, "zz"}, "NaN", "Inf"}[g.r.Intn(9)]
	}
	switch x := v.(type) {
	case []interface{}:
		if len(x) > 0 {
			i := g.r.Intn(len(x))
			et := t
			for et.Kind == "nonnull" {
				et = et.Of
			}
			if et.Kind == "list" {
				et = et.Of
			}
			y := append([]interface{}{}, x...)
			y[i] = g.mutate(et, x[i])
			return y
		}
		return append(x, nil)
	case map[string]interface{}:
		y := map[string]interface{}{}
		for k, e := range x {
			y[k] = e
		}
		ty := g.s.typ(t.named())
		switch g.r.Intn(3) {
		case 0:
			y["zz"] = 1 // unknown field
		case 1:
			for k := range y { // drop a field (map order does not matter: chosen by sorted index)
				keys := []string{}
				for kk := range y {
					keys = append(keys, kk)
				}
				sort.Strings(keys)
				delete(y, keys[g.r.Intn(len(keys))])
				_ = k
				break
			}
		case 2:
			if ty != nil && len(ty.Inputs) > 0 {
				f := ty.Inputs[g.r.Intn(len(ty.Inputs))]
				y[f.Name] = g.mutate(f.Type, y[f.Name])
			}
		}
		return y
	case int:
		return []interface{}{x, 2147483648, -2147483649, "zz"}[g.r.Intn(4)]
	case string:
		return []interface{}{"ZZ", 5, x}[g.r.Intn(3)]
	}
	return v
}

func (g *xGen) inputs(op *xOp) map[string]interface{} {
	in := map[string]interface{}{}
	for _, v := range op.Vars {
		nullable := v.Type.Kind != "nonnull"
		ov := g.o.OmitVarPct
		if ov == 0 {
			ov = 25
		}
		if (nullable || v.Default != nil) && g.r.Chance(ov) {
			if g.r.Bool() {
				in[v.Name] = nil
			}
			continue
		}
		val := g.rawValue(v.Type, 2)
		if g.r.Chance(g.o.BadInputPct) {
			val = g.mutate(v.Type, val)
		}
		in[v.Name] = val
	}
	return in
}
