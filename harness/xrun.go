package main

// Running one request of the execution family on the implementation with
// recording resolvers, and printing the observed case as a Gallina term.

import (
	"context"
	"errors"
	"fmt"
	"hash/fnv"
	"math"
	"sort"
	"strings"
	"sync"

	"github.com/graphql-go/graphql"
	"github.com/graphql-go/graphql/gqlerrors"
	"github.com/graphql-go/graphql/language/ast"
	"github.com/graphql-go/graphql/language/parser"
	"github.com/graphql-go/graphql/language/source"
)

type xNode struct {
	ID   int
	Type string
	t    *xTrial
}

// Resolve makes every harness object a graphql.FieldResolver: fields without a Resolve function
// (DefaultResolveFn) are resolved through the same recording resolver
func (n *xNode) Resolve(p graphql.ResolveParams) (interface{}, error) {
	if n == nil || n.t == nil {
		return nil, nil
	}
	return n.t.resolve(p)
}

var xChan = make(chan int)
var xNilStr *string

type xCtxKey struct{}

// outcome policy of a trial
type xPolicy struct {
	Null, Err, ValErr, Panic, Thunk, Adversarial, BadType int // percentages
}

type xTrial struct {
	mu      sync.Mutex
	s       *xSchema
	b       *xBuilt
	seed    uint64
	pol     xPolicy
	nextID  int
	calls   []string
	callPaths map[string]int
	oracle  []string
	tcalls  []string
	tover   []string
	log     []string
	fails   []string
	varsSeen string
	ctxTag  int
	nnThunks bool
	badRT    bool // values of abstract type mostly carry a runtime type that is not a possible type
	viaFR    bool // non-root fields have no Resolve function and are resolved through FieldResolver sources
	tags    map[string]bool
	root    map[string]interface{}
}

func xPathCoq(p []interface{}) string {
	xs := []string{}
	for _, e := range p {
		switch k := e.(type) {
		case string:
			xs = append(xs, "PKey "+coqStr(k))
		case int:
			xs = append(xs, fmt.Sprintf("PIdx %d", k))
		default:
			xs = append(xs, "PKey \"<bad path element>\"")
		}
	}
	return coqList(xs)
}

func xPathStr(p []interface{}) string {
	xs := []string{}
	for _, e := range p {
		xs = append(xs, fmt.Sprint(e))
	}
	return strings.Join(xs, "/")
}

// Go value of a resolver result / source -> rv term
func (t *xTrial) rvCoq(v interface{}) string {
	switch x := v.(type) {
	case nil:
		return "RNull"
	case bool:
		return "(RBool " + coqBool(x) + ")"
	case int:
		return fmt.Sprintf("(RInt (%d)%%Z)", x)
	case float64:
		if math.IsNaN(x) || math.IsInf(x, 0) {
			return "RNaN" // non-finite floats: no output position may show them
		}
		return strings.Replace(jvCoq(x), "JFloat", "RFloat", 1)
	case float32:
		return strings.Replace(jvCoq(float64(x)), "JFloat", "RFloat", 1)
	case string:
		return "(RStr " + coqStr(x) + ")"
	case []interface{}:
		xs := []string{}
		for _, e := range x {
			xs = append(xs, t.rvCoq(e))
		}
		return "(RList " + coqList(xs) + ")"
	case *xNode:
		return fmt.Sprintf("(RObj %d %s)", x.ID, coqStr(x.Type))
	case *string:
		if x == nil {
			return "RNilPtr"
		}
	case chan int:
		return "RChan"
	case map[string]interface{}:
		if _, ok := x["__root"]; ok {
			return "(RObj 0 \"root\")"
		}
	}
	return "(RStr \"<unprintable source>\")"
}

// ---- values resolvers return ----

func (t *xTrial) good(r *Rng, ty *xTy, depth int) interface{} {
	if ty.Kind == "nonnull" {
		return t.good(r, ty.Of, depth)
	}
	if ty.Kind == "list" {
		n := r.Intn(4)
		l := []interface{}{}
		for i := 0; i < n; i++ {
			if ty.Of.Kind != "nonnull" && r.Chance(10) {
				l = append(l, nil)
				continue
			}
			l = append(l, t.good(r, ty.Of, depth))
		}
		return l
	}
	switch ty.Name {
	case "Int":
		return []int{0, 1, -1, 7, 42, 2147483647, -2147483648}[r.Intn(7)]
	case "Odd":
		return []int{1, 3, -5}[r.Intn(3)]
	case "Float":
		if r.Bool() {
			return r.Intn(50)
		}
		return float64(r.Intn(40)) + 0.5
	case "String":
		return []string{"s", "hello", ""}[r.Intn(3)]
	case "Boolean":
		return r.Bool()
	case "ID":
		if r.Bool() {
			return r.Intn(500)
		}
		return "id" + fmt.Sprint(r.Intn(9))
	}
	td := t.s.typ(ty.Name)
	switch td.Kind {
	case "enum":
		return td.Vals[r.Intn(len(td.Vals))].Value
	case "object":
		t.nextID++
		return &xNode{ID: t.nextID, Type: ty.Name, t: t}
	case "interface", "union":
		ps := t.s.possible(ty.Name)
		t.nextID++
		if t.badRT && r.Chance(60) {
			// a type resolver that keeps answering with an object type outside the abstract type
			t.tags["non-possible-runtime-type"] = true
			return &xNode{ID: t.nextID, Type: "Q", t: t}
		}
		if len(ps) == 0 {
			return &xNode{ID: t.nextID, Type: "Q", t: t}
		}
		return &xNode{ID: t.nextID, Type: ps[r.Intn(len(ps))], t: t}
	}
	return nil
}

// a value of the wrong kind / out of range for the position; restricted to what the leaf
// serialisers' behaviour is modelled for (see Exec.serialize_scalar)
func (t *xTrial) adversarial(r *Rng, ty *xTy) interface{} {
	if ty.Kind == "nonnull" {
		if r.Chance(30) {
			return []interface{}{nil, xNilStr, math.NaN()}[r.Intn(3)]
		}
		return t.adversarial(r, ty.Of)
	}
	if ty.Kind == "list" {
		switch r.Intn(4) {
		case 0:
			return 5 // not iterable
		case 1:
			return "str"
		case 2:
			t.nextID++
			return &xNode{ID: t.nextID, Type: "O0", t: t}
		}
		// a list with one adversarial element
		l := []interface{}{t.good(r, ty.Of, 1), t.adversarial(r, ty.Of), t.good(r, ty.Of, 1), t.adversarial(r, ty.Of)}
		return l[:1+r.Intn(4)]
	}
	nullish := []interface{}{nil, xNilStr, math.NaN()}
	switch ty.Name {
	case "Int":
		return append(nullish, "x", 2147483648, -2147483649, 1.5, true, []interface{}{1}, xChan, 4, "NaN", "Inf", float32(2147483648), math.Inf(-1), 2147483648.0)[r.Intn(15)]
	case "Odd":
		return append(nullish, "x", 2147483648, -2147483649, 1.5, true, []interface{}{1}, xChan, 4)[r.Intn(10)]
	case "Float":
		// "NaN" parses as a float that is nullish only after serialisation
		return append(nullish, "x", true, []interface{}{1}, xChan, "NaN", "nan", "Inf", "-Inf", math.Inf(1), math.Inf(-1))[r.Intn(13)]
	case "Boolean":
		return append(nullish, "x", "", "false", 0, 3, 1.5, xChan, []interface{}{1})[r.Intn(11)]
	case "String", "ID":
		return append(nullish, 5, true)[r.Intn(5)]
	}
	td := t.s.typ(ty.Name)
	switch td.Kind {
	case "enum":
		return append(nullish, 99, "nope", true, 1.5, xChan)[r.Intn(8)]
	case "object":
		// any non-null value is accepted as the source of an object
		return append(nullish, 5, "src", []interface{}{1}, xChan)[r.Intn(7)]
	case "interface", "union":
		t.nextID++
		// a runtime type that is not a possible type weighs as much as the rest together
		return append(nullish, 5, "src", &xNode{ID: t.nextID, Type: "Nope", t: t}, &xNode{ID: t.nextID, Type: "Q", t: t}, &xNode{ID: t.nextID, Type: "Q", t: t}, &xNode{ID: t.nextID, Type: "M", t: t}, &xNode{ID: t.nextID, Type: "Q", t: t})[r.Intn(10)]
	}
	return nil
}

type xOutcome struct {
	kind  string // val err valerr panicerr panicstr panicother thunk
	v     interface{}
	inner *xOutcome
}

func (t *xTrial) outcomeCoq(o *xOutcome) string {
	switch o.kind {
	case "val":
		return "(OVal " + t.rvCoq(o.v) + ")"
	case "err":
		return "OErr"
	case "valerr":
		return "(OValErr " + t.rvCoq(o.v) + ")"
	case "panicerr":
		return "OPanicErr"
	case "panicstr":
		return "OPanicStr"
	case "panicother":
		return "OPanicOther"
	case "thunk":
		return "(OThunk " + t.outcomeCoq(o.inner) + ")"
	}
	return "OErr"
}

func (t *xTrial) pick(r *Rng, ty *xTy, allowThunk bool) *xOutcome {
	c := r.Intn(100)
	p := t.pol
	lim := p.Null
	if c < lim {
		return &xOutcome{kind: "val", v: nil}
	}
	lim += p.Err
	if c < lim {
		return &xOutcome{kind: "err"}
	}
	lim += p.ValErr
	if c < lim {
		return &xOutcome{kind: "valerr", v: t.good(r, ty, 1)}
	}
	lim += p.Panic
	if c < lim {
		return &xOutcome{kind: []string{"panicerr", "panicstr", "panicother"}[r.Intn(3)]}
	}
	lim += p.Thunk
	if c < lim {
		if allowThunk {
			return &xOutcome{kind: "thunk", inner: t.pick(r, ty, false)}
		}
		return &xOutcome{kind: "val", v: t.good(r, ty, 1)}
	}
	lim += p.Adversarial
	if c < lim {
		return &xOutcome{kind: "val", v: t.adversarial(r, ty)}
	}
	return &xOutcome{kind: "val", v: t.good(r, ty, 1)}
}

func (t *xTrial) realize(o *xOutcome, pathCoq string, isThunkForce bool) (interface{}, error) {
	switch o.kind {
	case "val":
		return o.v, nil
	case "err":
		return nil, errors.New("resolver error")
	case "valerr":
		return o.v, errors.New("resolver error with value")
	case "panicerr":
		panic(errors.New("resolver panic (error)"))
	case "panicstr":
		panic("resolver panic (string)")
	case "panicother":
		panic(42)
	case "thunk":
		inner := o.inner
		return func() (interface{}, error) {
			t.mu.Lock()
			t.log = append(t.log, pathCoq)
			t.mu.Unlock()
			return t.realize(inner, pathCoq, true)
		}, nil
	}
	return nil, nil
}

func (t *xTrial) resolve(p graphql.ResolveParams) (interface{}, error) {
	path := p.Info.Path.AsArray()
	ps := xPathStr(path)
	pc := xPathCoq(path)
	t.mu.Lock()
	if n := t.callPaths[ps]; n > 0 {
		t.fails = append(t.fails, "resolver invoked twice for path "+ps)
	}
	t.callPaths[ps]++
	nodes := []string{}
	for _, f := range p.Info.FieldASTs {
		if f != nil && f.Loc != nil {
			nodes = append(nodes, fmt.Sprint(f.Loc.Start))
		}
	}
	parent := ""
	if p.Info.ParentType != nil {
		parent = p.Info.ParentType.Name()
	}
	t.calls = append(t.calls, fmt.Sprintf("{| c_path := %s; c_parent := %s; c_field := %s; c_source := %s; c_args := %s; c_nodes := %s |}",
		pc, coqStr(parent), coqStr(p.Info.FieldName), t.rvCoq(p.Source), strings.TrimSuffix(strings.TrimPrefix(jvCoq(map[string]interface{}(p.Args)), "(JObj "), ")"), coqList(nodes)))
	t.log = append(t.log, pc)
	// parameters that need no model to judge (C20)
	pf := t.s.Pool[p.Info.FieldName]
	if pf == nil {
		t.fails = append(t.fails, "resolver called for unknown field "+p.Info.FieldName)
		t.mu.Unlock()
		return nil, nil
	}
	if p.Info.ReturnType == nil || p.Info.ReturnType.String() != pf.Type.String() {
		t.fails = append(t.fails, fmt.Sprintf("Info.ReturnType of %s is %v, declared %s", ps, p.Info.ReturnType, pf.Type))
	}
	if p.Context == nil || p.Context.Value(xCtxKey{}) != t.ctxTag {
		t.fails = append(t.fails, "caller's context did not reach the resolver at "+ps)
	}
	if rm, ok := p.Info.RootValue.(map[string]interface{}); !ok || rm["__root"] != t.root["__root"] {
		t.fails = append(t.fails, "Info.RootValue is not the request's root value at "+ps)
	}
	if p.Info.Operation == nil || p.Info.Fragments == nil {
		t.fails = append(t.fails, "Info.Operation / Info.Fragments missing at "+ps)
	}
	if p.Info.Schema.QueryType() == nil || p.Info.Schema.QueryType() != t.b.Schema.QueryType() {
		t.fails = append(t.fails, "Info.Schema is not the request's schema at "+ps)
	}
	vs := map[string]interface{}{}
	for k, v := range p.Info.VariableValues {
		if v != nil {
			vs[k] = v
		}
	}
	seen := strings.TrimSuffix(strings.TrimPrefix(jvCoq(vs), "(JObj "), ")")
	if t.varsSeen == "" {
		t.varsSeen = seen
	} else if t.varsSeen != seen {
		t.fails = append(t.fails, "Info.VariableValues differs between resolver calls")
	}
	h := fnv.New64a()
	h.Write([]byte(ps))
	r := NewRng(t.seed, h.Sum64())
	// thunks in non-null positions are drawn only in trials marked for them (known finding: they are
	// forced by the dethunk pass, where a failure nulls the whole response)
	o := t.pick(r, pf.Type, pf.Type.Kind != "nonnull" || t.nnThunks)
	if o.kind == "thunk" && pf.Type.Kind == "nonnull" {
		t.tags["nonnull-thunk"] = true
	}
	t.oracle = append(t.oracle, "("+pc+", "+t.outcomeCoq(o)+")")
	if o.kind == "thunk" {
		t.tags["thunk"] = true
	}
	if o.kind != "val" {
		t.tags["failing-outcome"] = true
	}
	t.mu.Unlock()
	// a resolver that mutates its argument map must not be observable by later calls
	for k := range p.Args {
		p.Args[k] = "mutated by resolver"
	}
	p.Args["zz_added"] = 1
	return t.realize(o, pc, false)
}

// isTypeOf accepts every value (so it never changes the response) and checks the parameters
// the property promises: the caller's context and the field's info
func (t *xTrial) isTypeOf(p graphql.IsTypeOfParams, object string) bool {
	t.mu.Lock()
	defer t.mu.Unlock()
	path := xPathStr(p.Info.Path.AsArray())
	if p.Context == nil || p.Context.Value(xCtxKey{}) != t.ctxTag {
		t.fails = append(t.fails, "caller's context did not reach IsTypeOf of "+object+" at "+path)
	}
	if p.Info.Operation == nil || p.Info.Fragments == nil || p.Info.FieldName == "" {
		t.fails = append(t.fails, "IsTypeOf of "+object+" received an incomplete info at "+path)
	}
	return true
}

func (t *xTrial) resolveType(p graphql.ResolveTypeParams, abstract string) *graphql.Object {
	t.mu.Lock()
	defer t.mu.Unlock()
	path := p.Info.Path.AsArray()
	t.tcalls = append(t.tcalls, "("+xPathCoq(path)+", "+t.rvCoq(p.Value)+")")
	if p.Context == nil || p.Context.Value(xCtxKey{}) != t.ctxTag {
		t.fails = append(t.fails, "caller's context did not reach ResolveType at "+xPathStr(path))
	}
	n, ok := p.Value.(*xNode)
	if !ok {
		return nil
	}
	if o, ok := t.b.Types[n.Type].(*graphql.Object); ok {
		h := fnv.New64a()
		h.Write([]byte(fmt.Sprint("rt", n.ID)))
		r := NewRng(t.seed, h.Sum64())
		if r.Chance(t.pol.BadType) {
			// adversarial type resolver: nil
			t.tover = append(t.tover, fmt.Sprintf("(%d, None)", n.ID))
			return nil
		}
		return o
	}
	t.tover = append(t.tover, fmt.Sprintf("(%d, None)", n.ID))
	return nil
}

func xPlanCoq(l *graphql.VerifPlanLevel) string {
	if l == nil {
		return "(PT false [])"
	}
	fs := []string{}
	for _, f := range l.Fields {
		ns := []string{}
		for _, n := range f.Nodes {
			ns = append(ns, fmt.Sprint(n))
		}
		sub := "None"
		if f.Sub != nil {
			sub = "(Some " + xPlanCoq(f.Sub) + ")"
		}
		fs = append(fs, "("+coqStr(f.Key)+", "+coqList(ns)+", "+sub+")")
	}
	return "(PT " + coqBool(l.Dynamic) + " " + coqList(fs) + ")"
}

// ---- observation ----

func xRespCoq(v interface{}) string {
	switch x := v.(type) {
	case nil:
		return "PNull"
	case map[string]interface{}:
		keys := make([]string, 0, len(x))
		for k := range x {
			keys = append(keys, k)
		}
		sort.Strings(keys)
		xs := []string{}
		for _, k := range keys {
			xs = append(xs, "("+coqStr(k)+", "+xRespCoq(x[k])+")")
		}
		return "(PObj " + coqList(xs) + ")"
	case []interface{}:
		xs := []string{}
		for _, e := range x {
			xs = append(xs, xRespCoq(e))
		}
		return "(PList " + coqList(xs) + ")"
	case bool, int, float64, string:
		return "(PLeaf " + jvCoq(x) + ")"
	}
	return fmt.Sprintf("(PLeaf (JStr \"<raw %T in response>\"))", v)
}

func xErrsCoq(errs []gqlerrors.FormattedError) (string, []string) {
	xs := []string{}
	var fails []string
	for _, e := range errs {
		nodes := []string{}
		for _, l := range e.Locations {
			if l.Line != 1 {
				fails = append(fails, fmt.Sprintf("error location on line %d of a one-line document", l.Line))
			}
			nodes = append(nodes, fmt.Sprint(l.Column-1))
		}
		xs = append(xs, "{| e_path := "+xPathCoq(e.Path)+"; e_nodes := "+coqList(nodes)+" |}")
	}
	return coqList(xs), fails
}

type xRequest struct {
	s      *xSchema
	doc    *xDoc
	text   string
	op     string
	inputs map[string]interface{}
	pol    xPolicy
	seed   uint64
	entry  string // do | execute | plan
	moreInputs []map[string]interface{} // further variable maps for executions of the same prepared plan
	kind   int    // projection judged by the runner
}

type xObserved struct {
	coq      string
	fails    []string
	tags     []string
	invalid  bool
	nCalls   int
	desc     map[string]interface{}
	mutation bool
}

// reset prepares the trial for another execution (of the same prepared plan): fresh logs, other
// resolver outcomes (they depend on the seed), another root value
func (t *xTrial) reset(seed uint64) {
	t.mu.Lock()
	defer t.mu.Unlock()
	t.seed = seed
	t.nextID = 0
	t.calls, t.oracle, t.tcalls, t.tover, t.log, t.fails = nil, nil, nil, nil, nil, nil
	t.callPaths = map[string]int{}
	t.varsSeen = ""
	t.root = map[string]interface{}{"__root": int(seed % 77)}
}

// xRun runs the request on the implementation.  For the entry point "plan" the plan is prepared once
// and executed once per element of rq.inputs followed by rq.moreInputs (plan reuse with other
// variables, roots and resolver outcomes); one observation per execution is returned.
func xRun(rq *xRequest) []*xObserved {
	t := &xTrial{s: rq.s, seed: rq.seed, pol: rq.pol, callPaths: map[string]int{}, tags: map[string]bool{}, ctxTag: int(rq.seed%1000) + 1,
		root: map[string]interface{}{"__root": int(rq.seed % 77)}, nnThunks: NewRng(rq.seed, 4242).Chance(10), viaFR: NewRng(rq.seed, 777).Chance(25), badRT: NewRng(rq.seed, 999).Chance(rq.pol.BadType)}
	if t.viaFR {
		// every object source must be a harness node then
		t.pol.Adversarial = 0
		t.pol.BadType = 0
		t.tags["default-resolve-fn"] = true
	}
	b, err := rq.s.build(&xHooks{Resolve: t.resolve, ResolveType: t.resolveType, IsTypeOf: t.isTypeOf, OmitResolve: t.viaFR})
	if err != nil {
		return []*xObserved{{fails: []string{"generated schema rejected: " + err.Error()}, invalid: true}}
	}
	t.b = b
	first := &xObserved{desc: map[string]interface{}{"query": rq.text, "operationName": rq.op, "variables": rq.inputs, "entry": rq.entry}}
	docAST, perr := parser.Parse(parser.ParseParams{Source: source.NewSource(&source.Source{Body: []byte(rq.text), Name: "q"})})
	if perr != nil {
		first.invalid = true
		first.desc["generator_error"] = "parse: " + perr.Error()
		return []*xObserved{first}
	}
	if vr := graphql.ValidateDocument(&b.Schema, docAST, nil); !vr.IsValid {
		first.invalid = true
		first.desc["generator_error"] = fmt.Sprint("validate: ", vr.Errors)
		return []*xObserved{first}
	}
	ctx := context.WithValue(context.Background(), xCtxKey{}, t.ctxTag)
	opn := "None"
	if rq.op != "" {
		opn = "(Some " + coqStr(rq.op) + ")"
	}
	// observe builds the observation of one execution from the trial's logs
	observe := func(obs *xObserved, res *graphql.Result, inputsMap map[string]interface{}, planCoq string) *xObserved {
		if res == nil {
			obs.fails = append(obs.fails, rq.entry+" returned nil")
			return obs
		}
		errsCoq, lfails := xErrsCoq(res.Errors)
		obs.fails = append(obs.fails, t.fails...)
		obs.fails = append(obs.fails, lfails...)
		data := "None"
		if res.Data != nil {
			data = "(Some " + xRespCoq(res.Data) + ")"
		}
		rejected := res.Data == nil && len(t.calls) == 0 && len(res.Errors) > 0
		seen := "None"
		if len(t.calls) > 0 {
			seen = "(Some " + t.varsSeen + ")"
		}
		inputs := strings.TrimSuffix(strings.TrimPrefix(jvCoq(inputsMap), "(JObj "), ")")
		obs.coq = fmt.Sprintf("{| x_kind := %d; x_schema := %s; x_doc := %s; x_op := %s; x_inputs := %s; x_root := (RObj 0 \"root\"); x_oracle := %s; x_toracle := %s; x_rejected := %s; x_data := %s; x_errs := %s; x_calls := %s; x_tcalls := %s; x_varsseen := %s; x_log := %s; x_plan := %s |}",
			rq.kind, rq.s.coq(), rq.doc.coq(), opn, inputs, coqList(t.oracle), coqList(t.tover), coqBool(rejected), data, errsCoq, coqList(t.calls), coqList(t.tcalls), seen, coqList(t.log), planCoq)
		obs.nCalls = len(t.calls)
		obs.desc["response"] = res
		obs.desc["resolver_outcomes"] = len(t.oracle)
		for k := range t.tags {
			obs.tags = append(obs.tags, k)
		}
		sort.Strings(obs.tags)
		return obs
	}
	var res *graphql.Result
	if rq.entry != "plan" {
		pm := guard(func() {
			switch rq.entry {
			case "do":
				res = graphql.Do(graphql.Params{Schema: b.Schema, RequestString: rq.text, OperationName: rq.op, VariableValues: rq.inputs, RootObject: t.root, Context: ctx})
			case "execute":
				res = graphql.Execute(graphql.ExecuteParams{Schema: b.Schema, AST: docAST, OperationName: rq.op, Args: rq.inputs, Root: t.root, Context: ctx})
			}
		})
		if pm != "" {
			first.fails = append(first.fails, rq.entry+": "+pm)
			return []*xObserved{first}
		}
		return []*xObserved{observe(first, res, rq.inputs, "None")}
	}
	// prepared plan, executed several times
	var plan *graphql.Plan
	var perr2 error
	if pm := guard(func() { plan, perr2 = graphql.PlanQuery(&b.Schema, docAST, rq.op) }); pm != "" {
		first.fails = append(first.fails, "PlanQuery: "+pm)
		return []*xObserved{first}
	}
	if perr2 != nil {
		return []*xObserved{observe(first, &graphql.Result{Errors: gqlerrors.FormatErrors(perr2)}, rq.inputs, "None")}
	}
	planCoq := "(Some " + xPlanCoq(graphql.VerifDumpPlan(plan, 12)) + ")"
	var out []*xObserved
	all := append([]map[string]interface{}{rq.inputs}, rq.moreInputs...)
	for i, in := range all {
		obs := first
		if i > 0 {
			t.reset(rq.seed + uint64(i)*7907)
			obs = &xObserved{desc: map[string]interface{}{"query": rq.text, "operationName": rq.op, "variables": in, "entry": fmt.Sprintf("plan (execution %d of the same prepared plan)", i+1)}}
			planCoq = "None"
		}
		in := in
		var r *graphql.Result
		if pm := guard(func() {
			r = graphql.ExecutePlan(plan, graphql.ExecuteParams{Schema: b.Schema, Args: in, Root: t.root, Context: ctx})
		}); pm != "" {
			obs.fails = append(obs.fails, "ExecutePlan: "+pm)
			out = append(out, obs)
			continue
		}
		o := observe(obs, r, in, planCoq)
		if i > 0 {
			o.tags = append(o.tags, "plan-reused")
		}
		out = append(out, o)
	}
	return out
}

var _ = ast.NewDocument
