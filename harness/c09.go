package main

// C09 -- no input makes a public entry point panic, hang or return a malformed result.
//
// The parent process only generates job descriptors and collects cases.  Every
// library call happens in a child process (this binary re-executed as property
// "C09CHILD" with the batch in $C09_BATCH), inside a goroutine with recover and
// a watchdog.  A Go fatal error (stack overflow, concurrent map write) kills the
// child; the parent then knows the job in flight (one flushed case per finished
// job), reports it as a failure with the child's last words, and restarts the
// child on the rest of the batch.

import (
	"bytes"
	"encoding/hex"
	"encoding/json"
	"fmt"
	"os"
	"os/exec"
	"runtime"
	"runtime/debug"
	"sort"
	"strings"
	"sync"
	"time"
)

func init() {
	props["C09"] = genC09
	props["C09CHILD"] = c09Child
}

type c09Job struct {
	Kind string `json:"kind"` // corpus | bytes | ast | values | model | cycle
	Idx  int    `json:"idx"`
	Seed uint64 `json:"seed"`
}

func c09Jobs(tier string, seed uint64, n int) []c09Job {
	if n == 0 {
		n = 4000
		if tier == "thorough" {
			n = 40000
		}
	}
	var jobs []c09Job
	for i := range c09Corpus() {
		jobs = append(jobs, c09Job{"corpus", i, seed})
	}
	nb, na, nm, nc, nv := n*40/100, n*30/100, n*2/100, n*4/100, n*12/100
	if tier == "thorough" {
		nm, nc = 800, 2000
	}
	// the model / cycle cases carry whole schemas and documents into Coq: spread them evenly
	// over the cheap ones so that every Coq shard gets its share
	light := make([]c09Job, 0, nb+na+nv)
	for i := 0; i < nb || i < na || i < nv; i++ {
		if i < nb {
			light = append(light, c09Job{"bytes", i, seed})
		}
		if i < na {
			light = append(light, c09Job{"ast", i, seed})
		}
		if i < nv {
			light = append(light, c09Job{"values", i, seed})
		}
	}
	heavy := make([]c09Job, 0, nm+nc)
	for i := 0; i < nm || i < nc; i++ {
		if i < nm {
			heavy = append(heavy, c09Job{"model", i, seed})
		}
		if i < nc {
			heavy = append(heavy, c09Job{"cycle", i, seed})
		}
	}
	step := 1
	if len(heavy) > 0 {
		step = len(light)/len(heavy) + 1
	}
	h := 0
	for i, j := range light {
		jobs = append(jobs, j)
		if i%step == step-1 && h < len(heavy) {
			jobs = append(jobs, heavy[h])
			h++
		}
	}
	jobs = append(jobs, heavy[h:]...)
	return jobs
}

func genC09(tier string, seed uint64, n int, e *Emitter) {
	jobs := c09Jobs(tier, seed, n)
	workers := 8
	if tier == "thorough" {
		workers = 16
	}
	if c := runtime.NumCPU(); workers > c {
		workers = c
	}
	if v := os.Getenv("C09_WORKERS"); v != "" {
		fmt.Sscan(v, &workers)
	}
	cases := c09RunJobs(jobs, workers)
	for _, c := range cases {
		e.Emit(c)
	}
}

// ---- parent: batches, children, crash attribution ----

func c09RunJobs(jobs []c09Job, workers int) []Case {
	out := make([]Case, len(jobs))
	const batch = 250
	type span struct{ lo, hi int }
	var spans []span
	for lo := 0; lo < len(jobs); {
		b := batch
		if jobs[lo].Kind == "corpus" {
			b = 12 // the corpus holds the expensive inputs: spread them over the workers
		}
		hi := lo + b
		if hi > len(jobs) {
			hi = len(jobs)
		}
		spans = append(spans, span{lo, hi})
		lo = hi
	}
	ch := make(chan span)
	var wg sync.WaitGroup
	for w := 0; w < workers; w++ {
		wg.Add(1)
		go func(w int) {
			defer wg.Done()
			for sp := range ch {
				c09RunSpan(jobs, out, sp.lo, sp.hi, w)
			}
		}(w)
	}
	for _, sp := range spans {
		ch <- sp
	}
	close(ch)
	wg.Wait()
	return out
}

func c09RunSpan(jobs []c09Job, out []Case, lo, hi, w int) {
	exe, err := os.Executable()
	if err != nil {
		exe = os.Args[0]
	}
	dir, _ := os.MkdirTemp("", "c09-")
	defer os.RemoveAll(dir)
	restarts := 0
	for lo < hi {
		bf := fmt.Sprintf("%s/batch-%d-%d.json", dir, lo, restarts)
		of := fmt.Sprintf("%s/out-%d-%d.jsonl", dir, lo, restarts)
		b, _ := json.Marshal(jobs[lo:hi])
		os.WriteFile(bf, b, 0o644)
		cmd := exec.Command(exe, "C09CHILD", "-out", of)
		cmd.Env = append(os.Environ(), "C09_BATCH="+bf)
		var stderr bytes.Buffer
		cmd.Stderr = &c09Tail{buf: &stderr, max: 1 << 16}
		cmd.Stdout = cmd.Stderr
		// whole-batch deadline: the child's own watchdogs fire long before
		timer := time.AfterFunc(time.Duration(hi-lo)*c09JobTimeout(1<<20)+time.Minute, func() { cmd.Process.Kill() })
		runErr := cmd.Run()
		timer.Stop()
		done := c09ReadCases(of)
		for k, c := range done {
			if lo+k < hi {
				out[lo+k] = c
			}
		}
		lo += len(done)
		if lo >= hi {
			break
		}
		if runErr == nil && len(done) == 0 {
			// the child exited normally without finishing: treat as machinery failure on this job
			out[lo] = c09DiedCase(jobs[lo], "child exited without a case for this job", stderr.String())
			lo++
		} else if runErr != nil {
			last := Case{}
			if len(done) > 0 {
				last = done[len(done)-1]
			}
			if strings.HasPrefix(last.Fail, "hang:") || strings.HasPrefix(last.Fail, "memory:") {
				// the child reported the job itself and left because it cannot kill the goroutine
			} else {
				out[lo] = c09DiedCase(jobs[lo], "child process died: "+runErr.Error(), stderr.String())
				lo++
			}
		}
		restarts++
	}
}

type c09Tail struct {
	buf *bytes.Buffer
	max int
}

// keep the first 64 KB: the fatal error line and the innermost frames come first
func (t *c09Tail) Write(p []byte) (int, error) {
	if room := t.max - t.buf.Len(); room > 0 {
		if len(p) < room {
			room = len(p)
		}
		t.buf.Write(p[:room])
	}
	return len(p), nil
}

func c09ReadCases(path string) []Case {
	b, err := os.ReadFile(path)
	if err != nil {
		return nil
	}
	var cs []Case
	for _, line := range bytes.Split(b, []byte("\n")) {
		if len(line) == 0 {
			continue
		}
		var c Case
		if json.Unmarshal(line, &c) != nil {
			break
		}
		c.Key = ""
		cs = append(cs, c)
	}
	return cs
}

func c09FirstLines(s string, n int) string {
	ls := strings.Split(s, "\n")
	var keep []string
	for _, l := range ls {
		if strings.TrimSpace(l) == "" {
			continue
		}
		keep = append(keep, l)
		if len(keep) >= n {
			break
		}
	}
	return strings.Join(keep, " | ")
}

func c09DiedCase(j c09Job, why, stderr string) Case {
	in := c09MakeInput(j)
	tags := append([]string{"child-died", "kind-" + j.Kind, "entry-" + in.Entry}, in.Tags...)
	if strings.Contains(stderr, "stack overflow") || strings.Contains(stderr, "goroutine stack exceeds") {
		tags = append(tags, "stack-overflow")
	}
	d := in.desc()
	d["child_stderr"] = c09FirstLines(stderr, 12)
	return Case{Group: "C09-" + j.Kind, Desc: d, NT: true, Tags: tags,
		Fail: fmt.Sprintf("fatal: %s: %s; entry %s; input (hex) %s", why, c09FirstLines(stderr, 3), in.Entry, in.hexInput())}
}

// ---- child ----

func c09JobTimeout(size int) time.Duration {
	// generous constant + c * size
	return 30*time.Second + time.Duration(size)*50*time.Microsecond
}

var (
	c09CurMu  sync.Mutex
	c09CurJob *c09Job
)

func c09Child(tier string, seed uint64, n int, e *Emitter) {
	debug.SetMaxStack(256 << 20)
	b, err := os.ReadFile(os.Getenv("C09_BATCH"))
	if err != nil {
		fmt.Fprintln(os.Stderr, "C09CHILD: no batch:", err)
		os.Exit(2)
	}
	var jobs []c09Job
	if err := json.Unmarshal(b, &jobs); err != nil {
		fmt.Fprintln(os.Stderr, "C09CHILD: bad batch:", err)
		os.Exit(2)
	}
	emit := func(c Case) {
		e.Emit(c)
		e.w.Flush()
	}
	// memory watchdog
	go func() {
		var ms runtime.MemStats
		for {
			time.Sleep(100 * time.Millisecond)
			runtime.ReadMemStats(&ms)
			if ms.HeapAlloc > 3<<30 {
				c09CurMu.Lock()
				j := c09CurJob
				if j != nil {
					in := c09MakeInput(*j)
					emit(Case{Group: "C09-" + j.Kind, Desc: in.desc(), NT: true, Tags: append([]string{"memory", "entry-" + in.Entry}, in.Tags...),
						Fail: fmt.Sprintf("memory: heap grew beyond 3 GB; entry %s; input (hex) %s", in.Entry, in.hexInput())})
				}
				os.Exit(4)
			}
		}
	}()
	for i := range jobs {
		j := jobs[i]
		c09CurMu.Lock()
		c09CurJob = &j
		c09CurMu.Unlock()
		in := c09MakeInput(j)
		done := make(chan Case, 1)
		t0 := time.Now()
		go func() {
			var c Case
			if pm := c09Guard(func() { c = c09RunInput(j, in) }); pm != "" {
				c = in.failCase(j, "harness-level "+pm)
			}
			done <- c
		}()
		select {
		case c := <-done:
			c09CurMu.Lock()
			c09CurJob = nil
			if ms := time.Since(t0).Milliseconds(); ms >= 500 {
				c.Tags = append(c.Tags, "slow")
				if d, ok := c.Desc.(map[string]interface{}); ok {
					d["ms"] = ms
				}
			}
			emit(c)
			if strings.HasPrefix(c.Fail, "hang:") {
				os.Exit(3)
			}
			c09CurMu.Unlock()
		case <-time.After(c09JobTimeout(len(in.Req)) * 3):
			c09CurMu.Lock()
			c := in.failCase(j, fmt.Sprintf("hang: job did not finish within %v", c09JobTimeout(len(in.Req))*3))
			c.Tags = append(c.Tags, "hang")
			emit(c)
			os.Exit(3)
		}
	}
}

// c09Guard: like guard, with the stack of the panic (first frames) for the report
func c09Guard(f func()) (panicked string) {
	defer func() {
		if r := recover(); r != nil {
			st := string(debug.Stack())
			// keep the frames below the panic
			if i := strings.Index(st, "panic("); i >= 0 {
				st = st[i:]
			}
			ls := strings.Split(st, "\n")
			var fr []string
			for _, l := range ls {
				l = strings.TrimSpace(l)
				if strings.HasPrefix(l, "/") && len(fr) < 4 {
					if k := strings.LastIndex(l, " +0x"); k > 0 {
						l = l[:k]
					}
					if k := strings.LastIndex(l, "/"); k >= 0 {
						l = l[k+1:]
					}
					fr = append(fr, l)
				}
			}
			panicked = fmt.Sprintf("panic: %v [%s]", r, strings.Join(fr, " < "))
		}
	}()
	f()
	return ""
}

// c09Timed runs f in its own goroutine under a watchdog; a hang is reported and the
// child leaves (the goroutine cannot be stopped).
func c09Timed(size int, f func()) (panicked string, hung bool) {
	done := make(chan string, 1)
	go func() { done <- c09Guard(f) }()
	select {
	case p := <-done:
		return p, false
	case <-time.After(c09JobTimeout(size)):
		return "", true
	}
}

// ---- inputs ----

type c09Input struct {
	Entry   string
	Schema  string // fixed | zero | gen
	Req     []byte
	Op      string
	Vars    map[string]interface{}
	RootNil bool
	NilCtx  bool
	NoPrint bool   // do not run printer.Print on the parsed document (its cost is not linear in the depth)
	MutSeed uint64 // structural mutation of the parsed document (ast kind)
	NMut    int
	Tags    []string
	Note    string
	run     func(in *c09Input) *c09Obs // corpus entries with their own driver
}

func (in *c09Input) hexInput() string {
	h := hex.EncodeToString(in.Req)
	if len(h) > 4000 {
		h = h[:4000] + fmt.Sprintf("...(%d bytes)", len(in.Req))
	}
	return h
}

func (in *c09Input) desc() map[string]interface{} {
	req := string(in.Req)
	if len(req) > 600 {
		req = req[:600] + fmt.Sprintf("...(%d bytes)", len(in.Req))
	}
	d := map[string]interface{}{"entry": in.Entry, "schema": in.Schema, "request": strings.ToValidUTF8(req, "�"), "request_hex": in.hexInput()}
	if in.Op != "" {
		d["operationName"] = in.Op
	}
	if in.Vars != nil {
		d["variables"] = fmt.Sprint(in.Vars)
	}
	if in.NMut > 0 {
		d["structural_mutations"] = fmt.Sprintf("%d (seed %d)", in.NMut, in.MutSeed)
	}
	if in.Note != "" {
		d["note"] = in.Note
	}
	return d
}

func (in *c09Input) failCase(j c09Job, fail string) Case {
	return Case{Group: "C09-" + j.Kind, Desc: in.desc(), NT: true, Tags: append([]string{"entry-" + in.Entry, "kind-" + j.Kind}, in.Tags...),
		Fail: fmt.Sprintf("%s; entry %s; input (hex) %s", fail, in.Entry, in.hexInput())}
}

func c09MakeInput(j c09Job) *c09Input {
	switch j.Kind {
	case "corpus":
		c := c09Corpus()
		if j.Idx < len(c) {
			in := c[j.Idx]
			in.Tags = append([]string{"corpus"}, in.Tags...)
			return &in
		}
	case "bytes":
		return c09BytesInput(NewRng(j.Seed^0x0909, uint64(j.Idx)))
	case "ast":
		return c09AstInput(NewRng(j.Seed^0x09a5, uint64(j.Idx)))
	case "values":
		return c09ValuesInput(j)
	case "model":
		return &c09Input{Entry: "model", Schema: "gen", Note: fmt.Sprintf("generated valid request %d over a generated schema", j.Idx)}
	case "cycle":
		_, doc, _, _, _ := c09CycleDoc(j)
		return &c09Input{Entry: "cycle", Schema: "gen", Req: []byte(doc.text()), Op: doc.Ops[0].Name,
			Note: fmt.Sprintf("generated request %d with injected fragment cycles, unvalidated, to PlanQuery / ValidateDocument / Execute", j.Idx)}
	}
	return &c09Input{Entry: "none"}
}

// ---- what was observed on one call, and its case ----

type c09Obs struct {
	fail        string // panic / hang / direct inconsistency
	parseFailed bool
	validFailed bool
	hasData     bool
	nErrs       int
	jsonOK      bool
	keysOK      bool
	shape       bool // a result shape was observed
	tags        []string
	extra       map[string]interface{}
	coq         string // overrides the shape term (model / cycle jobs)
	nt          bool
}

func c09RunInput(j c09Job, in *c09Input) Case {
	var o *c09Obs
	switch {
	case in.run != nil:
		o = in.run(in)
	case in.Entry == "model":
		o = c09ModelJob(j)
	case in.Entry == "cycle":
		o = c09CycleJob(j, in)
	case j.Kind == "values":
		o = c09ValuesJob(j, in)
	default:
		o = c09Call(in)
	}
	c := Case{Group: "C09-" + j.Kind, Desc: in.desc(), Tags: append([]string{"entry-" + in.Entry}, in.Tags...)}
	c.Tags = append(c.Tags, o.tags...)
	d := c.Desc.(map[string]interface{})
	for k, v := range o.extra {
		d[k] = v
	}
	if o.fail != "" {
		c.Fail = fmt.Sprintf("%s; entry %s; input (hex) %s", o.fail, in.Entry, in.hexInput())
		c.NT = true
		return c
	}
	if o.coq != "" {
		c.Coq = o.coq
		c.NT = o.nt
		return c
	}
	if o.shape {
		c.Coq = fmt.Sprintf("C9Shape %s %s %s %s %s %s", coqBool(o.parseFailed), coqBool(o.validFailed), coqBool(o.hasData), coqN(o.nErrs), coqBool(o.jsonOK), coqBool(o.keysOK))
		d["observed"] = fmt.Sprintf("parse_failed=%v validation_failed=%v data=%v errors=%d json=%v keys=%v", o.parseFailed, o.validFailed, o.hasData, o.nErrs, o.jsonOK, o.keysOK)
		// non-trivial: the input got past the lexer's first token, or is a malformed input of a known class
		c.NT = o.nt || j.Kind == "corpus" || !o.parseFailed || len(in.Req) > 8
		if o.parseFailed {
			c.Tags = append(c.Tags, "syntax-error")
		} else if o.validFailed {
			c.Tags = append(c.Tags, "validation-error")
		} else if o.hasData {
			c.Tags = append(c.Tags, "data")
		} else {
			c.Tags = append(c.Tags, "request-error")
		}
	}
	sort.Strings(c.Tags)
	return c
}
