package main

// C11 -- schema construction never yields an inconsistent type system.
//
// A configuration is plain data (c11Cfg); c11Build turns it into real
// graphql-go type objects (fresh ones for every run), c11Run calls
// graphql.NewSchema / Schema.AppendType and c11Observe projects the returned
// schema to its public view.  Configuration and observed view cross to Coq
// as Gallina terms of Run/C11run.v.

import (
	"fmt"
	"sort"
	"strings"

	"github.com/graphql-go/graphql"
)

func init() { props["C11"] = genC11 }

// ---------------------------------------------------------------- data

// type reference: K 0 = nil, 1 = named (ID), 2 = list, 3 = non-null
type c11Ref struct {
	K  int
	ID int
	Of *c11Ref
}

func c11Named(id int) c11Ref     { return c11Ref{K: 1, ID: id} }
func c11ListOf(r c11Ref) c11Ref  { return c11Ref{K: 2, Of: &r} }
func c11NonNull(r c11Ref) c11Ref { return c11Ref{K: 3, Of: &r} }
func c11NilRef() c11Ref          { return c11Ref{K: 0} }

type c11Arg struct {
	Name string
	Nil  bool // nil *ArgumentConfig
	T    c11Ref
	Desc string
	Def  *c10Val // default value (C10)
}
type c11Field struct {
	Name string
	Nil  bool // nil *Field
	T    c11Ref
	Args []c11Arg
	Desc string
	Dep  string // deprecation reason (C10)
}
type c11IField struct {
	Name string
	Nil  bool
	T    c11Ref
	Desc string
	Def  *c10Val
}
type c11EnumVal struct {
	Name string
	Nil  bool
	Desc string
	Dep  string
}

const (
	c11Scalar = iota
	c11Object
	c11Interface
	c11Union
	c11Enum
	c11Input
)

// how an interface{}-typed config slot (Interfaces, Types of a union) is filled
const (
	c11SlotNone  = iota // nil
	c11SlotList         // the slice
	c11SlotThunk        // a thunk returning the slice
	c11SlotBad          // a value of an unrelated Go type
)

type c11Def struct {
	ID      int
	Kind    int
	Name    string
	Desc    string
	Thunk   bool // fields (object, interface, input object) supplied as a thunk
	Fields  []c11Field
	IFields []c11IField
	Values  []c11EnumVal
	Slot    int   // object: Interfaces; union: Types
	Members []int // ids; -1 = nil pointer
	// callbacks present?
	Serialize, ParseValue, ParseLiteral bool
	ResolveType, IsTypeOf               bool
}

const (
	c11DirOk = iota
	c11DirNil
	c11DirErr
)

type c11Cfg struct {
	Defs                          []*c11Def
	Query, Mutation, Subscription int   // -1 = nil
	Types                         []int // -1 = nil
	Dirs                          []int
	XDirs                         []c10Dir // custom directives with arguments (C10)
	NoSpecDirs                    bool     // XDirs replace the specified directives instead of extending them
}

// ids of the library's own types
const (
	c11IDInt = 1 + iota
	c11IDFloat
	c11IDString
	c11IDBoolean
	c11IDID
)
const (
	c11IDSchema = 10 + iota
	c11IDType
	c11IDField
	c11IDInputValue
	c11IDEnumValue
	c11IDDirective
	c11IDTypeKind
	c11IDDirectiveLocation
)

func c11Builtins() map[int]graphql.Type {
	return map[int]graphql.Type{
		c11IDInt: graphql.Int, c11IDFloat: graphql.Float, c11IDString: graphql.String, c11IDBoolean: graphql.Boolean, c11IDID: graphql.ID,
		c11IDSchema: graphql.SchemaType, c11IDType: graphql.TypeType, c11IDField: graphql.FieldType, c11IDInputValue: graphql.InputValueType,
		c11IDEnumValue: graphql.EnumValueType, c11IDDirective: graphql.DirectiveType, c11IDTypeKind: graphql.TypeKindEnumType,
		c11IDDirectiveLocation: graphql.DirectiveLocationEnumType,
	}
}

func (c *c11Cfg) def(id int) *c11Def {
	for _, d := range c.Defs {
		if d.ID == id {
			return d
		}
	}
	return nil
}

func (c *c11Cfg) clone() *c11Cfg {
	n := &c11Cfg{Query: c.Query, Mutation: c.Mutation, Subscription: c.Subscription}
	n.Types = append([]int{}, c.Types...)
	n.Dirs = append([]int{}, c.Dirs...)
	n.XDirs = append([]c10Dir{}, c.XDirs...)
	n.NoSpecDirs = c.NoSpecDirs
	for _, d := range c.Defs {
		e := *d
		e.Fields = nil
		for _, f := range d.Fields {
			g := f
			g.Args = append([]c11Arg{}, f.Args...)
			e.Fields = append(e.Fields, g)
		}
		e.IFields = append([]c11IField{}, d.IFields...)
		e.Values = append([]c11EnumVal{}, d.Values...)
		e.Members = append([]int{}, d.Members...)
		n.Defs = append(n.Defs, &e)
	}
	return n
}

// ---------------------------------------------------------------- building real types

type c11World struct {
	cfg   *c11Cfg
	types map[int]graphql.Type // id -> named type (built lazily, memoised)
	ids   map[graphql.Type]int
	next  int
}

func c11NewWorld(cfg *c11Cfg) *c11World {
	w := &c11World{cfg: cfg, types: map[int]graphql.Type{}, ids: map[graphql.Type]int{}, next: 9000}
	for id, t := range c11Builtins() {
		w.types[id] = t
		w.ids[t] = id
	}
	// every definition is built, reachable or not, in id order; a reference to a
	// definition that does not exist yet is only possible from inside a thunk, so
	// forward references force the referring slot to be a thunk (see needsThunk).
	for _, d := range cfg.Defs {
		w.build(d)
	}
	return w
}

func (w *c11World) ref(r c11Ref) graphql.Type {
	switch r.K {
	case 1:
		t, ok := w.types[r.ID]
		if !ok {
			panic(fmt.Sprintf("c11: reference to unbuilt type %d", r.ID))
		}
		return t
	case 2:
		return graphql.NewList(w.ref(*r.Of))
	case 3:
		return graphql.NewNonNull(w.ref(*r.Of))
	}
	return nil
}

func c11RefIDs(r c11Ref, acc []int) []int {
	switch r.K {
	case 1:
		return append(acc, r.ID)
	case 2, 3:
		return c11RefIDs(*r.Of, acc)
	}
	return acc
}

func (w *c11World) built(ids []int) bool {
	for _, id := range ids {
		if id < 0 {
			continue
		}
		if _, ok := w.types[id]; !ok {
			return false
		}
	}
	return true
}

func (w *c11World) fields(d *c11Def) graphql.Fields {
	fs := graphql.Fields{}
	for _, f := range d.Fields {
		if f.Nil {
			fs[f.Name] = nil
			continue
		}
		fld := &graphql.Field{Type: w.ref(f.T), Description: f.Desc, DeprecationReason: f.Dep}
		if len(f.Args) > 0 {
			fld.Args = graphql.FieldConfigArgument{}
			for _, a := range f.Args {
				if a.Nil {
					fld.Args[a.Name] = nil
				} else {
					ac := &graphql.ArgumentConfig{Type: w.ref(a.T), Description: a.Desc}
					if a.Def != nil {
						ac.DefaultValue = a.Def.toGo()
					}
					fld.Args[a.Name] = ac
				}
			}
		}
		fs[f.Name] = fld
	}
	return fs
}

func (w *c11World) build(d *c11Def) {
	var t graphql.Type
	switch d.Kind {
	case c11Scalar:
		c := graphql.ScalarConfig{Name: d.Name, Description: d.Desc}
		if d.Serialize {
			c.Serialize = func(v interface{}) interface{} { return v }
		}
		if d.ParseValue {
			c.ParseValue = func(v interface{}) interface{} { return v }
		}
		if d.ParseLiteral {
			c.ParseLiteral = graphql.String.ParseLiteral
		}
		t = graphql.NewScalar(c)
	case c11Object, c11Interface:
		var ids []int
		for _, f := range d.Fields {
			ids = c11RefIDs(f.T, ids)
			for _, a := range f.Args {
				ids = c11RefIDs(a.T, ids)
			}
		}
		var fields interface{}
		if d.Thunk || !w.built(ids) {
			d.Thunk = true
			dd := d
			fields = graphql.FieldsThunk(func() graphql.Fields { return w.fields(dd) })
		} else {
			fields = w.fields(d)
		}
		if d.Kind == c11Interface {
			c := graphql.InterfaceConfig{Name: d.Name, Fields: fields, Description: d.Desc}
			if d.ResolveType {
				c.ResolveType = func(p graphql.ResolveTypeParams) *graphql.Object { return nil }
			}
			t = graphql.NewInterface(c)
		} else {
			c := graphql.ObjectConfig{Name: d.Name, Fields: fields, Description: d.Desc}
			if d.IsTypeOf {
				c.IsTypeOf = func(p graphql.IsTypeOfParams) bool { return true }
			}
			mk := func() []*graphql.Interface {
				l := []*graphql.Interface{}
				for _, id := range d.Members {
					if id < 0 {
						l = append(l, nil)
					} else {
						l = append(l, w.types[id].(*graphql.Interface))
					}
				}
				return l
			}
			slot := d.Slot
			if slot == c11SlotList && !w.built(d.Members) {
				slot = c11SlotThunk
				d.Slot = slot
			}
			switch slot {
			case c11SlotList:
				c.Interfaces = mk()
			case c11SlotThunk:
				c.Interfaces = graphql.InterfacesThunk(mk)
			case c11SlotBad:
				c.Interfaces = "not a list of interfaces"
			}
			t = graphql.NewObject(c)
		}
	case c11Union:
		c := graphql.UnionConfig{Name: d.Name, Description: d.Desc}
		if d.ResolveType {
			c.ResolveType = func(p graphql.ResolveTypeParams) *graphql.Object { return nil }
		}
		mk := func() []*graphql.Object {
			l := []*graphql.Object{}
			for _, id := range d.Members {
				if id < 0 {
					l = append(l, nil)
				} else {
					l = append(l, w.types[id].(*graphql.Object))
				}
			}
			return l
		}
		slot := d.Slot
		if slot == c11SlotList && !w.built(d.Members) {
			slot = c11SlotThunk
			d.Slot = slot
		}
		switch slot {
		case c11SlotList:
			c.Types = mk()
		case c11SlotThunk:
			c.Types = graphql.UnionTypesThunk(mk)
		case c11SlotBad:
			c.Types = 42
		}
		t = graphql.NewUnion(c)
	case c11Enum:
		vs := graphql.EnumValueConfigMap{}
		for i, v := range d.Values {
			if v.Nil {
				vs[v.Name] = nil
			} else {
				vs[v.Name] = &graphql.EnumValueConfig{Value: i + 1, Description: v.Desc, DeprecationReason: v.Dep}
			}
		}
		t = graphql.NewEnum(graphql.EnumConfig{Name: d.Name, Values: vs, Description: d.Desc})
	case c11Input:
		var ids []int
		for _, f := range d.IFields {
			ids = c11RefIDs(f.T, ids)
		}
		mk := func() graphql.InputObjectConfigFieldMap {
			m := graphql.InputObjectConfigFieldMap{}
			for _, f := range d.IFields {
				if f.Nil {
					m[f.Name] = nil
				} else {
					fc := &graphql.InputObjectFieldConfig{Type: w.ref(f.T), Description: f.Desc}
					if f.Def != nil {
						fc.DefaultValue = f.Def.toGo()
					}
					m[f.Name] = fc
				}
			}
			return m
		}
		var fields interface{}
		if d.Thunk || !w.built(ids) {
			d.Thunk = true
			fields = graphql.InputObjectConfigFieldMapThunk(mk)
		} else {
			fields = mk()
		}
		t = graphql.NewInputObject(graphql.InputObjectConfig{Name: d.Name, Fields: fields, Description: d.Desc})
	}
	w.types[d.ID] = t
	w.ids[t] = d.ID
}

func (w *c11World) object(id int) *graphql.Object {
	if id < 0 {
		return nil
	}
	return w.types[id].(*graphql.Object)
}

func (w *c11World) schemaConfig(extra []int) graphql.SchemaConfig {
	c := w.cfg
	sc := graphql.SchemaConfig{Query: w.object(c.Query), Mutation: w.object(c.Mutation), Subscription: w.object(c.Subscription)}
	for _, id := range append(append([]int{}, c.Types...), extra...) {
		if id < 0 {
			sc.Types = append(sc.Types, nil)
		} else {
			sc.Types = append(sc.Types, w.types[id])
		}
	}
	if len(c.XDirs) > 0 {
		if !c.NoSpecDirs {
			sc.Directives = append(sc.Directives, graphql.SpecifiedDirectives...)
		}
		for _, xd := range c.XDirs {
			sc.Directives = append(sc.Directives, w.directive(xd))
		}
	}
	for _, k := range c.Dirs {
		switch k {
		case c11DirOk:
			sc.Directives = append(sc.Directives, graphql.NewDirective(graphql.DirectiveConfig{Name: "custom", Locations: []string{graphql.DirectiveLocationField}}))
		case c11DirNil:
			sc.Directives = append(sc.Directives, nil)
		case c11DirErr:
			sc.Directives = append(sc.Directives, graphql.NewDirective(graphql.DirectiveConfig{Name: "no-locations"}))
		}
	}
	return sc
}

// ---------------------------------------------------------------- observing the public view

type c11VField struct {
	Name string
	T    c11Ref
	Args []c11Arg
}
type c11VType struct {
	Name    string
	ID      int
	Kind    int // c11Scalar.. ; 6 = a List/NonNull wrapper sitting in the type map
	Ifaces  []int
	Fields  []c11VField
	Members []int
	Values  []string
	IFields []c11IField
}
type c11View struct {
	Types                         []c11VType
	Poss                          [][]int // [abstract id, object ids (sorted)...]
	IsPoss                        [][]int
	Query, Mutation, Subscription int
}

func (w *c11World) idOf(t graphql.Type) int {
	if id, ok := w.ids[t]; ok {
		return id
	}
	w.next++
	w.ids[t] = w.next
	return w.next
}

func (w *c11World) refOf(t graphql.Type) c11Ref {
	switch t := t.(type) {
	case nil:
		return c11NilRef()
	case *graphql.List:
		return c11ListOf(w.refOf(t.OfType))
	case *graphql.NonNull:
		return c11NonNull(w.refOf(t.OfType))
	}
	return c11Named(w.idOf(t))
}

func (w *c11World) vfields(m graphql.FieldDefinitionMap) []c11VField {
	var out []c11VField
	for name, f := range m {
		vf := c11VField{Name: name, T: w.refOf(f.Type)}
		for _, a := range f.Args {
			vf.Args = append(vf.Args, c11Arg{Name: a.PrivateName, T: w.refOf(a.Type)})
		}
		sort.Slice(vf.Args, func(i, j int) bool { return vf.Args[i].Name < vf.Args[j].Name })
		out = append(out, vf)
	}
	sort.Slice(out, func(i, j int) bool { return out[i].Name < out[j].Name })
	return out
}

func (w *c11World) observe(s *graphql.Schema) *c11View {
	v := &c11View{Query: -1, Mutation: -1, Subscription: -1}
	if s.QueryType() != nil {
		v.Query = w.idOf(s.QueryType())
	}
	if s.MutationType() != nil {
		v.Mutation = w.idOf(s.MutationType())
	}
	if s.SubscriptionType() != nil {
		v.Subscription = w.idOf(s.SubscriptionType())
	}
	var names []string
	for n := range s.TypeMap() {
		names = append(names, n)
	}
	sort.Strings(names)
	var objects []*graphql.Object
	for _, n := range names {
		t := s.TypeMap()[n]
		vt := c11VType{Name: n, ID: w.idOf(t)}
		switch t := t.(type) {
		case *graphql.Scalar:
			vt.Kind = c11Scalar
		case *graphql.Object:
			vt.Kind = c11Object
			for _, i := range t.Interfaces() {
				vt.Ifaces = append(vt.Ifaces, w.idOf(i))
			}
			vt.Fields = w.vfields(t.Fields())
			objects = append(objects, t)
		case *graphql.Interface:
			vt.Kind = c11Interface
			vt.Fields = w.vfields(t.Fields())
		case *graphql.Union:
			vt.Kind = c11Union
			for _, m := range t.Types() {
				vt.Members = append(vt.Members, w.idOf(m))
			}
		case *graphql.Enum:
			vt.Kind = c11Enum
			for _, ev := range t.Values() {
				vt.Values = append(vt.Values, ev.Name)
			}
		case *graphql.InputObject:
			vt.Kind = c11Input
			for fname, f := range t.Fields() {
				vt.IFields = append(vt.IFields, c11IField{Name: fname, T: w.refOf(f.Type)})
			}
			sort.Slice(vt.IFields, func(i, j int) bool { return vt.IFields[i].Name < vt.IFields[j].Name })
		default:
			vt.Kind = 6
		}
		if t.Name() != n {
			// the key is not the type's own name: report the type under a name nobody can refer to
			vt.Kind = 6
		}
		v.Types = append(v.Types, vt)
	}
	for _, n := range names {
		t := s.TypeMap()[n]
		var abs graphql.Abstract
		switch t := t.(type) {
		case *graphql.Interface:
			abs = t
		case *graphql.Union:
			abs = t
		default:
			continue
		}
		row := []int{w.idOf(t)}
		var ids []int
		for _, o := range s.PossibleTypes(abs) {
			if o == nil {
				ids = append(ids, 0)
			} else {
				ids = append(ids, w.idOf(o))
			}
		}
		sort.Ints(ids)
		v.Poss = append(v.Poss, append(row, ids...))
		row2 := []int{w.idOf(t)}
		ids = nil
		for _, o := range objects {
			if s.IsPossibleType(abs, o) {
				ids = append(ids, w.idOf(o))
			}
		}
		sort.Ints(ids)
		v.IsPoss = append(v.IsPoss, append(row2, ids...))
	}
	return v
}

// ---------------------------------------------------------------- running

type c11Result struct {
	Err   string // non-empty: the library returned an error
	Panic string
	View  *c11View
}

// c11Run builds fresh types for cfg, constructs the schema with `upfront` added
// to SchemaConfig.Types and then appends `appended` one by one.
func c11Run(cfg *c11Cfg, upfront, appended []int) c11Result {
	var res c11Result
	res.Panic = guard(func() {
		w := c11NewWorld(cfg)
		s, err := graphql.NewSchema(w.schemaConfig(upfront))
		if err != nil {
			res.Err = err.Error()
			return
		}
		for _, id := range appended {
			var t graphql.Type
			if id >= 0 {
				t = w.types[id]
			}
			if err := s.AppendType(t); err != nil {
				res.Err = err.Error()
				return
			}
		}
		res.View = w.observe(&s)
	})
	return res
}

// ---------------------------------------------------------------- Gallina printing

// plain ASCII names cross as (s "name"), anything else as hex: shorter terms parse faster
func c11Name(str string) string {
	for _, c := range []byte(str) {
		if !(c >= 'a' && c <= 'z' || c >= 'A' && c <= 'Z' || c >= '0' && c <= '9' || c == '_' || c == ' ' || c == '-' || c == '~') {
			return "(h " + coqHex([]byte(str)) + ")"
		}
	}
	return "(s \"" + str + "\")"
}

func c11RefCoq(r c11Ref) string {
	switch r.K {
	case 1:
		return "(TNamed " + coqN(r.ID) + ")"
	case 2:
		return "(TList " + c11RefCoq(*r.Of) + ")"
	case 3:
		return "(TNonNull " + c11RefCoq(*r.Of) + ")"
	}
	return "TNil"
}

func c11OptID(id int) string {
	if id < 0 {
		return "None"
	}
	return "(Some " + coqN(id) + ")"
}

func c11IDs(ids []int) string {
	xs := make([]string, len(ids))
	for i, id := range ids {
		xs[i] = coqN(id)
	}
	return coqList(xs)
}

func c11OptIDs(ids []int) string {
	xs := make([]string, len(ids))
	for i, id := range ids {
		xs[i] = c11OptID(id)
	}
	return coqList(xs)
}

func c11TypesCoq(ids []int) string {
	xs := make([]string, len(ids))
	for i, id := range ids {
		if id < 0 {
			xs[i] = "TNil"
		} else {
			xs[i] = "TNamed " + coqN(id)
		}
	}
	return coqList(xs)
}

func c11SlotCoq(slot int, members []int) string {
	switch slot {
	case c11SlotNone:
		return "RNone"
	case c11SlotBad:
		return "RBad"
	}
	return "(RList " + c11OptIDs(members) + ")"
}

func c11FieldsCoq(fs []c11Field) string {
	sorted := append([]c11Field{}, fs...)
	sort.SliceStable(sorted, func(i, j int) bool { return sorted[i].Name < sorted[j].Name })
	xs := []string{}
	for _, f := range sorted {
		if f.Nil {
			xs = append(xs, "("+c11Name(f.Name)+", FieldNil)")
			continue
		}
		args := append([]c11Arg{}, f.Args...)
		sort.SliceStable(args, func(i, j int) bool { return args[i].Name < args[j].Name })
		as := []string{}
		for _, a := range args {
			if a.Nil {
				as = append(as, "("+c11Name(a.Name)+", ArgNil)")
			} else {
				as = append(as, "("+c11Name(a.Name)+", ArgOf "+c11RefCoq(a.T)+")")
			}
		}
		xs = append(xs, "("+c11Name(f.Name)+", FieldOf "+c11RefCoq(f.T)+" "+coqList(as)+")")
	}
	return coqList(xs)
}

func c11DefCoq(d *c11Def) string {
	var s string
	switch d.Kind {
	case c11Scalar:
		s = fmt.Sprintf("DScalar %s %s %s %s", c11Name(d.Name), coqBool(d.Serialize), coqBool(d.ParseValue), coqBool(d.ParseLiteral))
	case c11Object:
		s = fmt.Sprintf("DObject %s %s %s %s", c11Name(d.Name), c11SlotCoq(d.Slot, d.Members), c11FieldsCoq(d.Fields), coqBool(d.IsTypeOf))
	case c11Interface:
		s = fmt.Sprintf("DInterface %s %s %s", c11Name(d.Name), c11FieldsCoq(d.Fields), coqBool(d.ResolveType))
	case c11Union:
		s = fmt.Sprintf("DUnion %s %s %s", c11Name(d.Name), c11SlotCoq(d.Slot, d.Members), coqBool(d.ResolveType))
	case c11Enum:
		vs := append([]c11EnumVal{}, d.Values...)
		sort.SliceStable(vs, func(i, j int) bool { return vs[i].Name < vs[j].Name })
		xs := []string{}
		for _, v := range vs {
			xs = append(xs, "("+c11Name(v.Name)+", "+coqBool(!v.Nil)+")")
		}
		s = fmt.Sprintf("DEnum %s %s", c11Name(d.Name), coqList(xs))
	case c11Input:
		fs := append([]c11IField{}, d.IFields...)
		sort.SliceStable(fs, func(i, j int) bool { return fs[i].Name < fs[j].Name })
		xs := []string{}
		for _, f := range fs {
			if f.Nil {
				xs = append(xs, "("+c11Name(f.Name)+", IFieldNil)")
			} else {
				xs = append(xs, "("+c11Name(f.Name)+", IFieldOf "+c11RefCoq(f.T)+")")
			}
		}
		s = fmt.Sprintf("DInput %s %s", c11Name(d.Name), coqList(xs))
	}
	return "(" + coqN(d.ID) + ", " + s + ")"
}

func c11CfgCoq(c *c11Cfg) string {
	ds := []string{}
	for _, d := range c.Defs {
		ds = append(ds, c11DefCoq(d))
	}
	dirs := []string{}
	for _, k := range c.Dirs {
		dirs = append(dirs, []string{"DirOk", "DirNil", "DirErr"}[k])
	}
	return fmt.Sprintf("(Cfg %s %s %s %s %s %s)", coqList(ds), c11OptID(c.Query), c11OptID(c.Mutation), c11OptID(c.Subscription), c11TypesCoq(c.Types), coqList(dirs))
}

func c11VFieldsCoq(fs []c11VField) string {
	xs := []string{}
	for _, f := range fs {
		as := []string{}
		for _, a := range f.Args {
			as = append(as, "("+c11Name(a.Name)+", "+c11RefCoq(a.T)+")")
		}
		xs = append(xs, "(VF "+c11Name(f.Name)+" "+c11RefCoq(f.T)+" "+coqList(as)+")")
	}
	return coqList(xs)
}

func c11ViewCoq(v *c11View) string {
	ts := []string{}
	for _, t := range v.Types {
		var d string
		switch t.Kind {
		case c11Scalar:
			d = "VScalar"
		case c11Object:
			d = "(VObject " + c11IDs(t.Ifaces) + " " + c11VFieldsCoq(t.Fields) + ")"
		case c11Interface:
			d = "(VInterface " + c11VFieldsCoq(t.Fields) + ")"
		case c11Union:
			d = "(VUnion " + c11IDs(t.Members) + ")"
		case c11Enum:
			xs := []string{}
			for _, n := range t.Values {
				xs = append(xs, c11Name(n))
			}
			d = "(VEnum " + coqList(xs) + ")"
		case c11Input:
			xs := []string{}
			for _, f := range t.IFields {
				xs = append(xs, "("+c11Name(f.Name)+", "+c11RefCoq(f.T)+")")
			}
			d = "(VInput " + coqList(xs) + ")"
		default:
			d = "VWrapper"
		}
		ts = append(ts, "(VT "+c11Name(t.Name)+" "+coqN(t.ID)+" "+d+")")
	}
	rows := func(rs [][]int) string {
		xs := []string{}
		for _, r := range rs {
			xs = append(xs, "("+coqN(r[0])+", "+c11IDs(r[1:])+")")
		}
		return coqList(xs)
	}
	return fmt.Sprintf("(View %s %s %s %s %s %s)", coqList(ts), rows(v.Poss), rows(v.IsPoss), c11OptID(v.Query), c11OptID(v.Mutation), c11OptID(v.Subscription))
}

func c11ResCoq(r c11Result) string {
	if r.View == nil {
		return "IErr"
	}
	return "(IOk " + c11ViewCoq(r.View) + ")"
}

// ---------------------------------------------------------------- readable description

func c11RefStr(c *c11Cfg, r c11Ref) string {
	switch r.K {
	case 1:
		if d := c.def(r.ID); d != nil {
			return fmt.Sprintf("%s#%d", d.Name, r.ID)
		}
		if t, ok := c11Builtins()[r.ID]; ok {
			return t.Name()
		}
		return fmt.Sprintf("#%d", r.ID)
	case 2:
		return "[" + c11RefStr(c, *r.Of) + "]"
	case 3:
		return c11RefStr(c, *r.Of) + "!"
	}
	return "nil"
}

func c11Desc(c *c11Cfg) string {
	var sb strings.Builder
	idn := func(id int) string {
		if id < 0 {
			return "nil"
		}
		return c11RefStr(c, c11Named(id))
	}
	ids := func(l []int) string {
		xs := []string{}
		for _, id := range l {
			xs = append(xs, idn(id))
		}
		return strings.Join(xs, ",")
	}
	fmt.Fprintf(&sb, "schema{query:%s mutation:%s subscription:%s types:[%s] directives:%v}", idn(c.Query), idn(c.Mutation), idn(c.Subscription), ids(c.Types), c.Dirs)
	for _, d := range c.Defs {
		th := ""
		if d.Thunk {
			th = " (thunk)"
		}
		switch d.Kind {
		case c11Scalar:
			fmt.Fprintf(&sb, "; scalar %q#%d ser=%v pv=%v pl=%v", d.Name, d.ID, d.Serialize, d.ParseValue, d.ParseLiteral)
		case c11Object, c11Interface:
			k := "type"
			if d.Kind == c11Interface {
				k = "interface"
			}
			fmt.Fprintf(&sb, "; %s %q#%d", k, d.Name, d.ID)
			if d.Kind == c11Object {
				fmt.Fprintf(&sb, " implements(slot %d)[%s] isTypeOf=%v", d.Slot, ids(d.Members), d.IsTypeOf)
			} else {
				fmt.Fprintf(&sb, " resolveType=%v", d.ResolveType)
			}
			sb.WriteString(th + " {")
			for _, f := range d.Fields {
				if f.Nil {
					fmt.Fprintf(&sb, " %q:nil", f.Name)
					continue
				}
				fmt.Fprintf(&sb, " %q", f.Name)
				if len(f.Args) > 0 {
					sb.WriteString("(")
					for _, a := range f.Args {
						if a.Nil {
							fmt.Fprintf(&sb, "%q:nil ", a.Name)
						} else {
							fmt.Fprintf(&sb, "%q:%s ", a.Name, c11RefStr(c, a.T))
						}
					}
					sb.WriteString(")")
				}
				sb.WriteString(":" + c11RefStr(c, f.T))
			}
			sb.WriteString(" }")
		case c11Union:
			fmt.Fprintf(&sb, "; union %q#%d (slot %d) = [%s] resolveType=%v", d.Name, d.ID, d.Slot, ids(d.Members), d.ResolveType)
		case c11Enum:
			fmt.Fprintf(&sb, "; enum %q#%d {", d.Name, d.ID)
			for _, v := range d.Values {
				if v.Nil {
					fmt.Fprintf(&sb, " %q:nil", v.Name)
				} else {
					fmt.Fprintf(&sb, " %q", v.Name)
				}
			}
			sb.WriteString(" }")
		case c11Input:
			fmt.Fprintf(&sb, "; input %q#%d%s {", d.Name, d.ID, th)
			for _, f := range d.IFields {
				if f.Nil {
					fmt.Fprintf(&sb, " %q:nil", f.Name)
				} else {
					fmt.Fprintf(&sb, " %q:%s", f.Name, c11RefStr(c, f.T))
				}
			}
			sb.WriteString(" }")
		}
	}
	return sb.String()
}
