package main

// C07, static part: a go/types scan of the library that lists, for every function reachable from
// the request-time entry points, the writes to fields of the shared structures and how each write
// is protected: by a sync.Mutex whose Lock/Unlock brackets it (lexically, or held by every caller),
// by being an atomic operation, by happening on an object the function has just allocated, or by
// sitting in a lazy initialiser that construction (NewSchema, NewEnum, ...) also runs.  The result
// is compared with the access summary of Conc/Locks.v (mirrored in c07Summary below).

import (
	"fmt"
	"go/ast"
	"go/build"
	"go/importer"
	"go/parser"
	"go/token"
	"go/types"
	"path/filepath"
	"sort"
	"strings"
)

var c07Tracked = map[string]bool{"Schema": true, "Object": true, "Interface": true, "Union": true, "Enum": true,
	"InputObject": true, "Plan": true, "fieldPlan": true, "selectionPlan": true, "PlanCache": true}

var c07Entries = []string{"Do", "ExecutePlan", "PlanCache.Get", "PlanCache.Reset", "ValidateDocument"}
var c07Constructors = []string{"NewSchema", "NewObject", "NewInterface", "NewUnion", "NewEnum", "NewInputObject", "Schema.AddImplementation", "Schema.AppendType"}

type c07Site struct {
	Field string `json:"field"`
	Func  string `json:"func"`
	Pos   string `json:"pos"`
	Guard string `json:"guard"` // "Plan.planMu", "atomic", "construction", "fresh", or "" when the scan cannot classify the site
}

type c07ScanResult struct {
	Sites     []c07Site
	Reachable int
	Err       string
}

func c07FuncName(f *types.Func) string {
	sig := f.Type().(*types.Signature)
	if r := sig.Recv(); r != nil {
		t := r.Type()
		if p, ok := t.(*types.Pointer); ok {
			t = p.Elem()
		}
		if n, ok := t.(*types.Named); ok {
			return n.Obj().Name() + "." + f.Name()
		}
	}
	return f.Name()
}

func c07Scan(repo string) (res c07ScanResult) {
	defer func() {
		if r := recover(); r != nil {
			res.Err = fmt.Sprintf("scan panicked: %v", r)
		}
	}()
	ctx := build.Default
	ctx.BuildTags = append(ctx.BuildTags, "verif")
	bp, err := ctx.ImportDir(repo, 0)
	if err != nil {
		res.Err = "cannot list the package: " + err.Error()
		return
	}
	fset := token.NewFileSet()
	var files []*ast.File
	for _, name := range bp.GoFiles {
		f, err := parser.ParseFile(fset, filepath.Join(repo, name), nil, 0)
		if err != nil {
			res.Err = "parse: " + err.Error()
			return
		}
		files = append(files, f)
	}
	info := &types.Info{Uses: map[*ast.Ident]types.Object{}, Defs: map[*ast.Ident]types.Object{},
		Selections: map[*ast.SelectorExpr]*types.Selection{}, Types: map[ast.Expr]types.TypeAndValue{}}
	conf := types.Config{Importer: importer.ForCompiler(fset, "source", nil), Error: func(error) {}}
	pkg, _ := conf.Check(bp.ImportPath, fset, files, info)
	if pkg == nil {
		res.Err = "type check produced no package"
		return
	}

	// functions of the package
	decls := map[*types.Func]*ast.FuncDecl{}
	byName := map[string]*types.Func{}
	methodsByName := map[string][]*types.Func{}
	for _, f := range files {
		for _, d := range f.Decls {
			fd, ok := d.(*ast.FuncDecl)
			if !ok || fd.Body == nil {
				continue
			}
			obj, _ := info.Defs[fd.Name].(*types.Func)
			if obj == nil {
				continue
			}
			decls[obj] = fd
			byName[c07FuncName(obj)] = obj
			if fd.Recv != nil {
				methodsByName[obj.Name()] = append(methodsByName[obj.Name()], obj)
			}
		}
	}

	ownerOf := func(t types.Type) string {
		for {
			if p, ok := t.(*types.Pointer); ok {
				t = p.Elem()
				continue
			}
			break
		}
		if n, ok := t.(*types.Named); ok && n.Obj().Pkg() == pkg {
			return n.Obj().Name()
		}
		return ""
	}
	// "Owner.field" for a selector that denotes a field of a struct of this package
	fieldOf := func(e ast.Expr) (string, ast.Expr) {
		for {
			if p, ok := e.(*ast.ParenExpr); ok {
				e = p.X
				continue
			}
			break
		}
		s, ok := e.(*ast.SelectorExpr)
		if !ok {
			return "", nil
		}
		sel := info.Selections[s]
		if sel == nil || sel.Kind() != types.FieldVal {
			return "", nil
		}
		o := ownerOf(sel.Recv())
		if o == "" {
			return "", nil
		}
		return o + "." + s.Sel.Name, s.X
	}
	isMutex := func(t types.Type) bool {
		s := t.String()
		return s == "sync.Mutex" || s == "sync.RWMutex" || s == "*sync.Mutex" || s == "*sync.RWMutex"
	}

	// per function: references to other functions (call sites and function values) with their positions,
	// mutex regions, write sites
	type ref struct {
		callee *types.Func
		pos    token.Pos
	}
	type region struct {
		mu         string
		start, end token.Pos
	}
	refs := map[*types.Func][]ref{}
	regions := map[*types.Func][]region{}
	for fn, fd := range decls {
		type lockEv struct {
			mu       string
			pos      token.Pos
			lock     bool
			deferred bool
		}
		var evs []lockEv
		var walk func(n ast.Node, inDefer bool)
		walk = func(n ast.Node, inDefer bool) {
			ast.Inspect(n, func(x ast.Node) bool {
				switch v := x.(type) {
				case *ast.DeferStmt:
					walk(v.Call, true)
					return false
				case *ast.Ident:
					if o, ok := info.Uses[v].(*types.Func); ok && o.Pkg() == pkg {
						if _, has := decls[o]; has {
							refs[fn] = append(refs[fn], ref{o, v.Pos()})
						} else if sig, ok := o.Type().(*types.Signature); ok && sig.Recv() != nil {
							// a method of an interface type: every method of that name may be meant
							for _, m := range methodsByName[o.Name()] {
								refs[fn] = append(refs[fn], ref{m, v.Pos()})
							}
						}
					}
				case *ast.CallExpr:
					if s, ok := v.Fun.(*ast.SelectorExpr); ok && (s.Sel.Name == "Lock" || s.Sel.Name == "Unlock" || s.Sel.Name == "RLock" || s.Sel.Name == "RUnlock") {
						if tv, ok := info.Types[s.X]; ok && isMutex(tv.Type) {
							if name, _ := fieldOf(s.X); name != "" {
								evs = append(evs, lockEv{name, v.Pos(), strings.HasSuffix(s.Sel.Name, "Lock") && !strings.Contains(s.Sel.Name, "Unlock"), inDefer})
							}
						}
					}
				}
				return true
			})
		}
		walk(fd.Body, false)
		sort.Slice(evs, func(i, j int) bool { return evs[i].pos < evs[j].pos })
		for i, e := range evs {
			if !e.lock {
				continue
			}
			end := token.NoPos
			for _, u := range evs[i+1:] {
				if !u.lock && u.mu == e.mu && !u.deferred {
					end = u.pos
					break
				}
			}
			if end == token.NoPos {
				for _, u := range evs {
					if !u.lock && u.mu == e.mu && u.deferred {
						end = fd.End()
					}
				}
			}
			if end != token.NoPos {
				regions[fn] = append(regions[fn], region{e.mu, e.pos, end})
			}
		}
	}
	lexHeld := func(fn *types.Func, p token.Pos) map[string]bool {
		out := map[string]bool{}
		for _, r := range regions[fn] {
			if r.start < p && p < r.end {
				out[r.mu] = true
			}
		}
		return out
	}

	reach := func(roots []string) map[*types.Func]bool {
		seen := map[*types.Func]bool{}
		var stack []*types.Func
		for _, r := range roots {
			if f := byName[r]; f != nil {
				seen[f] = true
				stack = append(stack, f)
			}
		}
		for len(stack) > 0 {
			f := stack[len(stack)-1]
			stack = stack[:len(stack)-1]
			for _, r := range refs[f] {
				if !seen[r.callee] {
					seen[r.callee] = true
					stack = append(stack, r.callee)
				}
			}
		}
		return seen
	}
	reqReach := reach(c07Entries)
	conReach := reach(c07Constructors)
	res.Reachable = len(reqReach)

	// mutexes held on entry by every request-time caller (greatest fixpoint of the intersection)
	entrySet := map[*types.Func]bool{}
	for _, r := range c07Entries {
		if f := byName[r]; f != nil {
			entrySet[f] = true
		}
	}
	allMu := map[string]bool{}
	for _, rs := range regions {
		for _, r := range rs {
			allMu[r.mu] = true
		}
	}
	held := map[*types.Func]map[string]bool{}
	for f := range reqReach {
		held[f] = map[string]bool{}
		if !entrySet[f] {
			for m := range allMu {
				held[f][m] = true
			}
		}
	}
	for changed := true; changed; {
		changed = false
		for caller := range reqReach {
			for _, r := range refs[caller] {
				if !reqReach[r.callee] || entrySet[r.callee] {
					continue
				}
				at := lexHeld(caller, r.pos)
				for m := range held[caller] {
					at[m] = true
				}
				for m := range held[r.callee] {
					if !at[m] {
						delete(held[r.callee], m)
						changed = true
					}
				}
			}
		}
	}

	// write sites
	mutating := map[string]bool{"PushFront": true, "PushBack": true, "MoveToFront": true, "MoveToBack": true, "Remove": true, "Init": true,
		"InsertBefore": true, "InsertAfter": true, "MoveBefore": true, "MoveAfter": true, "PushBackList": true, "PushFrontList": true}
	atomicOps := map[string]bool{"Add": true, "Store": true, "Swap": true, "CompareAndSwap": true}
	for fn := range reqReach {
		fd := decls[fn]
		var recvObj types.Object
		if fd.Recv != nil && len(fd.Recv.List) > 0 && len(fd.Recv.List[0].Names) > 0 {
			recvObj = info.Defs[fd.Recv.List[0].Names[0]]
		}
		// locals initialised from a fresh allocation
		fresh := map[types.Object]bool{}
		isAlloc := func(e ast.Expr) bool {
			switch v := e.(type) {
			case *ast.CompositeLit:
				return true
			case *ast.UnaryExpr:
				_, ok := v.X.(*ast.CompositeLit)
				return v.Op == token.AND && ok
			case *ast.CallExpr:
				if id, ok := v.Fun.(*ast.Ident); ok && id.Name == "new" {
					return true
				}
			}
			return false
		}
		recvGuarded := false // the body tests a field of the receiver (initialised flag / nil check)
		ast.Inspect(fd.Body, func(x ast.Node) bool {
			switch v := x.(type) {
			case *ast.AssignStmt:
				if v.Tok == token.DEFINE && len(v.Lhs) == len(v.Rhs) {
					for i, l := range v.Lhs {
						if id, ok := l.(*ast.Ident); ok && isAlloc(v.Rhs[i]) {
							fresh[info.Defs[id]] = true
						}
					}
				}
			case *ast.IfStmt:
				ast.Inspect(v.Cond, func(y ast.Node) bool {
					if s, ok := y.(*ast.SelectorExpr); ok {
						if id, ok := s.X.(*ast.Ident); ok && recvObj != nil && info.Uses[id] == recvObj {
							recvGuarded = true
						}
					}
					return true
				})
			}
			return true
		})
		record := func(target ast.Expr, pos token.Pos, viaAtomic bool) {
			if ix, ok := target.(*ast.IndexExpr); ok {
				target = ix.X
			}
			name, base := fieldOf(target)
			if name == "" || !c07Tracked[strings.SplitN(name, ".", 2)[0]] {
				return
			}
			site := c07Site{Field: name, Func: c07FuncName(fn), Pos: fmt.Sprintf("%s:%d", filepath.Base(fset.Position(pos).Filename), fset.Position(pos).Line)}
			hs := lexHeld(fn, pos)
			for m := range held[fn] {
				hs[m] = true
			}
			var baseObj types.Object
			if id, ok := base.(*ast.Ident); ok {
				baseObj = info.Uses[id]
			}
			switch {
			case viaAtomic:
				site.Guard = "atomic"
			case len(hs) > 0:
				ms := []string{}
				for m := range hs {
					ms = append(ms, m)
				}
				sort.Strings(ms)
				site.Guard = strings.Join(ms, "+")
			case baseObj != nil && fresh[baseObj]:
				site.Guard = "fresh"
			case baseObj != nil && baseObj == recvObj && recvGuarded && conReach[fn]:
				site.Guard = "construction"
			case baseObj != nil && !conReach[fn]:
				site.Guard = "none" // a write to a shared object, no mutex around it, in code construction never runs
			}
			res.Sites = append(res.Sites, site)
		}
		ast.Inspect(fd.Body, func(x ast.Node) bool {
			switch v := x.(type) {
			case *ast.AssignStmt:
				for _, l := range v.Lhs {
					record(l, v.Pos(), false)
				}
			case *ast.IncDecStmt:
				record(v.X, v.Pos(), false)
			case *ast.CallExpr:
				if id, ok := v.Fun.(*ast.Ident); ok && id.Name == "delete" && len(v.Args) > 0 {
					record(v.Args[0], v.Pos(), false)
				}
				if s, ok := v.Fun.(*ast.SelectorExpr); ok {
					if tv, ok := info.Types[s.X]; ok {
						ts := tv.Type.String()
						if strings.Contains(ts, "container/list.List") && mutating[s.Sel.Name] {
							record(s.X, v.Pos(), false)
						}
						if strings.HasPrefix(strings.TrimPrefix(ts, "*"), "sync/atomic.") && atomicOps[s.Sel.Name] {
							record(s.X, v.Pos(), true)
						}
					}
				}
			}
			return true
		})
	}
	sort.Slice(res.Sites, func(i, j int) bool {
		if res.Sites[i].Field != res.Sites[j].Field {
			return res.Sites[i].Field < res.Sites[j].Field
		}
		return res.Sites[i].Pos < res.Sites[j].Pos
	})
	return
}

// ---- the summary, as in Conc/Locks.v (lib_guard): field -> location, guard ----

type c07SummaryEntry struct {
	Field string // "Owner.field", or "Owner.*" for every other field of Owner
	Loc   int
	Guard string // "" = written by construction only (read-only at request time), "atomic", or the mutex field
}

var c07Summary = []c07SummaryEntry{
	{"Enum.valuesLookup", 0, ""}, {"Enum.nameLookup", 1, ""},
	{"Schema.possibleTypeMap", 2, ""},
	{"Object.fields", 3, ""}, {"Object.initialisedFields", 3, ""}, {"Object.err", 3, ""},
	{"Object.interfaces", 4, ""}, {"Object.initialisedInterfaces", 4, ""},
	{"Interface.fields", 5, ""}, {"Interface.initialisedFields", 5, ""}, {"Interface.err", 5, ""},
	{"Union.types", 6, ""}, {"Union.initalizedTypes", 6, ""}, {"Union.err", 6, ""},
	{"InputObject.fields", 7, ""}, {"InputObject.init", 7, ""}, {"InputObject.err", 7, ""},
	{"fieldPlan.abstractAlternatives", 8, "Plan.abstractMu"},
	{"Plan.subPlans", 9, "Plan.planMu"}, {"selectionPlan.*", 9, "Plan.planMu"}, {"fieldPlan.*", 9, "Plan.planMu"},
	{"PlanCache.entries", 10, "PlanCache.mu"}, {"PlanCache.order", 11, "PlanCache.mu"},
	{"PlanCache.hits", 12, "atomic"}, {"PlanCache.misses", 13, "atomic"},
}

// mutex numbers of Conc/Locks.v
var c07MutexID = map[string]int{"Plan.abstractMu": 0, "Plan.planMu": 1, "PlanCache.mu": 2}

func c07SummaryFor(field string) *c07SummaryEntry {
	for i := range c07Summary {
		if c07Summary[i].Field == field {
			return &c07Summary[i]
		}
	}
	owner := strings.SplitN(field, ".", 2)[0]
	for i := range c07Summary {
		if c07Summary[i].Field == owner+".*" {
			return &c07Summary[i]
		}
	}
	return nil
}

// c07Compare returns the differences that fail the check and the sites the scan could not classify.
func c07Compare(r c07ScanResult) (diffs []string, unclassified []c07Site) {
	for _, s := range r.Sites {
		if s.Guard == "fresh" {
			continue
		}
		e := c07SummaryFor(s.Field)
		where := fmt.Sprintf("%s written in %s (%s)", s.Field, s.Func, s.Pos)
		if e == nil {
			if s.Guard == "" {
				unclassified = append(unclassified, s)
			} else {
				diffs = append(diffs, where+": the field is missing from the access summary (scan: guard "+s.Guard+")")
			}
			continue
		}
		switch {
		case e.Guard == "":
			switch s.Guard {
			case "construction":
			case "":
				unclassified = append(unclassified, s)
			case "none":
				diffs = append(diffs, where+": the summary has it written by construction only, but construction never runs this writer and no mutex guards it")
			default:
				diffs = append(diffs, where+": the summary has it written by construction only, the scan finds it written at request time under "+s.Guard)
			}
		case e.Guard == "atomic":
			if s.Guard != "atomic" {
				diffs = append(diffs, where+": the summary has an atomic counter, the scan finds guard '"+s.Guard+"'")
			}
		default:
			ok := false
			for _, m := range strings.Split(s.Guard, "+") {
				if m == e.Guard {
					ok = true
				}
			}
			if !ok {
				g := s.Guard
				if g == "" || g == "none" {
					g = "no mutex"
				}
				diffs = append(diffs, where+": the summary has it guarded by "+e.Guard+", the scan finds "+g)
			}
		}
	}
	return
}

// the harness' copy of the table as a Gallina term for Run.C07run.SummaryCase
func c07SummaryTerm() string {
	seen := map[int]bool{}
	var items []string
	for _, e := range c07Summary {
		if seen[e.Loc] {
			continue
		}
		seen[e.Loc] = true
		code := 0
		switch e.Guard {
		case "":
		case "atomic":
			code = e.Loc - 12 + 3 + 1 // hits -> mutex 3, misses -> mutex 4
		default:
			code = c07MutexID[e.Guard] + 1
		}
		items = append(items, fmt.Sprintf("(%d, %d)", e.Loc, code))
	}
	return "SummaryCase " + coqList(items)
}
