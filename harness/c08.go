package main

// C08: printing an AST and parsing the text back yields the same AST.
// The law is checked directly on the implementation: parse -> print -> parse, ASTs compared
// modulo locations (Run/C08run.v), second print = first print, AST unchanged by Print.

import (
	"fmt"
	"os"
	"strings"
	"unicode/utf8"

	"github.com/graphql-go/graphql/language/ast"
	"github.com/graphql-go/graphql/language/parser"
	"github.com/graphql-go/graphql/language/printer"
	"github.com/graphql-go/graphql/language/source"
	"github.com/graphql-go/graphql/language/visitor"
)

func init() { props["C08"] = genC08 }

func c08Parse(src []byte) (*ast.Document, bool) {
	var doc *ast.Document
	var err error
	pm := guard(func() {
		doc, err = parser.Parse(parser.ParseParams{Source: &source.Source{Body: append([]byte(nil), src...), Name: "c08"}})
	})
	if pm != "" || err != nil || doc == nil {
		return nil, false
	}
	return doc, true
}

func c08Print(n ast.Node) (string, string) {
	var out string
	pm := guard(func() {
		if s, ok := printer.Print(n).(string); ok {
			out = s
		} else {
			panic("printer.Print did not return a string")
		}
	})
	return out, pm
}

// one round trip of a source the parser accepts
func c08RoundTrip(e *Emitter, group string, src []byte, tags []string) {
	doc, ok := c08Parse(src)
	if !ok {
		return // not in the property's domain
	}
	c03DescrEmptyAsNone = true
	defer func() { c03DescrEmptyAsNone = false }()
	before := c03Doc(doc)
	printed, pm := c08Print(doc)
	c := Case{Group: group, NT: true, Tags: c03Tags(src, tags)}
	desc := map[string]interface{}{"source": c03Show(src), "printed": c03Show([]byte(printed))}
	c.Desc = desc
	if pm != "" {
		c.Fail = "printer.Print: " + pm
		e.Emit(c)
		return
	}
	after := c03Doc(doc)
	unchanged := before == after
	re, ok2 := c08Parse([]byte(printed))
	stable := true
	reterm := ""
	if ok2 {
		reterm = c03Doc(re)
		p2, pm2 := c08Print(re)
		if pm2 != "" {
			c.Fail = "printer.Print (second): " + pm2
			e.Emit(c)
			return
		}
		stable = p2 == printed
		if !stable {
			desc["second_print"] = c03Show([]byte(p2))
		}
	} else {
		desc["reparse"] = "syntax error"
	}
	if !utf8.Valid(src) {
		// since fixes/C08-invalid-utf8-bytes.patch the law is judged on these sources too: bytes that do not
		// decode survive inside strings and descriptions (and are dropped with comments / ignored positions)
		c.Tags = append(c.Tags, "invalid-utf8")
	}
	c.Coq = fmt.Sprintf("RoundTrip %s %s %s %s %s %s", coqHex(src), before, coqHex([]byte(printed)), coqOpt(reterm, ok2), coqBool(stable), coqBool(unchanged))
	e.Emit(c)
}

// visitor.Visit with a leave function for Name nodes: returning a string must leave the AST alone
// (the printer's reducers do exactly that); returning a node is written into the parent struct
// (updateNodeField) -- the branch the model of Syntax/PrintVisit.v exhibits.
func c08VisitEdit(e *Emitter) {
	run := func(node bool) (bool, string) {
		doc, ok := c08Parse([]byte("{ a }"))
		if !ok {
			return false, "cannot parse { a }"
		}
		before := c03Doc(doc)
		pm := guard(func() {
			visitor.Visit(doc, &visitor.VisitorOptions{LeaveKindMap: map[string]visitor.VisitFunc{
				"Name": func(p visitor.VisitFuncParams) (string, interface{}) {
					if node {
						return visitor.ActionUpdate, ast.NewName(&ast.Name{Value: "zz"})
					}
					return visitor.ActionUpdate, "zz"
				},
			}}, nil)
		})
		return before != c03Doc(doc), pm
	}
	sc, pm1 := run(false)
	nc, pm2 := run(true)
	c := Case{Group: "visit-edit", NT: true, Tags: []string{"visit-edit"}, Desc: map[string]interface{}{"source": "{ a }", "string_result_changed_ast": sc, "node_result_changed_ast": nc}}
	if pm1 != "" || pm2 != "" {
		c.Fail = "visitor.Visit: " + pm1 + pm2
	} else {
		c.Coq = fmt.Sprintf("VisitEdit %s %s", coqBool(sc), coqBool(nc))
	}
	e.Emit(c)
}

// a GraphQL string literal denoting s (valid UTF-8), written with \uXXXX for everything special
func c08Literal(s string) string {
	var b strings.Builder
	b.WriteByte('"')
	for _, r := range s {
		if r == '"' || r == '\\' || r < 0x20 || r == 0x7f || (r >= 0x80 && r < 0x10000 && (r < 0xA0 || r == 0x2028 || r == 0xFEFF || r == 0xFFFF)) {
			fmt.Fprintf(&b, "\\u%04x", r)
		} else {
			b.WriteRune(r)
		}
	}
	b.WriteByte('"')
	return b.String()
}

var c08StrAlphabet = []string{"a", "b", " ", "  ", "\"", "\"\"", "\"\"\"", "\\", "/", "\n", "\n", "\r", "\t", "\b", "\f", "\x00", "\x01", "\x07", "\x0b", "\x1b", "\x1f", "\x7f", "\u0080", "\u009f", "\u00e9", "\u2028", "\uffff", "\ufeff", "\U0001F600", "\U0010FFFF", "\\n", "\\u0041", "#", ",", "{", "$x"}

func c08RandString(r *Rng, max int) string {
	var sb strings.Builder
	for j, k := 0, r.Intn(max); j < k; j++ {
		sb.WriteString(r.Pick(c08StrAlphabet))
	}
	return sb.String()
}

// descriptions that the printer may print as block strings: lines of words with indentation, tabs,
// quotes and backslashes inside, blank lines, multi-byte characters; now and then something that forces
// the quoted form (triple quote, trailing quote or backslash, blank first/last line, common indentation, CR)
var c08DescWords = []string{"a", "b c", "x\"y", "p\\q", "é", "\U0001F600", "#", "w,", "\"\"", "{}", "\u2028"}
var c08DescSpoil = []string{"\"\"\"", "\"", "\\", "\r", "\ufeff", "\x07", "\f"}

func c08RandDesc(r *Rng) string {
	var sb strings.Builder
	lines := 1 + r.Intn(4)
	if r.Chance(40) {
		lines = 1
	}
	for i := 0; i < lines; i++ {
		if i > 0 {
			sb.WriteString("\n")
			if r.Chance(15) {
				continue // blank line
			}
			sb.WriteString(r.Pick([]string{"", "", " ", "  ", "    ", "\t", " \t"}))
		} else if r.Chance(8) {
			sb.WriteString(r.Pick([]string{" ", "\t", "\n"}))
		}
		for j, k := 0, 1+r.Intn(3); j < k; j++ {
			if j > 0 {
				sb.WriteString(r.Pick([]string{" ", "  ", "\t"}))
			}
			sb.WriteString(r.Pick(c08DescWords))
		}
		if r.Chance(6) {
			sb.WriteString(r.Pick(c08DescSpoil))
		}
		if i == lines-1 && r.Chance(8) {
			sb.WriteString(r.Pick([]string{" ", "\n", "\n  "}))
		}
	}
	return sb.String()
}

// a type-system document in which every description position is filled from c08RandDesc (or left out)
func c08RandSDL(r *Rng) string {
	d := func() string {
		switch r.Intn(5) {
		case 0:
			return ""
		case 1:
			return c08Literal(c08RandString(r, 5)) + " "
		default:
			return c08Literal(c08RandDesc(r)) + " "
		}
	}
	dirs := func() string { return r.Pick([]string{"", "", " @d", " @d(x: 1) @e(s: \"v\")"}) }
	args := func() string {
		switch r.Intn(4) {
		case 0:
			return ""
		case 1:
			return "(x: Int)"
		case 2:
			return "(" + d() + "x: Int = 1" + dirs() + ", " + d() + "y: [S!]! = [\"k\"])"
		default:
			return "(" + d() + "x: Int " + d() + "y: S" + dirs() + " z: T)"
		}
	}
	field := func() string { return d() + "f" + args() + ": [T]!" + dirs() + " " }
	switch r.Intn(8) {
	case 0:
		return d() + "type T" + r.Pick([]string{"", " implements A", " implements & A & B", " implements A & B & C"}) + dirs() + " { " + field() + field() + "}"
	case 1:
		return d() + "interface I" + dirs() + " { " + field() + "}"
	case 2:
		return d() + "enum E" + dirs() + " { " + d() + "A" + dirs() + " " + d() + "B }"
	case 3:
		return d() + "input I" + dirs() + " { " + d() + "a: Int = 1" + dirs() + " " + d() + "b: S }"
	case 4:
		return d() + "directive @d" + args() + " on A | B"
	case 5:
		return "extend " + d() + "type T" + dirs() + " { " + field() + "}"
	case 6:
		return d() + "union U" + dirs() + " = A | B " + d() + "scalar S" + dirs()
	default:
		return "schema" + dirs() + " { query: Q mutation: M } " + d() + "scalar S"
	}
}

func genC08(tier string, seed uint64, n int, e *Emitter) {
	if n == 0 {
		n = 250
		if tier == "thorough" {
			n = 6000
		}
	}
	// (a) corpus: the defects repaired by 0b37274 / 19a7c38, the mutants' witnesses, kitchen-sink files
	for _, s := range []string{
		`{ a(x: "\u0007") }`, `{ a(x: "\u007f") }`, `{ a(x: "\u0000\u001f") }`, `{ a(x: "\uffff\ufeff\u2028") }`, "{ a(x: \"\U0010FFFF\U0001F600\") }",
		`"""a""" type T { a: Int }`, `"has \"\"\" inside" type T { a: Int }`, `"ends with quote\"" type T { a: Int }`, `"\nblank first line" type T { a: Int }`,
		`"  indented\n  all lines" type T { a: Int }`, `"a\n  b" type T { "x\n y" a("q\n\n  r" x: Int): Int }`, `"" type T { a: Int }`, `"trailing backslash\\" scalar S`, `"a\rb" scalar S`,
		`"\tTab" enum E { "v\n  w" A "" B }`, `"d" input I { "e" a: Int = 1 @x "f\ng" b: [I!]! }`, `"d" directive @d("a\nb" x: Int) on A | B`, `"d" union U = A | B`, `"d" interface I { a: Int }`, `extend "d\ne" type T { a: Int }`,
		`{ a(x: 1e0, y: 2.5e0, z: -0.0, w: 1E+3) }`, `type T implements A & B & C { a: Int }`, `{ ...F @d(x: 1) ... on T @e { a } ... @f { b } }`,
		`query Q($a: [Int!]! = [1, 2] , $b: S = {k: "v", l: [true, null_]}) @d { a: b(x: $a, y: ENUM) @e { c } }`, `subscription { a }`, `mutation M { a }`, `{ a }`, `query { a }`, `query @d { a }`, `query ($a: Int) { a }`,
		`schema @d { query: Q mutation: M }`, `type T {}`, `enum E {}`, `input I {}`, `interface I {}`, `type T @d {}`, `{ a(x: []) b(y: {}) c(z: [[]]) d(w: {e: {}}) }`, `{ a(x: """block\n  string""") }`, "{ a(x: \"\"\"\n  multi\n    line\n  \"\"\") }",
		`fragment F on T @d { a }`, `directive @d on A`, `scalar S @d(x: "y")`, `union U @d = A`, `enum E @d { A @e B }`,
		// block-string descriptions at every nesting depth, next to quoted ones; the one-per-line argument layout
		`"a\n b\nc" type T { "f\n  g\nh" a("q\n\tr\ns" x: Int, "quoted\"" y: Int, z: Int): Int "one line" b(x: Int, "plain" y: Int): Int }`,
		`"a\n b" type T { a: Int }`, `"a\n\nb" scalar S`, `"a\n \nb" scalar S`, `"tab\there" scalar S`, `" lead" scalar S`, `"trail " scalar S`, `"a\n" scalar S`, `"\ta\nb" scalar S`,
		`"x\\y\"z" scalar S`, `"\\\"\"\"" scalar S`, `"é\n😀" enum E { "é\n 😀\nz" A }`, `extend "d\ne" type T implements & A & B @x { "f\ng" a("h\ni" x: Int = 1 @y): Int }`,
		`"d\ne" directive @d("a\nb" x: Int = 1, y: S) on A | B | C`, `"d" input I { "a\nb" a: Int = 1 @x b: S = {k: [1, "s"]} }`, `type T implements & A { a: Int }`, `schema @a @b(x: 1) { query: Q mutation: M subscription: S }`,
		// bytes that are not valid UTF-8 inside string values and descriptions (quoted and block form), next to U+FFFD itself
		"{ a(x: \"\xff\") }", "{ a(x: \"\xc3\\\"\", y: \"\xe2\x82\", z: \"\xf0\x9f\x98 \ufffd\xed\xa0\x80\") }", "\"d\xc3\" scalar S", "\"d\xff\\\"\" scalar S", "query($v: S = {k: [\"\x80\xbf\"]}) @d(x: \"a\xfe\\nb\") { a #\xff\n }",
		"\"\xc3\\n \xa9\\nz\" type T { \"\xe9\" a(\"x\xff\\ny\" b: Int): Int }",
		`"""block\n  string""" type T { """  indented\n  block""" a: Int }`, "\"\"\"\n  a\n    b\n  c\n\"\"\" scalar S",
	} {
		c08RoundTrip(e, "corpus", []byte(s), []string{"corpus"})
	}
	repo := os.Getenv("VERIF_REPO")
	if repo == "" {
		repo = "/repo"
	}
	for _, f := range []string{"kitchen-sink.graphql", "schema-kitchen-sink.graphql", "schema-all-descriptions.graphql"} {
		if b, err := os.ReadFile(repo + "/" + f); err == nil {
			c08RoundTrip(e, "corpus", b, []string{"corpus", "kitchen-sink"})
		}
	}
	c08VisitEdit(e)
	// (b) string values: every single character of the stress alphabet, then random strings
	for _, a := range c08StrAlphabet {
		c08RoundTrip(e, "string", []byte("{ a(x: "+c08Literal(a)+") }"), []string{"string"})
	}
	for i := 0; i < n; i++ {
		r := NewRng(seed^0xc08, uint64(i))
		s := c08RandString(r, 8)
		switch r.Intn(4) {
		case 0:
			c08RoundTrip(e, "string", []byte("{ a(x: "+c08Literal(s)+") }"), []string{"string"})
		case 1:
			c08RoundTrip(e, "string", []byte("query($v: S = {k: ["+c08Literal(s)+"]}) @d(x: "+c08Literal(c08RandString(r, 4))+") { a }"), []string{"string"})
		case 2:
			c08RoundTrip(e, "description", []byte(c08Literal(s)+" type T { "+c08Literal(c08RandString(r, 6))+" a("+c08Literal(c08RandString(r, 5))+" x: Int = "+c08Literal(c08RandString(r, 3))+"): Int }"), []string{"description"})
		default:
			kinds := []string{"scalar S", "enum E { " + c08Literal(c08RandString(r, 5)) + " A }", "input I { " + c08Literal(c08RandString(r, 5)) + " a: Int }", "interface I { a: Int }", "union U = A", "directive @d(" + c08Literal(c08RandString(r, 5)) + " x: Int) on A"}
			c08RoundTrip(e, "description", []byte(c08Literal(s)+" "+r.Pick(kinds)), []string{"description"})
		}
	}
	// (b') type-system documents whose descriptions exercise the block-string / quoted-string decision
	for i := 0; i < n; i++ {
		r := NewRng(seed^0x5d1, uint64(i))
		src := c08RandSDL(r)
		for j, k := 0, r.Intn(3); j < k; j++ {
			src += " " + c08RandSDL(r)
		}
		c08RoundTrip(e, "sdl-description", []byte(src), []string{"sdl-description"})
	}
	// (c) grammar-generated documents (the C03 generator), laid out with random separators
	for i := 0; i < n; i++ {
		r := NewRng(seed, uint64(i))
		toks, sdl := c03GenDoc(r)
		kind := "exec"
		if sdl {
			kind = "sdl"
		}
		c08RoundTrip(e, "generated", c03Render(r, toks, r.Chance(20)), []string{kind})
	}
}
