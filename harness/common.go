package main

import (
	"bufio"
	"crypto/sha256"
	"encoding/hex"
	"encoding/json"
	"fmt"
	"os"
	"strings"
)

// ---- one PRNG (splitmix64); every random choice of a case derives from (seed, case index) ----

type Rng struct{ s uint64 }

func NewRng(seed uint64, idx uint64) *Rng {
	r := &Rng{s: seed*0x9E3779B97F4A7C15 + idx*0xBF58476D1CE4E5B9 + 0x94D049BB133111EB}
	r.Next()
	return r
}
func (r *Rng) Next() uint64 {
	r.s += 0x9E3779B97F4A7C15
	z := r.s
	z = (z ^ (z >> 30)) * 0xBF58476D1CE4E5B9
	z = (z ^ (z >> 27)) * 0x94D049BB133111EB
	return z ^ (z >> 31)
}
func (r *Rng) Intn(n int) int {
	if n <= 0 {
		return 0
	}
	return int(r.Next() % uint64(n))
}
func (r *Rng) Bool() bool         { return r.Next()&1 == 1 }
func (r *Rng) Chance(p int) bool  { return r.Intn(100) < p }
func (r *Rng) Pick(xs []string) string { return xs[r.Intn(len(xs))] }

// ---- case emission ----

type Case struct {
	ID    int         `json:"id"`
	Coq   string      `json:"coq"`             // Gallina term of the property's case type ("" when the case is judged on the Go side only)
	Desc  interface{} `json:"desc"`            // human-readable input, for evidence samples and replays
	NT    bool        `json:"nt"`              // non-trivial by the property's rule
	Key   string      `json:"key"`             // hash for distinctness
	Tags  []string    `json:"tags,omitempty"`  // features of the input (known-finding signatures, distribution histogram)
	Fail  string      `json:"fail,omitempty"`  // a failure observed directly on the implementation (panic, hang, race, non-determinism)
	Group string      `json:"group,omitempty"` // sub-check the case belongs to
}

type Emitter struct {
	w *bufio.Writer
	f *os.File
	n int
}

func NewEmitter(path string) *Emitter {
	f, err := os.Create(path)
	if err != nil {
		fmt.Fprintln(os.Stderr, "cannot create", path, err)
		os.Exit(2)
	}
	return &Emitter{w: bufio.NewWriterSize(f, 1<<20), f: f}
}
func (e *Emitter) Emit(c Case) {
	c.ID = e.n
	e.n++
	if c.Key == "" {
		h := sha256.Sum256([]byte(c.Group + "\x00" + c.Coq + fmt.Sprint(c.Desc)))
		c.Key = hex.EncodeToString(h[:8])
	}
	b, err := json.Marshal(c)
	if err != nil {
		// the description holds something json cannot encode (typically a response that still
		// contains a func or a channel): keep the case, describe it textually, and report it
		c.Desc = fmt.Sprintf("%v", c.Desc)
		if c.Fail == "" {
			c.Fail = "observed value is not JSON-serialisable: " + err.Error()
		}
		b, err = json.Marshal(c)
		if err != nil {
			fmt.Fprintln(os.Stderr, "marshal:", err)
			os.Exit(2)
		}
	}
	e.w.Write(b)
	e.w.WriteByte('\n')
}
func (e *Emitter) Close() { e.w.Flush(); e.f.Close() }

// ---- Gallina term printing ----

func coqHex(b []byte) string { return "\"" + hex.EncodeToString(b) + "\"" }
func coqN(n int) string {
	if n < 0 {
		return "0"
	}
	return fmt.Sprintf("%d", n)
}
func coqZ(n int) string { return fmt.Sprintf("(%d)%%Z", n) }
func coqBool(b bool) string {
	if b {
		return "true"
	}
	return "false"
}
func coqList(xs []string) string { return "[" + strings.Join(xs, "; ") + "]" }
func coqOpt(s string, ok bool) string {
	if !ok {
		return "None"
	}
	return "(Some " + s + ")"
}

// guard runs f and returns a description of the panic it raised, if any.
func guard(f func()) (panicked string) {
	defer func() {
		if r := recover(); r != nil {
			panicked = fmt.Sprintf("panic: %v", r)
		}
	}()
	f()
	return ""
}
