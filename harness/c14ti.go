package main

// C14, type tracking: visitor.VisitWithTypeInfo + graphql.TypeInfo against the model and the
// top-down spec of coq/theories/Visitor/TypeInfo.v.  A fixed schema (objects, interface,
// union, enum, recursive input object, lists and non-nulls, a custom directive) is dumped
// as finite tables; generated executable documents use its vocabulary plus unknown names.
// The instrumented sub-visitor reads Type / ParentType / InputType / FieldDef / Directive /
// Argument from the TypeInfo inside every callback.

import (
	"fmt"
	"reflect"
	"sort"
	"strings"

	"github.com/graphql-go/graphql"
	"github.com/graphql-go/graphql/language/ast"
	"github.com/graphql-go/graphql/language/visitor"
)

type c14TiEnv struct {
	schema  graphql.Schema
	names   map[string]int
	coqSch  string
	typeSet map[string]bool
}

func (t *c14TiEnv) code(s string) int {
	if c, ok := t.names[s]; ok {
		return c
	}
	c := len(t.names) + 1 // 0 is reserved
	t.names[s] = c
	return c
}

func c14TiBuild() *c14TiEnv {
	env := &c14TiEnv{names: map[string]int{}, typeSet: map[string]bool{}}
	var in *graphql.InputObject
	in = graphql.NewInputObject(graphql.InputObjectConfig{Name: "In", Fields: graphql.InputObjectConfigFieldMapThunk(func() graphql.InputObjectConfigFieldMap {
		return graphql.InputObjectConfigFieldMap{
			"x":   &graphql.InputObjectFieldConfig{Type: graphql.Int},
			"y":   &graphql.InputObjectFieldConfig{Type: graphql.NewList(graphql.NewNonNull(graphql.Int))},
			"sub": &graphql.InputObjectFieldConfig{Type: in},
			"l":   &graphql.InputObjectFieldConfig{Type: graphql.NewNonNull(graphql.NewList(in))},
		}
	})})
	enum := graphql.NewEnum(graphql.EnumConfig{Name: "E", Values: graphql.EnumValueConfigMap{"RED": &graphql.EnumValueConfig{Value: 0}, "GREEN": &graphql.EnumValueConfig{Value: 1}}})
	aArgs := graphql.FieldConfigArgument{"x": &graphql.ArgumentConfig{Type: graphql.Int}, "in": &graphql.ArgumentConfig{Type: in}}
	iface := graphql.NewInterface(graphql.InterfaceConfig{Name: "I", Fields: graphql.Fields{
		"a": &graphql.Field{Type: graphql.String, Args: aArgs},
	}, ResolveType: func(p graphql.ResolveTypeParams) *graphql.Object { return nil }})
	var tT, tU *graphql.Object
	var un *graphql.Union
	tT = graphql.NewObject(graphql.ObjectConfig{Name: "T", Interfaces: []*graphql.Interface{iface}, Fields: graphql.FieldsThunk(func() graphql.Fields {
		return graphql.Fields{
			"a":  &graphql.Field{Type: graphql.String, Args: aArgs},
			"b":  &graphql.Field{Type: graphql.NewNonNull(graphql.NewList(graphql.NewNonNull(tT)))},
			"o":  &graphql.Field{Type: tU},
			"i":  &graphql.Field{Type: iface},
			"un": &graphql.Field{Type: un},
		}
	})})
	tU = graphql.NewObject(graphql.ObjectConfig{Name: "U", Fields: graphql.FieldsThunk(func() graphql.Fields {
		return graphql.Fields{
			"c": &graphql.Field{Type: graphql.Int, Args: graphql.FieldConfigArgument{"list": &graphql.ArgumentConfig{Type: graphql.NewList(graphql.NewList(graphql.Int))}, "e": &graphql.ArgumentConfig{Type: enum}}},
			"t": &graphql.Field{Type: tT},
		}
	})})
	un = graphql.NewUnion(graphql.UnionConfig{Name: "UN", Types: []*graphql.Object{tT, tU}, ResolveType: func(p graphql.ResolveTypeParams) *graphql.Object { return nil }})
	q := graphql.NewObject(graphql.ObjectConfig{Name: "Query", Fields: graphql.Fields{
		"t":  &graphql.Field{Type: tT},
		"u":  &graphql.Field{Type: tU},
		"i":  &graphql.Field{Type: iface},
		"un": &graphql.Field{Type: un},
		"f": &graphql.Field{Type: graphql.String, Args: graphql.FieldConfigArgument{
			"in": &graphql.ArgumentConfig{Type: in}, "list": &graphql.ArgumentConfig{Type: graphql.NewList(graphql.NewNonNull(in))}, "e": &graphql.ArgumentConfig{Type: enum}}},
	}})
	m := graphql.NewObject(graphql.ObjectConfig{Name: "Mutation", Fields: graphql.Fields{
		"m": &graphql.Field{Type: tT, Args: graphql.FieldConfigArgument{"x": &graphql.ArgumentConfig{Type: graphql.Int}}},
	}})
	s := graphql.NewObject(graphql.ObjectConfig{Name: "Subscription", Fields: graphql.Fields{
		"s": &graphql.Field{Type: tU},
	}})
	d := graphql.NewDirective(graphql.DirectiveConfig{Name: "d", Locations: []string{graphql.DirectiveLocationField, graphql.DirectiveLocationQuery, graphql.DirectiveLocationFragmentSpread, graphql.DirectiveLocationInlineFragment, graphql.DirectiveLocationFragmentDefinition},
		Args: graphql.FieldConfigArgument{"in": &graphql.ArgumentConfig{Type: in}, "x": &graphql.ArgumentConfig{Type: graphql.NewList(graphql.Int)}}})
	sch, err := graphql.NewSchema(graphql.SchemaConfig{Query: q, Mutation: m, Subscription: s,
		Directives: append([]*graphql.Directive{d}, graphql.SpecifiedDirectives...)})
	if err != nil {
		panic(err)
	}
	env.schema = sch
	env.coqSch = env.dump()
	return env
}

// structural Gallina term of a type, "None" for nil (also a typed nil inside the interface)
func (t *c14TiEnv) tyTerm(x interface{}) (string, bool) {
	if x == nil {
		return "", false
	}
	v := reflect.ValueOf(x)
	if v.Kind() == reflect.Ptr && v.IsNil() {
		return "", false
	}
	switch y := x.(type) {
	case *graphql.List:
		in, ok := t.tyTerm(y.OfType)
		if !ok {
			return "(TList (TNamed 0))", true
		}
		return "(TList " + in + ")", true
	case *graphql.NonNull:
		in, ok := t.tyTerm(y.OfType)
		if !ok {
			return "(TNonNull (TNamed 0))", true
		}
		return "(TNonNull " + in + ")", true
	case graphql.Type:
		return fmt.Sprintf("(TNamed %d)", t.code(y.Name())), true
	}
	return "(TNamed 0)", true
}
func (t *c14TiEnv) tyOpt(x interface{}) string {
	s, ok := t.tyTerm(x)
	return coqOpt(s, ok)
}

func (t *c14TiEnv) argsTerm(args []*graphql.Argument) string {
	var xs []string
	for _, a := range args {
		ty, _ := t.tyTerm(a.Type)
		xs = append(xs, fmt.Sprintf("(%d, %s)", t.code(a.Name()), ty))
	}
	return coqList(xs)
}
func (t *c14TiEnv) fieldTerm(f *graphql.FieldDefinition) string {
	ty, _ := t.tyTerm(f.Type)
	return fmt.Sprintf("(mkTfield %d %s %s)", t.code(f.Name), ty, t.argsTerm(f.Args))
}

func (t *c14TiEnv) dump() string {
	tm := t.schema.TypeMap()
	var names []string
	for n := range tm {
		names = append(names, n)
	}
	sort.Strings(names)
	var defs []string
	for _, n := range names {
		t.typeSet[n] = true
		kind := "KScalar"
		var fields []string
		switch x := tm[n].(type) {
		case *graphql.Object:
			kind = "KObject"
			fm := x.Fields()
			var fn []string
			for k := range fm {
				fn = append(fn, k)
			}
			sort.Strings(fn)
			for _, k := range fn {
				fields = append(fields, t.fieldTerm(fm[k]))
			}
		case *graphql.Interface:
			kind = "KInterface"
			fm := x.Fields()
			var fn []string
			for k := range fm {
				fn = append(fn, k)
			}
			sort.Strings(fn)
			for _, k := range fn {
				fields = append(fields, t.fieldTerm(fm[k]))
			}
		case *graphql.Union:
			kind = "KUnion"
		case *graphql.Enum:
			kind = "KEnum"
		case *graphql.InputObject:
			kind = "KInput"
			fm := x.Fields()
			var fn []string
			for k := range fm {
				fn = append(fn, k)
			}
			sort.Strings(fn)
			for _, k := range fn {
				ty, _ := t.tyTerm(fm[k].Type)
				fields = append(fields, fmt.Sprintf("(mkTfield %d %s [])", t.code(k), ty))
			}
		}
		defs = append(defs, fmt.Sprintf("mkTdef %d %s %s", t.code(n), kind, coqList(fields)))
	}
	root := func(o *graphql.Object) string {
		if o == nil {
			return "None"
		}
		return fmt.Sprintf("(Some %d)", t.code(o.Name()))
	}
	var dirs []string
	for _, d := range t.schema.Directives() {
		dirs = append(dirs, fmt.Sprintf("(%d, %s)", t.code(d.Name), t.argsTerm(d.Args)))
	}
	return fmt.Sprintf("(mkTschema %s %s %s %s %s %s %s %s)", coqList(defs), root(t.schema.QueryType()), root(t.schema.MutationType()), root(t.schema.SubscriptionType()),
		coqList(dirs), t.fieldTerm(graphql.SchemaMetaFieldDef), t.fieldTerm(graphql.TypeMetaFieldDef), t.fieldTerm(graphql.TypeNameMetaFieldDef))
}

// written type of a variable definition as a structural term; ok=false when it refers to an
// unknown type below a wrapper (not modelled)
func (t *c14TiEnv) astType(x ast.Type, depth int) (string, bool) {
	switch y := x.(type) {
	case *ast.List:
		in, ok := t.astType(y.Type, depth+1)
		return "(TList " + in + ")", ok
	case *ast.NonNull:
		in, ok := t.astType(y.Type, depth+1)
		return "(TNonNull " + in + ")", ok
	case *ast.Named:
		n := ""
		if y.Name != nil {
			n = y.Name.Value
		}
		return fmt.Sprintf("(TNamed %d)", t.code(n)), depth == 0 || t.typeSet[n]
	}
	return "(TNamed 0)", false
}

func (t *c14TiEnv) attrs(tr *c14Tree) (string, bool) {
	var xs []string
	ok := true
	nm := func(n *ast.Name) string {
		if n == nil {
			return fmt.Sprintf("(Some %d)", t.code(""))
		}
		return fmt.Sprintf("(Some %d)", t.code(n.Value))
	}
	for id, n := range tr.nodes {
		switch x := n.(type) {
		case *ast.Field:
			xs = append(xs, fmt.Sprintf("(%d, mkNattr %s 3 None)", id, nm(x.Name)))
		case *ast.Directive:
			xs = append(xs, fmt.Sprintf("(%d, mkNattr %s 3 None)", id, nm(x.Name)))
		case *ast.Argument:
			xs = append(xs, fmt.Sprintf("(%d, mkNattr %s 3 None)", id, nm(x.Name)))
		case *ast.ObjectField:
			xs = append(xs, fmt.Sprintf("(%d, mkNattr %s 3 None)", id, nm(x.Name)))
		case *ast.OperationDefinition:
			op := 3
			switch x.Operation {
			case ast.OperationTypeQuery:
				op = 0
			case ast.OperationTypeMutation:
				op = 1
			case ast.OperationTypeSubscription:
				op = 2
			}
			xs = append(xs, fmt.Sprintf("(%d, mkNattr None %d None)", id, op))
		case *ast.InlineFragment:
			if x.TypeCondition != nil {
				xs = append(xs, fmt.Sprintf("(%d, mkNattr %s 3 None)", id, nm(x.TypeCondition.Name)))
			}
		case *ast.FragmentDefinition:
			if x.TypeCondition != nil {
				xs = append(xs, fmt.Sprintf("(%d, mkNattr %s 3 None)", id, nm(x.TypeCondition.Name)))
			}
		case *ast.VariableDefinition:
			ty, k := t.astType(x.Type, 0)
			if !k {
				ok = false
			}
			xs = append(xs, fmt.Sprintf("(%d, mkNattr None 3 (Some %s))", id, ty))
		}
	}
	return coqList(xs), ok
}

// ---- documents over the schema's vocabulary ----

type c14TiGen struct {
	r     *Rng
	depth int
}

func (g *c14TiGen) fname() string {
	return g.r.Pick([]string{"t", "u", "i", "un", "f", "a", "b", "o", "c", "m", "s", "zz", "__typename", "__schema", "__type", "a", "t", "o"})
}
func (g *c14TiGen) aname() string {
	return g.r.Pick([]string{"x", "in", "list", "e", "name", "zz", "if", "in", "list"})
}
func (g *c14TiGen) value(d int) string {
	k := g.r.Intn(8)
	if d > 2 {
		k = g.r.Intn(4)
	}
	switch k {
	case 0:
		return fmt.Sprint(g.r.Intn(9))
	case 1:
		return "$" + g.r.Pick([]string{"v", "w"})
	case 2:
		return g.r.Pick([]string{"RED", "true", "\"s\""})
	case 3, 4:
		n := g.r.Intn(3)
		var xs []string
		for i := 0; i < n; i++ {
			xs = append(xs, g.value(d+1))
		}
		return "[" + strings.Join(xs, ", ") + "]"
	default:
		n := 1 + g.r.Intn(3)
		var xs []string
		for i := 0; i < n; i++ {
			xs = append(xs, g.r.Pick([]string{"x", "y", "sub", "l", "zz"})+": "+g.value(d+1))
		}
		return "{" + strings.Join(xs, ", ") + "}"
	}
}
func (g *c14TiGen) args() string {
	if !g.r.Chance(45) {
		return ""
	}
	n := 1 + g.r.Intn(2)
	var xs []string
	for i := 0; i < n; i++ {
		xs = append(xs, g.aname()+": "+g.value(0))
	}
	return "(" + strings.Join(xs, ", ") + ")"
}
func (g *c14TiGen) dirs() string {
	if !g.r.Chance(30) {
		return ""
	}
	s := ""
	for i := 0; i < 1+g.r.Intn(2); i++ {
		s += " @" + g.r.Pick([]string{"include", "skip", "d", "d", "nope"}) + g.args()
	}
	return s
}
func (g *c14TiGen) tcond() string {
	return g.r.Pick([]string{"T", "U", "I", "UN", "Query", "Nope", "E"})
}
func (g *c14TiGen) selset(d int) string {
	n := 1 + g.r.Intn(3)
	var xs []string
	for i := 0; i < n; i++ {
		k := g.r.Intn(10)
		switch {
		case k < 6 || d >= g.depth:
			s := g.fname() + g.args() + g.dirs()
			if d < g.depth && g.r.Chance(55) {
				s += " " + g.selset(d+1)
			}
			xs = append(xs, s)
		case k < 7:
			xs = append(xs, "...F"+g.dirs())
		default:
			s := "..."
			if g.r.Chance(50) {
				s += " on " + g.tcond()
			}
			xs = append(xs, s+g.dirs()+" "+g.selset(d+1))
		}
	}
	return "{ " + strings.Join(xs, " ") + " }"
}
func (g *c14TiGen) vtype(d int) string {
	var s string
	if d < 2 && g.r.Chance(35) {
		s = "[" + g.vtype(d+1) + "]"
	} else if d == 0 {
		s = g.r.Pick([]string{"Int", "In", "E", "String", "Nope", "T"})
	} else {
		s = g.r.Pick([]string{"Int", "In", "E", "String"})
	}
	if g.r.Chance(30) {
		s += "!"
	}
	return s
}
func (g *c14TiGen) document() string {
	n := 1 + g.r.Intn(3)
	var xs []string
	for i := 0; i < n; i++ {
		switch g.r.Intn(5) {
		case 0:
			xs = append(xs, g.selset(0))
		case 1, 2, 3:
			s := g.r.Pick([]string{"query", "query", "mutation", "subscription"}) + " " + g.r.Pick([]string{"A", "B", "C"})
			if g.r.Chance(50) {
				var vs []string
				for j := 0; j < 1+g.r.Intn(2); j++ {
					v := "$" + g.r.Pick([]string{"v", "w"}) + ": " + g.vtype(0)
					if g.r.Chance(40) {
						v += " = " + strings.Replace(g.value(1), "$", "", -1)
					}
					vs = append(vs, v)
				}
				s += "(" + strings.Join(vs, ", ") + ")"
			}
			xs = append(xs, s+g.dirs()+" "+g.selset(0))
		default:
			xs = append(xs, "fragment F on "+g.tcond()+g.dirs()+" "+g.selset(0))
		}
	}
	return strings.Join(xs, "\n")
}

// ---- the case ----

func (t *c14TiEnv) envTerm(ti *graphql.TypeInfo) string {
	par := "None"
	if p := ti.ParentType(); p != nil && !reflect.ValueOf(p).IsNil() {
		par = fmt.Sprintf("(Some %d)", t.code(p.Name()))
	}
	fd := "None"
	if f := ti.FieldDef(); f != nil {
		ty, _ := t.tyTerm(f.Type)
		fd = fmt.Sprintf("(Some (mkTfield %d %s []))", t.code(f.Name), ty)
	}
	dir := "None"
	if d := ti.Directive(); d != nil {
		dir = fmt.Sprintf("(Some (%d, []))", t.code(d.Name))
	}
	arg := "None"
	if a := ti.Argument(); a != nil {
		ty, _ := t.tyTerm(a.Type)
		arg = fmt.Sprintf("(Some (%d, %s))", t.code(a.Name()), ty)
	}
	return fmt.Sprintf("(mkTenv %s %s %s %s %s %s)", t.tyOpt(ti.Type()), par, t.tyOpt(ti.InputType()), fd, dir, arg)
}

// wrap every installed function so that it first reads the TypeInfo
func c14WrapTI(inner *visitor.VisitorOptions, rec *c14Recorder, env *c14TiEnv, ti *graphql.TypeInfo, obs *[]string) *visitor.VisitorOptions {
	wrap := func(f visitor.VisitFunc, leave bool) visitor.VisitFunc {
		if f == nil {
			return nil
		}
		return func(p visitor.VisitFuncParams) (string, interface{}) {
			ph := "PEnter"
			if leave {
				ph = "PLeave"
			}
			*obs = append(*obs, fmt.Sprintf("(%s, %d, %s)", ph, rec.nodeID(p.Node), env.envTerm(ti)))
			return f(p)
		}
	}
	inner.Enter, inner.Leave = wrap(inner.Enter, false), wrap(inner.Leave, true)
	for k, nf := range inner.KindFuncMap {
		nf.Kind, nf.Enter, nf.Leave = wrap(nf.Kind, false), wrap(nf.Enter, false), wrap(nf.Leave, true)
		inner.KindFuncMap[k] = nf
	}
	for k, f := range inner.EnterKindMap {
		inner.EnterKindMap[k] = wrap(f, false)
	}
	for k, f := range inner.LeaveKindMap {
		inner.LeaveKindMap[k] = wrap(f, true)
	}
	return inner
}

// the validator's composition: VisitWithTypeInfo(typeInfo, VisitInParallel(subs...))
func c14StackCase(r *Rng, tb *c14Tables, env *c14TiEnv, src string, density int, nsub int, e *Emitter) {
	doc, err := c14Parse(src)
	if err != nil {
		e.Emit(Case{Group: "generator", Desc: map[string]interface{}{"source": src, "error": err.Error()}, Tags: []string{"unparsable"}})
		return
	}
	tr, term := c14Convert(tb, doc)
	attrs, modelled := env.attrs(tr)
	ti := graphql.NewTypeInfo(&graphql.TypeInfoConfig{Schema: &env.schema})
	var vos []*visitor.VisitorOptions
	var subs []string
	obs := make([][]string, nsub)
	var recs []*c14Recorder
	for i := 0; i < nsub; i++ {
		opts, _ := c14RandOpts(r, tb)
		pol := c14RandPolicy(r, len(tr.nodes), density)
		rec := &c14Recorder{tr: tr, pol: pol}
		recs = append(recs, rec)
		vos = append(vos, c14WrapTI(rec.options(opts), rec, env, ti, &obs[i]))
		subs = append(subs, "("+opts.coq(tb)+", "+pol.coq()+")")
	}
	fail := guard(func() { visitor.Visit(doc, visitor.VisitWithTypeInfo(ti, visitor.VisitInParallel(vos...)), nil) })
	var obsT []string
	for i := range obs {
		if fail == "" && recs[i].bad != "" {
			fail = recs[i].bad
		}
		obsT = append(obsT, coqList(obs[i]))
	}
	c := Case{Group: "stacked", Tags: []string{"typeinfo", fmt.Sprintf("parallel:%d", nsub), fmt.Sprintf("density:%d", density)}, NT: true, Fail: fail,
		Desc: map[string]interface{}{"source": src, "sub_visitors": nsub, "sub_policies": strings.Join(subs, " ")}}
	if !modelled {
		c.Tags = append(c.Tags, "unmodelled-variable-type")
		c.NT = false
	} else if fail == "" {
		c.Coq = fmt.Sprintf("StackCase (%s) %s %s %s %s", term, env.coqSch, attrs, coqList(subs), coqList(obsT))
	}
	e.Emit(c)
}

func c14TiCase(r *Rng, tb *c14Tables, env *c14TiEnv, src string, corpus bool, density int, e *Emitter) {
	doc, err := c14Parse(src)
	if err != nil {
		e.Emit(Case{Group: "generator", Desc: map[string]interface{}{"source": src, "error": err.Error()}, Tags: []string{"unparsable"}})
		return
	}
	tr, term := c14Convert(tb, doc)
	attrs, modelled := env.attrs(tr)
	opts, form := c14RandOpts(r, tb)
	pol := c14RandPolicy(r, len(tr.nodes), density)
	rec := &c14Recorder{tr: tr, pol: pol}
	ti := graphql.NewTypeInfo(&graphql.TypeInfoConfig{Schema: &env.schema})
	var obs []string
	inner := c14WrapTI(rec.options(opts), rec, env, ti, &obs)
	fail := guard(func() { visitor.Visit(doc, visitor.VisitWithTypeInfo(ti, inner), nil) })
	tags := []string{"typeinfo", "form:" + form, fmt.Sprintf("density:%d", density)}
	if strings.Contains(src, "... {") || strings.Contains(src, "... @") {
		tags = append(tags, "inline-fragment-without-condition")
	}
	hasSkip := false
	for _, a := range pol {
		if a == 1 {
			hasSkip = true
		}
	}
	if hasSkip {
		tags = append(tags, "skip")
	}
	if fail == "" && rec.bad != "" {
		fail = rec.bad
	}
	c := Case{Group: "typeinfo", Tags: tags, NT: true, Fail: fail,
		Desc: map[string]interface{}{"source": src, "options": fmt.Sprintf("%+v", *opts), "policy(2*id+phase->1 skip,2 break)": fmt.Sprint(map[int]int(pol)), "observations": len(obs)}}
	if !modelled {
		c.Tags = append(c.Tags, "unmodelled-variable-type")
		c.NT = false
	} else if fail == "" {
		c.Coq = fmt.Sprintf("TiCase (%s) %s %s %s %s %s", term, env.coqSch, attrs, opts.coq(tb), pol.coq(), coqList(obs))
	}
	e.Emit(c)
}

var c14TiCorpus = []string{
	"{ t { a(x: 1, in: {x: 2, sub: {y: [1, 2]}, l: [{x: 3}]}) ... { b { a } } ... on U { c(list: [[1], [2, 3]], e: RED) } } }",
	"query A($v: [In!]! = [{x: 1}], $w: Nope) @d(in: {sub: {x: $v}}, x: [1]) { f(in: $v, list: [{y: [4]}], e: GREEN) @include(if: true) ...F un { __typename ... on T { o { t { a } } } } __schema { types { name } } __type(name: \"T\") { name } }\nfragment F on Query { i { a(x: 1) ... @skip(if: false) { a } } zz { a } }",
	"mutation M { m(x: 1) { b { ... { un { ... on Nope { a } ... { __typename } } } } } }\nsubscription S { s { c t { i { a(zz: 1, in: {zz: 1, l: [[1]]}) } } } }",
}

func c14GenTypeInfo(tier string, seed uint64, n int, tb *c14Tables, e *Emitter) {
	env := c14TiBuild()
	idx := uint64(500000)
	for _, src := range c14TiCorpus {
		for _, d := range []int{0, 5, 30} {
			idx++
			c14TiCase(NewRng(seed, idx), tb, env, src, true, d, e)
		}
		idx++
		c14StackCase(NewRng(seed, idx), tb, env, src, 5, 3, e)
	}
	for i := 0; i < n; i++ {
		idx++
		r := NewRng(seed, idx)
		g := &c14TiGen{r: r, depth: 1 + r.Intn(3)}
		if r.Chance(25) {
			c14StackCase(r, tb, env, g.document(), c14Densities(r), 1+r.Intn(3), e)
		} else {
			c14TiCase(r, tb, env, g.document(), false, c14Densities(r), e)
		}
	}
}
