package main

// C09: calling the real entry points on one input and checking what comes back.

import (
	"context"
	"encoding/json"
	"fmt"
	"regexp"
	"time"

	"github.com/graphql-go/graphql"
	"github.com/graphql-go/graphql/gqlerrors"
	"github.com/graphql-go/graphql/language/ast"
	"github.com/graphql-go/graphql/language/parser"
	"github.com/graphql-go/graphql/language/printer"
	"github.com/graphql-go/graphql/language/source"
)

var c09NameRe = regexp.MustCompile(`^[_A-Za-z][_0-9A-Za-z]*$`)

func c09KeysSane(v interface{}) bool {
	switch x := v.(type) {
	case map[string]interface{}:
		for k, e := range x {
			if !c09NameRe.MatchString(k) || !c09KeysSane(e) {
				return false
			}
		}
	case []interface{}:
		for _, e := range x {
			if !c09KeysSane(e) {
				return false
			}
		}
	}
	return true
}

// the client's view of a result: what json.Marshal produces
func c09Shape(o *c09Obs, res *graphql.Result) {
	o.shape = true
	if res == nil {
		o.fail = "entry point returned a nil *Result"
		return
	}
	o.nErrs = len(res.Errors)
	o.hasData = res.Data != nil
	b, err := json.Marshal(res)
	if err != nil {
		o.jsonOK = false
		o.keysOK = true
		o.extra["marshal_error"] = err.Error()
		return
	}
	var back struct {
		Data   interface{}   `json:"data"`
		Errors []interface{} `json:"errors"`
	}
	if err := json.Unmarshal(b, &back); err != nil {
		o.jsonOK = false
		o.keysOK = true
		o.extra["marshal_error"] = "does not decode: " + err.Error()
		return
	}
	o.jsonOK = true
	o.hasData = back.Data != nil
	o.nErrs = len(back.Errors)
	o.keysOK = c09KeysSane(back.Data)
	if len(b) < 300 {
		o.extra["result"] = string(b)
	}
}

func c09SchemaFor(in *c09Input) *graphql.Schema {
	if in.Schema == "zero" {
		return &graphql.Schema{}
	}
	fixed := c09FixedSchema()
	if in.Schema == "queryonly" {
		return &c09SchemaQ
	}
	return fixed
}

func c09Parse(req []byte) (*ast.Document, error) {
	return parser.Parse(parser.ParseParams{Source: source.NewSource(&source.Source{Body: req, Name: "GraphQL request"})})
}

// pre-analysis shared by the pipeline entries: does the text parse, does the document validate.
// parser.Parse, printer.Print and ValidateDocument are entry points themselves.
func c09Pre(in *c09Input, o *c09Obs, schema *graphql.Schema) (doc *ast.Document, ok bool) {
	var perr error
	// the parser may write into the source (it must not): give it a copy and compare
	body := append([]byte(nil), in.Req...)
	if pm, hung := c09Timed(len(in.Req), func() { doc, perr = c09Parse(body) }); pm != "" || hung {
		o.fail = c09FailOf("parser.Parse", pm, hung)
		return nil, false
	}
	if string(body) != string(in.Req) {
		o.fail = "parser.Parse modified the caller's source bytes"
		return nil, false
	}
	if perr != nil {
		o.parseFailed = true
		if doc != nil {
			o.fail = "parser.Parse returned a document together with an error"
			return nil, false
		}
		if _, jerr := json.Marshal(gqlerrors.FormatErrors(perr)); jerr != nil {
			o.fail = "syntax error is not serialisable: " + jerr.Error()
			return nil, false
		}
		return nil, true
	}
	if doc == nil {
		o.fail = "parser.Parse returned neither a document nor an error"
		return nil, false
	}
	if !in.NoPrint {
		var printed interface{}
		if pm, hung := c09Timed(len(in.Req), func() { printed = printer.Print(doc) }); pm != "" || hung {
			o.fail = c09FailOf("printer.Print", pm, hung)
			return nil, false
		}
		if _, isStr := printed.(string); !isStr {
			o.fail = fmt.Sprintf("printer.Print of a parsed document returned %T", printed)
			return nil, false
		}
	}
	var vr graphql.ValidationResult
	if pm, hung := c09Timed(len(in.Req), func() { vr = graphql.ValidateDocument(schema, doc, nil) }); pm != "" || hung {
		o.fail = c09FailOf("ValidateDocument", pm, hung)
		return nil, false
	}
	if vr.IsValid != (len(vr.Errors) == 0) {
		o.fail = fmt.Sprintf("ValidateDocument: IsValid=%v with %d errors", vr.IsValid, len(vr.Errors))
		return nil, false
	}
	o.validFailed = !vr.IsValid
	return doc, true
}

func c09FailOf(what, pm string, hung bool) string {
	if hung {
		return "hang: " + what + " did not return within the watchdog time"
	}
	return what + ": " + pm
}

func c09Ctx(in *c09Input) context.Context {
	if in.NilCtx {
		return nil
	}
	return context.Background()
}

func c09Root(in *c09Input) map[string]interface{} {
	if in.RootNil {
		return nil
	}
	return c09Obj()
}

// drain a subscription channel: at most max results, channel must close in time
func c09Drain(o *c09Obs, what string, size int, mk func() chan *graphql.Result) []*graphql.Result {
	var ch chan *graphql.Result
	if pm, hung := c09Timed(size, func() { ch = mk() }); pm != "" || hung {
		o.fail = c09FailOf(what, pm, hung)
		return nil
	}
	if ch == nil {
		o.fail = what + " returned a nil channel"
		return nil
	}
	var rs []*graphql.Result
	deadline := time.After(c09JobTimeout(size))
	for {
		select {
		case r, more := <-ch:
			if !more {
				return rs
			}
			rs = append(rs, r)
			if len(rs) > 50 {
				o.fail = what + ": more than 50 results from a finite source"
				return rs
			}
		case <-deadline:
			o.fail = "hang: " + what + ": the result channel was not closed within the watchdog time"
			return rs
		}
	}
}

// the worst shape among several results
func c09ShapeAll(o *c09Obs, rs []*graphql.Result) {
	o.shape = true
	o.jsonOK, o.keysOK, o.hasData = true, true, true
	o.nErrs = 0
	if len(rs) == 0 {
		// no result at all: nothing to judge but the (timely) close
		o.hasData, o.nErrs = false, 1
		o.tags = append(o.tags, "no-result")
		return
	}
	first := true
	for _, r := range rs {
		t := &c09Obs{extra: o.extra}
		c09Shape(t, r)
		if t.fail != "" {
			o.fail = t.fail
			return
		}
		bad := !t.jsonOK || !t.keysOK || (!t.hasData && t.nErrs == 0) || ((o.parseFailed || o.validFailed) && t.hasData)
		if first || bad {
			o.jsonOK, o.keysOK, o.hasData, o.nErrs = t.jsonOK, t.keysOK, t.hasData, t.nErrs
			first = false
			if bad {
				return
			}
		}
	}
}

func c09Call(in *c09Input) *c09Obs {
	o := &c09Obs{extra: map[string]interface{}{}, jsonOK: true, keysOK: true}
	schema := c09SchemaFor(in)
	size := len(in.Req)
	switch in.Entry {
	case "do", "subscribe", "cache", "cachenorm", "parseprint":
		_, ok := c09Pre(in, o, schema)
		if !ok {
			return o
		}
		switch in.Entry {
		case "parseprint":
			// judged by c09Pre alone: (parse_failed, no data, one error) or (parsed, printed)
			o.shape = true
			o.hasData = !o.parseFailed
			o.validFailed = false
			if o.parseFailed {
				o.nErrs = 1
			}
		case "do":
			var res *graphql.Result
			if pm, hung := c09Timed(size, func() {
				res = graphql.Do(graphql.Params{Schema: *schema, RequestString: string(in.Req), OperationName: in.Op, VariableValues: in.Vars, RootObject: c09Root(in), Context: c09Ctx(in)})
			}); pm != "" || hung {
				o.fail = c09FailOf("graphql.Do", pm, hung)
				return o
			}
			c09Shape(o, res)
		case "subscribe":
			rs := c09Drain(o, "graphql.Subscribe", size, func() chan *graphql.Result {
				ctx := c09Ctx(in)
				if ctx == nil {
					ctx = context.Background()
				}
				ctx, cancel := context.WithTimeout(ctx, c09JobTimeout(size)/2)
				_ = cancel
				return graphql.Subscribe(graphql.Params{Schema: *schema, RequestString: string(in.Req), OperationName: in.Op, VariableValues: in.Vars, RootObject: c09Root(in), Context: ctx})
			})
			if o.fail != "" {
				return o
			}
			c09ShapeAll(o, rs)
		case "cache", "cachenorm":
			pc := graphql.NewPlanCache(graphql.PlanCacheOptions{Normalize: in.Entry == "cachenorm", MaxEntries: 4})
			var pr1, pr2 graphql.PlanResult
			if pm, hung := c09Timed(size, func() {
				pr1 = pc.Get(schema, string(in.Req), in.Op)
				pr2 = pc.Get(schema, string(in.Req), in.Op)
			}); pm != "" || hung {
				o.fail = c09FailOf("PlanCache.Get", pm, hung)
				return o
			}
			if (pr1.Plan != nil) != (pr2.Plan != nil) || (len(pr1.Errors) > 0) != (len(pr2.Errors) > 0) {
				o.fail = "PlanCache.Get: the repeated call answers differently (plan / errors presence)"
				return o
			}
			if pr1.Plan != nil && len(pr1.Errors) > 0 {
				o.fail = "PlanCache.Get returned a plan together with errors"
				return o
			}
			if _, err := json.Marshal(pr1.Errors); err != nil {
				o.fail = "PlanCache.Get: errors not serialisable: " + err.Error()
				return o
			}
			if pr1.Plan == nil {
				o.shape = true
				o.hasData, o.nErrs = false, len(pr1.Errors)
				return o
			}
			if o.parseFailed {
				o.fail = "PlanCache.Get returned a plan for a request that does not parse"
				return o
			}
			// (a plan for a request that does not validate is judged by what executing it returns:
			// the normalising cache validates the rewritten document)
			args := map[string]interface{}{}
			for k, v := range in.Vars {
				args[k] = v
			}
			for k, v := range pr2.SynthArgs {
				args[k] = v
			}
			var res *graphql.Result
			if pm, hung := c09Timed(size, func() {
				res = graphql.ExecutePlan(pr2.Plan, graphql.ExecuteParams{Schema: *schema, Args: args, Root: c09Root(in), Context: c09Ctx(in)})
			}); pm != "" || hung {
				o.fail = c09FailOf("ExecutePlan(PlanCache.Get(...))", pm, hung)
				return o
			}
			c09Shape(o, res)
		}
		return o
	}
	// ---- direct entries on a parsed, structurally mutated, not validated document ----
	doc, note := c09MutatedDoc(in)
	if note != "" {
		o.extra["document"] = note
	}
	if doc == nil {
		// the seed did not survive print / parse: a trivial case
		o.shape = true
		o.parseFailed, o.nErrs = true, 1
		o.tags = append(o.tags, "mutant-unparseable")
		return o
	}
	switch in.Entry {
	case "validate":
		var vr graphql.ValidationResult
		if pm, hung := c09Timed(size, func() { vr = graphql.ValidateDocument(schema, doc, nil) }); pm != "" || hung {
			o.fail = c09FailOf("ValidateDocument", pm, hung)
			return o
		}
		if vr.IsValid != (len(vr.Errors) == 0) {
			o.fail = fmt.Sprintf("ValidateDocument: IsValid=%v with %d errors", vr.IsValid, len(vr.Errors))
			return o
		}
		_, err := json.Marshal(vr.Errors)
		o.shape, o.hasData, o.nErrs, o.jsonOK = true, vr.IsValid, len(vr.Errors), err == nil
		if !vr.IsValid {
			o.tags = append(o.tags, "rejected")
		}
	case "plan":
		var plan *graphql.Plan
		var err error
		if pm, hung := c09Timed(size, func() { plan, err = graphql.PlanQuery(schema, doc, in.Op) }); pm != "" || hung {
			o.fail = c09FailOf("PlanQuery", pm, hung)
			return o
		}
		if (plan == nil) == (err == nil) {
			o.fail = fmt.Sprintf("PlanQuery returned plan=%v err=%v", plan != nil, err)
			return o
		}
		o.shape, o.hasData = true, plan != nil
		if err != nil {
			o.nErrs = 1
			o.tags = append(o.tags, "rejected")
		}
	case "execute":
		var res *graphql.Result
		if pm, hung := c09Timed(size, func() {
			res = graphql.Execute(graphql.ExecuteParams{Schema: *schema, AST: doc, OperationName: in.Op, Args: in.Vars, Root: c09Root(in), Context: c09Ctx(in)})
		}); pm != "" || hung {
			o.fail = c09FailOf("Execute", pm, hung)
			return o
		}
		c09Shape(o, res)
	case "executeplan":
		var plan *graphql.Plan
		var err error
		if pm, hung := c09Timed(size, func() { plan, err = graphql.PlanQuery(schema, doc, in.Op) }); pm != "" || hung {
			o.fail = c09FailOf("PlanQuery", pm, hung)
			return o
		}
		if err != nil || plan == nil {
			o.shape, o.hasData, o.nErrs = true, false, 1
			o.tags = append(o.tags, "rejected")
			return o
		}
		var r1, r2 *graphql.Result
		if pm, hung := c09Timed(size, func() {
			r1 = graphql.ExecutePlan(plan, graphql.ExecuteParams{Schema: *schema, Args: in.Vars, Root: c09Root(in), Context: c09Ctx(in)})
			r2 = graphql.ExecutePlan(plan, graphql.ExecuteParams{Schema: *schema, Args: nil, Root: nil})
		}); pm != "" || hung {
			o.fail = c09FailOf("ExecutePlan", pm, hung)
			return o
		}
		c09ShapeAll(o, []*graphql.Result{r1, r2})
	case "execsub":
		rs := c09Drain(o, "ExecuteSubscription", size, func() chan *graphql.Result {
			ctx, cancel := context.WithTimeout(context.Background(), c09JobTimeout(size)/2)
			_ = cancel
			p := graphql.ExecuteParams{Schema: *schema, AST: doc, OperationName: in.Op, Args: in.Vars, Root: c09Root(in), Context: ctx}
			if in.NilCtx {
				p.Context = nil
			}
			return graphql.ExecuteSubscription(p)
		})
		if o.fail != "" {
			return o
		}
		c09ShapeAll(o, rs)
	default:
		o.fail = "harness: unknown entry " + in.Entry
	}
	o.nt = true
	return o
}
