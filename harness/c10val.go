package main

// C10 -- default values: the model's value (c10Val), the Go representations a
// program may configure it in (int / int64 / *int / []int / [2]interface{} /
// map[string]int / ...: invisible to the model), the generator of well-typed
// defaults for every input type shape, the hand-made corpus configuration and
// the end-to-end probe that hands the reported literal back to the library as
// an argument value.

import (
	"encoding/json"
	"fmt"
	"math"
	"reflect"
	"sort"
	"strconv"
	"strings"

	"github.com/graphql-go/graphql"
)

// K: 0 null, 1 int, 2 string, 3 bool, 4 float, 5 list, 6 object
type c10KV struct {
	N string
	V c10Val
}
type c10Val struct {
	K int
	I int
	S string
	B bool
	// K == 4: the float64 Fl, whose shortest decimal representation is 0.Digs * 10^Dp (Digs == "": zero)
	Neg  bool
	Digs string
	Dp   int
	Fl   float64
	L    []c10Val
	F    []c10KV
	Rep  int // which Go type carries the value (see toGo)
}

type c10Int int
type c10Key string

func (v c10Val) toGo() interface{} {
	switch v.K {
	case 1:
		switch v.Rep {
		case 1:
			return int64(v.I)
		case 2:
			if v.I >= math.MinInt32 && v.I <= math.MaxInt32 {
				return int32(v.I)
			}
			return int64(v.I)
		case 3:
			x := v.I
			return &x
		case 4:
			if v.I >= 0 {
				return uint(v.I)
			}
		case 5:
			return c10Int(v.I)
		}
		return v.I
	case 2:
		if v.Rep == 1 {
			x := v.S
			return &x
		}
		return v.S
	case 3:
		if v.Rep == 1 {
			x := v.B
			return &x
		}
		return v.B
	case 4:
		if v.Rep == 1 {
			x := v.Fl
			return &x
		}
		return v.Fl
	case 5:
		if v.Rep == 1 && len(v.L) > 0 {
			// a typed slice, when the elements are plain scalars of one kind
			k := v.L[0].K
			same := k >= 1 && k <= 4
			for _, x := range v.L {
				if x.K != k || x.Rep != 0 {
					same = false
				}
			}
			if same {
				switch k {
				case 1:
					l := []int{}
					for _, x := range v.L {
						l = append(l, x.I)
					}
					return l
				case 2:
					l := []string{}
					for _, x := range v.L {
						l = append(l, x.S)
					}
					return l
				case 3:
					l := []bool{}
					for _, x := range v.L {
						l = append(l, x.B)
					}
					return l
				case 4:
					l := []float64{}
					for _, x := range v.L {
						l = append(l, x.Fl)
					}
					return l
				}
			}
		}
		l := []interface{}{}
		for _, x := range v.L {
			l = append(l, x.toGo())
		}
		switch v.Rep {
		case 2: // a Go array
			a := reflect.New(reflect.ArrayOf(len(l), reflect.TypeOf((*interface{})(nil)).Elem())).Elem()
			for i, x := range l {
				if x != nil {
					a.Index(i).Set(reflect.ValueOf(x))
				}
			}
			return a.Interface()
		case 3:
			return &l
		}
		return l
	case 6:
		if v.Rep == 1 && len(v.F) > 0 {
			k := v.F[0].V.K
			same := k == 1 || k == 2
			for _, kv := range v.F {
				if kv.V.K != k || kv.V.Rep != 0 {
					same = false
				}
			}
			if same && k == 1 {
				m := map[string]int{}
				for _, kv := range v.F {
					m[kv.N] = kv.V.I
				}
				return m
			}
			if same && k == 2 {
				m := map[string]string{}
				for _, kv := range v.F {
					m[kv.N] = kv.V.S
				}
				return m
			}
		}
		if v.Rep == 2 {
			m := map[c10Key]interface{}{}
			for _, kv := range v.F {
				m[c10Key(kv.N)] = kv.V.toGo()
			}
			return m
		}
		m := map[string]interface{}{}
		for _, kv := range v.F {
			m[kv.N] = kv.V.toGo()
		}
		if v.Rep == 3 {
			return &m
		}
		return m
	}
	return nil
}

func (v c10Val) coq() string {
	switch v.K {
	case 1:
		return "(VInt " + coqZ(v.I) + ")"
	case 2:
		return "(VStr " + c10Bytes(v.S) + ")"
	case 3:
		return "(VBool " + coqBool(v.B) + ")"
	case 4:
		ds := []string{}
		for _, c := range v.Digs {
			ds = append(ds, string(c))
		}
		return "(VFloat " + coqBool(v.Neg) + " " + coqList(ds) + " " + coqZ(v.Dp) + ")"
	case 5:
		xs := []string{}
		for _, x := range v.L {
			xs = append(xs, x.coq())
		}
		return "(VList " + coqList(xs) + ")"
	case 6:
		xs := []string{}
		for _, kv := range v.F {
			xs = append(xs, "("+c10Bytes(kv.N)+", "+kv.V.coq()+")")
		}
		return "(VObj " + coqList(xs) + ")"
	}
	return "VNull"
}

// for descriptions: the value with the Go type that carries it
func (v c10Val) String() string {
	x := v.toGo()
	b, err := json.Marshal(x)
	if err != nil {
		return fmt.Sprintf("%T(%v)", x, x)
	}
	return fmt.Sprintf("%T(%s)", x, b)
}

func (v c10Val) walk(f func(c10Val)) {
	f(v)
	for _, x := range v.L {
		x.walk(f)
	}
	for _, kv := range v.F {
		kv.V.walk(f)
	}
}

func c10FromGo(x interface{}) *c10Val {
	switch x := x.(type) {
	case nil:
		return nil
	case bool:
		return &c10Val{K: 3, B: x}
	case int:
		return &c10Val{K: 1, I: x}
	case string:
		return &c10Val{K: 2, S: x}
	}
	return &c10Val{K: 2, S: fmt.Sprint(x)}
}

// ---------------------------------------------------------------- floats by their shortest digits

// the shortest decimal digits of a finite float64: f = +-0.digits * 10^dp
func c10FloatDigits(f float64) (neg bool, digits string, dp int) {
	s := strconv.FormatFloat(f, 'e', -1, 64) // [-]d[.ddd]e+-xx
	if strings.HasPrefix(s, "-") {
		neg, s = true, s[1:]
	}
	i := strings.IndexByte(s, 'e')
	exp, _ := strconv.Atoi(s[i+1:])
	digits = strings.Replace(s[:i], ".", "", 1)
	digits = strings.TrimRight(digits, "0")
	if digits == "" {
		return false, "", 0
	}
	return neg, digits, exp + 1
}

func c10Float(f float64) *c10Val {
	neg, ds, dp := c10FloatDigits(f)
	return &c10Val{K: 4, Neg: neg, Digs: ds, Dp: dp, Fl: f}
}

func c10GenFloat(r *Rng) *c10Val {
	switch r.Intn(12) {
	case 0:
		return c10Float(0)
	case 1:
		return c10Float(r.PickF([]float64{1e21, 1e20, 1e6, 1e5, 999999, 1000000, 123456789, 1e-4, 1e-5, 0.00012, 1.5e-7, 1.7976931348623157e308, 5e-324, 2.2250738585072014e-308, 0.1, 0.3, 1.0 / 3, 2.5, 100, -0.5, -1e22, 6.02214076e23}))
	}
	for tries := 0; tries < 20; tries++ {
		nd := 1 + r.Intn(15)
		b := make([]byte, nd)
		for i := range b {
			b[i] = byte('0' + r.Intn(10))
		}
		b[0] = byte('1' + r.Intn(9))
		b[nd-1] = byte('1' + r.Intn(9))
		dp := r.Intn(14) - 5 // around the %e / %f thresholds
		if r.Chance(25) {
			dp = r.Intn(600) - 300
		}
		sign := ""
		if r.Chance(30) {
			sign = "-"
		}
		f, err := strconv.ParseFloat(fmt.Sprintf("%s0.%se%d", sign, b, dp), 64)
		if err != nil || math.IsInf(f, 0) {
			continue
		}
		v := c10Float(f)
		if v.Digs == string(b) && v.Dp == dp {
			return v
		}
	}
	return c10Float(1.5)
}

func (r *Rng) PickF(xs []float64) float64 { return xs[r.Intn(len(xs))] }

// ---------------------------------------------------------------- generating well-typed defaults

var c10Strings = []string{"", "x", "hello world", "a-b_c", "B",
	`with "quotes"`, `back\slash`, "line\nbreak", "tab\there", "cr\rlf\n", "\b\f", "ctl\x01\x1f", "del\x7f",
	"\u00e9", "\u65e5\u672c\u8a9e", "\U0001F600", "\u2028sep", "\ufeffbom", `\u0041 literal`, "null", "true",
	"#not a comment", "a,b", "}{][", `"""`, "$var", "ends with backslash\\", "quote at end\"", `""`}

var c10Ints = []int{0, 1, -1, 7, 42, -50, 2147483647, -2147483648, 65536, 1000000}
var c10FloatInts = []int{0, 5, -3, 1000000, 123456789012, 9007199254740992, -9007199254740992, 2147483648, 100}

func c10GenDefault(r *Rng, c *c11Cfg, t c11Ref, depth int) *c10Val {
	switch t.K {
	case 3:
		return c10GenDefault(r, c, *t.Of, depth)
	case 2:
		v := &c10Val{K: 5, Rep: r.PickI([]int{0, 0, 0, 1, 2, 3})}
		for i, n := 0, r.Intn(4); i < n; i++ {
			x := c10GenDefault(r, c, *t.Of, depth+1)
			if x == nil {
				return nil
			}
			v.L = append(v.L, *x)
		}
		return v
	case 1:
		switch t.ID {
		case c11IDInt:
			v := &c10Val{K: 1, I: r.Intn(101) - 50, Rep: r.PickI([]int{0, 0, 0, 1, 2, 3, 4, 5})}
			if r.Chance(20) {
				v.I = 0 // the zero value of the carrying Go type: an entry that holds it is still an entry
				return v
			}
			if r.Chance(30) {
				v.I = c10Ints[r.Intn(len(c10Ints))]
			}
			return v
		case c11IDFloat:
			if r.Chance(25) {
				return &c10Val{K: 1, I: c10FloatInts[r.Intn(len(c10FloatInts))], Rep: r.PickI([]int{0, 0, 1, 3})}
			}
			v := c10GenFloat(r)
			v.Rep = r.PickI([]int{0, 0, 0, 1})
			return v
		case c11IDString, c11IDID:
			if r.Chance(12) {
				return &c10Val{K: 2, S: "", Rep: r.PickI([]int{0, 0, 0, 1})}
			}
			return &c10Val{K: 2, S: r.Pick(c10Strings), Rep: r.PickI([]int{0, 0, 0, 1})}
		case c11IDBoolean:
			return &c10Val{K: 3, B: r.Bool(), Rep: r.PickI([]int{0, 0, 0, 1})}
		}
		d := c.def(t.ID)
		if d == nil {
			return nil
		}
		switch d.Kind {
		case c11Enum:
			// the internal value is an int; Enum.Serialize finds it by interface equality, so only int and *int carry it
			return &c10Val{K: 1, I: 1 + r.Intn(len(d.Values)), Rep: r.PickI([]int{0, 0, 0, 3})}
		case c11Input:
			if depth > 2 {
				return nil
			}
			v := &c10Val{K: 6, Rep: r.PickI([]int{0, 0, 0, 1, 2, 3})}
			fs := append([]c11IField{}, d.IFields...)
			sort.Slice(fs, func(i, j int) bool { return fs[i].Name < fs[j].Name })
			for _, f := range fs {
				must := f.Def != nil || f.T.K == 3
				if !must && !r.Chance(70) {
					continue
				}
				x := c10GenDefault(r, c, f.T, depth+1)
				if x == nil {
					if must {
						return nil
					}
					continue
				}
				v.F = append(v.F, c10KV{f.Name, *x})
			}
			return v
		}
	}
	return nil
}

func (r *Rng) PickI(xs []int) int { return xs[r.Intn(len(xs))] }

func c10IsObjectish(c *c11Cfg, t c11Ref) bool {
	for _, id := range c11RefIDs(t, nil) {
		if d := c.def(id); d != nil && d.Kind == c11Input {
			return true
		}
	}
	return false
}

// ---------------------------------------------------------------- features of a default (tags)

func c10DefaultTags(set map[string]bool, c *c11Cfg, t c11Ref, v *c10Val) {
	if v == nil {
		return
	}
	set["default"] = true
	if v.K >= 5 {
		set["non-scalar-default"] = true
	}
	if ids := c11RefIDs(t, nil); len(ids) == 1 {
		if d := c.def(ids[0]); d != nil && d.Kind == c11Enum {
			set["enum-default"] = true
		}
	}
	depth := 0
	var rec func(x c10Val, d int)
	rec = func(x c10Val, d int) {
		switch x.K {
		case 1:
			if x.I > math.MaxInt32 || x.I < math.MinInt32 {
				set["large-int-default"] = true
			}
			if x.Rep != 0 {
				set["rep:sized-or-pointer-int"] = true
			}
		case 2:
			for _, b := range []byte(x.S) {
				if b < 0x20 || b == 0x7f || b == '"' || b == '\\' {
					set["escape-string-default"] = true
				}
				if b >= 0x80 {
					set["unicode-string-default"] = true
				}
			}
			if x.Rep != 0 {
				set["rep:pointer"] = true
			}
		case 3:
			if x.Rep != 0 {
				set["rep:pointer"] = true
			}
		case 4:
			set["float-default"] = true
			if x.Digs != "" && (x.Dp-1 < -4 || x.Dp-1 >= 6) {
				set["exponent-float-default"] = true
			}
			if x.Rep != 0 {
				set["rep:pointer"] = true
			}
		case 5:
			switch x.Rep {
			case 1:
				set["rep:typed-slice"] = true
			case 2:
				set["rep:array"] = true
			case 3:
				set["rep:pointer"] = true
			}
			for _, y := range x.L {
				if y.K == 0 {
					set["no-literal-default"] = true
				}
				rec(y, d)
			}
		case 6:
			set["input-object-default"] = true
			if d > depth {
				depth = d
			}
			switch x.Rep {
			case 1, 2:
				set["rep:typed-map"] = true
			case 3:
				set["rep:pointer"] = true
			}
			for _, kv := range x.F {
				rec(kv.V, d+1)
			}
		}
	}
	rec(*v, 0)
	if depth >= 1 {
		set["nested-object-default"] = true
	}
}

// ---------------------------------------------------------------- the corpus configuration

func c10Obj(kvs ...interface{}) c10Val {
	v := c10Val{K: 6}
	for i := 0; i+1 < len(kvs); i += 2 {
		v.F = append(v.F, c10KV{kvs[i].(string), kvs[i+1].(c10Val)})
	}
	sort.Slice(v.F, func(i, j int) bool { return v.F[i].N < v.F[j].N })
	return v
}
func c10ListV(xs ...c10Val) c10Val { return c10Val{K: 5, L: xs} }
func c10IntV(i int) c10Val         { return c10Val{K: 1, I: i} }
func c10StrV(s string) c10Val      { return c10Val{K: 2, S: s} }
func c10Rep(v c10Val, rep int) c10Val {
	v.Rep = rep
	return v
}

// one schema that carries a default of every kind: an enum, a recursive input object with a
// default of its own, an input object around it, and one argument per default
func c10Corpus(withNoLiteral bool) *c11Cfg {
	const (
		idE  = 100
		idIn = 101
		idW  = 102
		idQ  = 103
	)
	e := &c11Def{ID: idE, Kind: c11Enum, Name: "Color", Values: []c11EnumVal{{Name: "BLUE"}, {Name: "GREEN", Dep: "use BLUE"}, {Name: "RED"}}} // internal values 1, 2, 3 in name order (the model lists a Go map in key order)
	seven := c10IntV(7)
	in := &c11Def{ID: idIn, Kind: c11Input, Name: "In", Thunk: true, IFields: []c11IField{
		{Name: "a", T: c11Named(c11IDInt), Def: &seven},
		{Name: "e", T: c11ListOf(c11NonNull(c11Named(idE)))},
		{Name: "s", T: c11Named(c11IDString)},
		{Name: "f", T: c11Named(c11IDFloat)},
		{Name: "n", T: c11Named(idIn)},
		{Name: "l", T: c11ListOf(c11ListOf(c11Named(c11IDInt)))},
		{Name: "b", T: c11NonNull(c11Named(c11IDBoolean))},
	}}
	x := c10StrV("x")
	w := &c11Def{ID: idW, Kind: c11Input, Name: "Wrap", IFields: []c11IField{
		{Name: "inner", T: c11NonNull(c11Named(idIn))},
		{Name: "id", T: c11Named(c11IDID), Def: &x},
		{Name: "more", T: c11ListOf(c11Named(idIn))},
	}}
	inner := c10Obj("a", c10IntV(7), "b", c10Val{K: 3, B: true}, "e", c10ListV(c10IntV(3), c10IntV(1)),
		"s", c10StrV("q\"\\\n\t\u00e9\u2028\x7f\x01"), "f", *c10Float(1.5e-7),
		"n", c10Obj("a", c10IntV(1), "b", c10Val{K: 3}), "l", c10ListV(c10ListV(c10IntV(1)), c10ListV(), c10ListV(c10IntV(2), c10IntV(-3))))
	var args []c11Arg
	add := func(t c11Ref, v c10Val) {
		vv := v
		args = append(args, c11Arg{Name: fmt.Sprintf("a%02d", len(args)), T: t, Def: &vv})
	}
	In, W, E := c11Named(idIn), c11Named(idW), c11Named(idE)
	Int, Flt, Str := c11Named(c11IDInt), c11Named(c11IDFloat), c11Named(c11IDString)
	add(W, c10Obj("inner", inner, "id", c10StrV("x"), "more", c10ListV(c10Obj("a", c10IntV(0), "b", c10Val{K: 3, B: true}))))
	add(c11NonNull(c11ListOf(E)), c10ListV(c10IntV(2)))
	add(c11NonNull(E), c10IntV(3))
	for _, f := range []float64{1e21, 1e20, 1e6, 999999, 123456789, 1e-4, 1e-5, 1.7976931348623157e308, 5e-324, 0, -2.5, 1.0 / 3} {
		add(Flt, *c10Float(f))
	}
	add(Flt, c10IntV(5))
	add(Flt, c10IntV(9007199254740992))
	add(c11ListOf(Flt), c10ListV(c10IntV(1), *c10Float(0.5), c10IntV(-1000000)))
	add(Int, c10IntV(2147483647))
	add(Int, c10IntV(-2147483648))
	for _, s := range c10Strings {
		add(Str, c10StrV(s))
	}
	add(c11Named(c11IDID), c10StrV("id \"1\""))
	// the same values in other Go types
	for rep := 1; rep <= 5; rep++ {
		add(Int, c10Rep(c10IntV(5), rep))
	}
	add(Flt, c10Rep(c10IntV(6), 1))
	add(Flt, c10Rep(*c10Float(2.5e10), 1))
	add(c11NonNull(E), c10Rep(c10IntV(1), 3))
	add(Str, c10Rep(c10StrV("p"), 1))
	add(c11ListOf(Int), c10Rep(c10ListV(c10IntV(1), c10IntV(2)), 1))
	add(c11ListOf(Str), c10Rep(c10ListV(c10StrV("a"), c10StrV("b\"")), 1))
	add(c11ListOf(Int), c10Rep(c10ListV(c10IntV(1), c10IntV(2)), 2))
	add(c11ListOf(Int), c10Rep(c10ListV(c10IntV(1), c10IntV(2)), 3))
	add(c11ListOf(E), c10Rep(c10ListV(c10IntV(1), c10IntV(3)), 1))
	add(In, c10Rep(c10Obj("a", c10IntV(3), "b", c10Val{K: 3, B: true}), 2))
	add(In, c10Rep(c10Obj("a", c10IntV(3), "b", c10Val{K: 3}), 3))
	if withNoLiteral {
		// a null element has no literal in this edition of the language (known finding)
		add(c11ListOf(Int), c10ListV(c10IntV(1), c10Val{K: 0}, c10IntV(2)))
	}
	q := &c11Def{ID: idQ, Kind: c11Object, Name: "Query", IsTypeOf: true, Fields: []c11Field{
		{Name: "q", T: Int, Args: args, Desc: "one argument per default"},
		{Name: "old", T: c11ListOf(c11NonNull(E)), Dep: "gone"},
	}}
	return &c11Cfg{Defs: []*c11Def{e, in, w, q}, Query: idQ, Mutation: -1, Subscription: -1}
}

// ---------------------------------------------------------------- end-to-end probe

// the configured default and the Go value the library coerced the literal to are the same value
func c10SameGo(v c10Val, got interface{}) bool {
	switch v.K {
	case 0:
		return got == nil
	case 1:
		switch g := got.(type) {
		case int:
			return g == v.I
		case float64:
			return g == float64(v.I)
		}
	case 2:
		g, ok := got.(string)
		return ok && g == v.S
	case 3:
		g, ok := got.(bool)
		return ok && g == v.B
	case 4:
		g, ok := got.(float64)
		return ok && g == v.Fl
	case 5:
		g, ok := got.([]interface{})
		if !ok || len(g) != len(v.L) {
			return false
		}
		for i := range g {
			if !c10SameGo(v.L[i], g[i]) {
				return false
			}
		}
		return true
	case 6:
		g, ok := got.(map[string]interface{})
		if !ok || len(g) != len(v.F) {
			return false
		}
		for _, kv := range v.F {
			x, in := g[kv.N]
			if !in || !c10SameGo(kv.V, x) {
				return false
			}
		}
		return true
	}
	return false
}

// hand the reported literal back to the library as the value of an argument of the same type and
// compare what the resolver receives (valueFromAST of the literal) with the configured default
func c10Probe(t graphql.Type, text string, def c10Val) string {
	in, ok := t.(graphql.Input)
	if !ok {
		return ""
	}
	var got interface{}
	called := false
	q := graphql.NewObject(graphql.ObjectConfig{Name: "ProbeQuery", Fields: graphql.Fields{
		"probe": &graphql.Field{Type: graphql.Boolean, Args: graphql.FieldConfigArgument{"x": &graphql.ArgumentConfig{Type: in}},
			Resolve: func(p graphql.ResolveParams) (interface{}, error) {
				got, called = p.Args["x"], true
				return true, nil
			}},
	}})
	s, err := graphql.NewSchema(graphql.SchemaConfig{Query: q})
	if err != nil {
		return "" // not this check's matter
	}
	res := graphql.Do(graphql.Params{Schema: s, RequestString: "{ probe(x: " + text + "\n) }"})
	if len(res.Errors) > 0 {
		return fmt.Sprintf("the reported defaultValue %q is rejected as a value of its own argument type %v: %v", text, t, res.Errors[0].Message)
	}
	if !called {
		return fmt.Sprintf("probe resolver not called for %q", text)
	}
	if !c10SameGo(def, got) {
		return fmt.Sprintf("the reported defaultValue %q, given back as an argument of type %v, is received as %#v; configured default: %s", text, t, got, def)
	}
	return ""
}
