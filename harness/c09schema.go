package main

// C09: the fixed schema the byte-level and structural mutants run against, and the
// seed requests.  The schema has every kind of type, recursive object and input
// types, list / non-null wrappers, arguments with defaults, a custom scalar,
// fields resolved by DefaultResolveFn on maps and structs (reflection), failing,
// panicking and deferring resolvers, and data that never ends (field a: Q always
// yields another object), so that only the document bounds the recursion.

import (
	"errors"
	"os"
	"sync"

	"github.com/graphql-go/graphql"
	"github.com/graphql-go/graphql/language/ast"
)

type c09Struct struct {
	ID   string `json:"id"`
	I    int    `json:"i"`
	S    *string
	F    float64 `graphql:"f"`
	priv int
}

var (
	c09SchemaOnce sync.Once
	c09Schema     graphql.Schema
	c09SchemaQ    graphql.Schema // the same types with a query root only
)

func c09Obj() map[string]interface{} {
	return map[string]interface{}{"id": "1", "i": 3, "f": 1.5, "b": true, "s": "str", "e": "RED", "__c09": true}
}

func c09FixedSchema() *graphql.Schema {
	c09SchemaOnce.Do(func() {
		color := graphql.NewEnum(graphql.EnumConfig{Name: "Color", Values: graphql.EnumValueConfigMap{
			"RED": &graphql.EnumValueConfig{Value: "RED"}, "GREEN": &graphql.EnumValueConfig{Value: 2}}})
		anyScalar := graphql.NewScalar(graphql.ScalarConfig{Name: "Any",
			Serialize:  func(v interface{}) interface{} { return v },
			ParseValue: func(v interface{}) interface{} { return v },
			ParseLiteral: func(v ast.Value) interface{} {
				if v == nil {
					return nil
				}
				return v.GetValue()
			}})
		var in *graphql.InputObject
		in = graphql.NewInputObject(graphql.InputObjectConfig{Name: "In", Fields: graphql.InputObjectConfigFieldMapThunk(func() graphql.InputObjectConfigFieldMap {
			return graphql.InputObjectConfigFieldMap{
				"a": &graphql.InputObjectFieldConfig{Type: graphql.Int},
				"b": &graphql.InputObjectFieldConfig{Type: graphql.String, DefaultValue: "d"},
				"c": &graphql.InputObjectFieldConfig{Type: in},
				"d": &graphql.InputObjectFieldConfig{Type: graphql.NewList(graphql.NewNonNull(in))},
				"e": &graphql.InputObjectFieldConfig{Type: color},
				"l": &graphql.InputObjectFieldConfig{Type: graphql.NewList(graphql.NewList(graphql.Int))},
			}
		})})
		in2 := graphql.NewInputObject(graphql.InputObjectConfig{Name: "In2", Fields: graphql.InputObjectConfigFieldMap{
			"r": &graphql.InputObjectFieldConfig{Type: graphql.NewNonNull(graphql.Int)},
			"o": &graphql.InputObjectFieldConfig{Type: in},
		}})
		var q, r *graphql.Object
		var node *graphql.Interface
		var u *graphql.Union
		resolveType := func(p graphql.ResolveTypeParams) *graphql.Object {
			if m, ok := p.Value.(map[string]interface{}); ok {
				if _, isR := m["r"]; isR {
					return r
				}
				return q
			}
			return nil
		}
		node = graphql.NewInterface(graphql.InterfaceConfig{Name: "Node", ResolveType: resolveType,
			Fields: graphql.FieldsThunk(func() graphql.Fields {
				return graphql.Fields{"id": &graphql.Field{Type: graphql.NewNonNull(graphql.ID)}, "self": &graphql.Field{Type: node}}
			})})
		obj := func(p graphql.ResolveParams) (interface{}, error) { return c09Obj(), nil }
		allArgs := graphql.FieldConfigArgument{
			"x": &graphql.ArgumentConfig{Type: graphql.String}, "i": &graphql.ArgumentConfig{Type: graphql.Int, DefaultValue: 7},
			"f": &graphql.ArgumentConfig{Type: graphql.Float}, "b": &graphql.ArgumentConfig{Type: graphql.Boolean},
			"e": &graphql.ArgumentConfig{Type: color}, "o": &graphql.ArgumentConfig{Type: in}, "o2": &graphql.ArgumentConfig{Type: in2},
			"l": &graphql.ArgumentConfig{Type: graphql.NewList(graphql.NewNonNull(graphql.Int))}, "id": &graphql.ArgumentConfig{Type: graphql.ID},
			"any": &graphql.ArgumentConfig{Type: anyScalar},
			"ll": &graphql.ArgumentConfig{Type: graphql.NewList(graphql.NewList(graphql.NewList(graphql.Int)))},
		}
		q = graphql.NewObject(graphql.ObjectConfig{Name: "Q", Interfaces: []*graphql.Interface{node}, Fields: graphql.FieldsThunk(func() graphql.Fields {
			return graphql.Fields{
				// resolved by DefaultResolveFn on the map source
				"id": &graphql.Field{Type: graphql.NewNonNull(graphql.ID)},
				"i":  &graphql.Field{Type: graphql.Int},
				"f":  &graphql.Field{Type: graphql.Float},
				"b":  &graphql.Field{Type: graphql.Boolean},
				"e":  &graphql.Field{Type: color},
				"missing": &graphql.Field{Type: graphql.String},
				"self": &graphql.Field{Type: node, Resolve: obj},
				"a":    &graphql.Field{Type: q, Resolve: obj},
				"as": &graphql.Field{Type: graphql.NewList(q), Args: graphql.FieldConfigArgument{"n": &graphql.ArgumentConfig{Type: graphql.Int, DefaultValue: 2}},
					Resolve: func(p graphql.ResolveParams) (interface{}, error) {
						n, _ := p.Args["n"].(int)
						if n < 0 || n > 5 {
							n = 5
						}
						l := []interface{}{}
						for k := 0; k < n; k++ {
							l = append(l, c09Obj())
						}
						return l, nil
					}},
				"s": &graphql.Field{Type: graphql.String, Args: allArgs, Resolve: func(p graphql.ResolveParams) (interface{}, error) { return "S", nil }},
				"any": &graphql.Field{Type: anyScalar, Args: graphql.FieldConfigArgument{"v": &graphql.ArgumentConfig{Type: anyScalar}},
					Resolve: func(p graphql.ResolveParams) (interface{}, error) { return p.Args["v"], nil }},
				"nn":     &graphql.Field{Type: graphql.NewNonNull(graphql.String), Resolve: func(p graphql.ResolveParams) (interface{}, error) { return "NN", nil }},
				"nnfail": &graphql.Field{Type: graphql.NewNonNull(graphql.String), Resolve: func(p graphql.ResolveParams) (interface{}, error) { return nil, nil }},
				"u":      &graphql.Field{Type: u, Resolve: func(p graphql.ResolveParams) (interface{}, error) { return map[string]interface{}{"r": "R"}, nil }},
				"us": &graphql.Field{Type: graphql.NewNonNull(graphql.NewList(graphql.NewNonNull(u))), Resolve: func(p graphql.ResolveParams) (interface{}, error) {
					return []interface{}{c09Obj(), map[string]interface{}{"r": "R"}}, nil
				}},
				"n":     &graphql.Field{Type: node, Resolve: obj},
				"st":    &graphql.Field{Type: r, Resolve: func(p graphql.ResolveParams) (interface{}, error) { return &c09Struct{ID: "7", I: 1}, nil }},
				"err":   &graphql.Field{Type: graphql.String, Resolve: func(p graphql.ResolveParams) (interface{}, error) { return nil, errors.New("resolver error") }},
				"panic": &graphql.Field{Type: graphql.String, Resolve: func(p graphql.ResolveParams) (interface{}, error) { panic("resolver panic") }},
				"thunk": &graphql.Field{Type: graphql.String, Resolve: func(p graphql.ResolveParams) (interface{}, error) {
					return func() (interface{}, error) { return "T", nil }, nil
				}},
				"thunk2": &graphql.Field{Type: graphql.String, Resolve: func(p graphql.ResolveParams) (interface{}, error) {
					return func() (interface{}, error) { return func() (interface{}, error) { return "TT", nil }, nil }, nil
				}},
				"thunkobj": &graphql.Field{Type: q, Resolve: func(p graphql.ResolveParams) (interface{}, error) {
					return func() (interface{}, error) { return c09Obj(), nil }, nil
				}},
				"deep": &graphql.Field{Type: graphql.NewList(graphql.NewList(graphql.NewList(graphql.Int))), Resolve: func(p graphql.ResolveParams) (interface{}, error) {
					return []interface{}{[]interface{}{[]interface{}{1, nil}, nil}, []interface{}{}}, nil
				}},
			}
		})})
		r = graphql.NewObject(graphql.ObjectConfig{Name: "R", Fields: graphql.FieldsThunk(func() graphql.Fields {
			return graphql.Fields{
				"r":  &graphql.Field{Type: graphql.String},
				"id": &graphql.Field{Type: graphql.ID},
				"i":  &graphql.Field{Type: graphql.Int},
				"f":  &graphql.Field{Type: graphql.Float},
				"S":  &graphql.Field{Type: graphql.String},
				"q":  &graphql.Field{Type: q, Resolve: obj},
			}
		})})
		u = graphql.NewUnion(graphql.UnionConfig{Name: "U", Types: []*graphql.Object{q, r}, ResolveType: resolveType})
		m := graphql.NewObject(graphql.ObjectConfig{Name: "M", Fields: graphql.Fields{
			"set": &graphql.Field{Type: graphql.Int, Args: graphql.FieldConfigArgument{"v": &graphql.ArgumentConfig{Type: graphql.Int}, "o": &graphql.ArgumentConfig{Type: in2}},
				Resolve: func(p graphql.ResolveParams) (interface{}, error) { return p.Args["v"], nil }},
			"q": &graphql.Field{Type: q, Resolve: obj},
		}})
		sub := graphql.NewObject(graphql.ObjectConfig{Name: "Sub", Fields: graphql.Fields{
			"tick": &graphql.Field{Type: graphql.Int, Args: graphql.FieldConfigArgument{"n": &graphql.ArgumentConfig{Type: graphql.Int, DefaultValue: 2}},
				Subscribe: func(p graphql.ResolveParams) (interface{}, error) {
					n, _ := p.Args["n"].(int)
					if n < 0 || n > 3 {
						n = 3
					}
					c := make(chan interface{}, n)
					for k := 0; k < n; k++ {
						c <- k
					}
					close(c)
					return c, nil
				},
				Resolve: func(p graphql.ResolveParams) (interface{}, error) { return p.Source, nil }},
			"one": &graphql.Field{Type: q, Subscribe: obj, Resolve: func(p graphql.ResolveParams) (interface{}, error) { return p.Source, nil }},
			"nosub": &graphql.Field{Type: graphql.Int},
			"suberr": &graphql.Field{Type: graphql.Int, Subscribe: func(p graphql.ResolveParams) (interface{}, error) { return nil, errors.New("subscribe error") }},
			"subpanic": &graphql.Field{Type: graphql.Int, Subscribe: func(p graphql.ResolveParams) (interface{}, error) { panic(errors.New("subscribe panic")) }},
		}})
		s, err := graphql.NewSchema(graphql.SchemaConfig{Query: q, Mutation: m, Subscription: sub, Types: []graphql.Type{r, in2}})
		if err != nil {
			panic(err)
		}
		c09Schema = s
		s2, err := graphql.NewSchema(graphql.SchemaConfig{Query: q, Types: []graphql.Type{r, in2}})
		if err != nil {
			panic(err)
		}
		c09SchemaQ = s2
	})
	return &c09Schema
}

// valid requests over the fixed schema: seeds of the byte-level and structural mutators
var c09Seeds = []string{
	`{ s }`,
	`{ a { a { a { id i } } } }`,
	`query Q1($x: String = "d", $i: Int, $o: In) { s(x: $x, i: $i, o: $o) i }`,
	`query ($b: Boolean!) { s @skip(if: $b) i @include(if: $b) a @include(if: true) { id } }`,
	`{ ...F } fragment F on Q { s a { ...G } } fragment G on Q { id i f }`,
	`{ a { ...F } n { ... on Q { i } id } } fragment F on Node { id self { id } }`,
	`{ u { ... on R { r } ... on Q { id } __typename } us { ... on Node { id } } }`,
	`{ s(o: {a: 1, b: "x", c: {a: 2, d: [{a: 3}]}, e: RED, l: [[1, 2], [3]]}, l: [1, 2, 3], f: 1.5e3, b: false, e: GREEN, id: 5, any: {k: [1, "2", 3.0, true, E]}) }`,
	`{ x: s y: s(x: "aé\n\"q\"") z: i nn err panic nnfail }`,
	`{ thunk thunkobj { id a { thunk } } as(n: 3) { i thunk } deep }`,
	`mutation M($v: Int = 3) { a: set(v: $v) b: set(v: 2, o: {r: 1}) q { id } }`,
	`subscription S { tick(n: 2) }`,
	`subscription { one { id a { i } } }`,
	`query A { s } query B { i } mutation C { set(v: 1) }`,
	`{ __schema { queryType { name } types { name kind fields { name args { name defaultValue type { kind name ofType { name } } } } } directives { name locations } } __type(name: "Q") { name interfaces { name } } }`,
	`{ __typename a { __typename } st { id i f S } any(v: [1, {a: "b"}]) missing e b }`,
	`query ($l: [Int!] = [1, 2], $ll: [[[Int]]], $e: Color = RED, $any: Any, $o2: In2 = {r: 1}) { s(l: $l, ll: $ll, e: $e, any: $any, o2: $o2) }`,
	"# comment\n{\n  s(x: \"\"\"block\n   string \\\"\"\" \"\"\"),\n  i\n}\n",
	`{ a { ... @include(if: true) { id } ... on Q @skip(if: false) { i } } }`,
	`query ($s: Boolean = false) { ...F @skip(if: $s) } fragment F on Q { i ...G @include(if: true) } fragment G on Q { f }`,
}

var c09SeedVars = []map[string]interface{}{
	nil,
	{},
	{"x": "v", "i": 3, "b": true, "v": 2},
	{"o": map[string]interface{}{"a": 1, "c": map[string]interface{}{"b": "z"}, "d": []interface{}{map[string]interface{}{"a": 2}}, "e": "GREEN"}},
	{"b": false, "s": true, "l": []interface{}{1, 2}, "ll": []interface{}{[]interface{}{[]interface{}{1, nil}}}, "e": "RED", "any": map[string]interface{}{"k": []interface{}{1, "x"}}, "o2": map[string]interface{}{"r": 2}},
	// wrong kinds
	{"x": 5, "i": "str", "b": "yes", "o": "notobject", "l": "x", "e": 7, "v": 1.5, "o2": map[string]interface{}{}},
	{"x": nil, "i": nil, "b": nil, "o": nil},
	{"i": 1e300, "o": map[string]interface{}{"zz": 1, "c": []interface{}{}}, "l": []interface{}{nil}, "ll": 3, "b": []interface{}{true}},
	{"o": map[string]interface{}{"d": map[string]interface{}{"d": map[string]interface{}{"d": 1}}}, "any": []interface{}{nil, 1.5}},
}

func c09RepoFile(name string) []byte {
	repo := os.Getenv("VERIF_REPO")
	if repo == "" {
		repo = "/repo"
	}
	b, err := os.ReadFile(repo + "/" + name)
	if err != nil {
		return nil
	}
	return b
}
