package main

// C09: inputs.  Corpus of known-bad inputs, byte-level mutation of valid requests,
// random token soup, structural mutation of parsed documents (still parser-producible:
// the mutant is printed and parsed again before it is handed to an entry point).

import (
	"fmt"
	"strings"

	"github.com/graphql-go/graphql"
	"github.com/graphql-go/graphql/language/ast"
	"github.com/graphql-go/graphql/language/kinds"
	"github.com/graphql-go/graphql/language/parser"
	"github.com/graphql-go/graphql/language/printer"
	"github.com/graphql-go/graphql/language/source"
	"github.com/graphql-go/graphql/language/visitor"
)

// ---- corpus ----

func c09Nest(open, inner, close string, n int) string {
	return strings.Repeat(open, n) + inner + strings.Repeat(close, n)
}

func c09Corpus() []c09Input {
	var cs []c09Input
	add := func(entry string, req string, tags ...string) {
		cs = append(cs, c09Input{Entry: entry, Schema: "fixed", Req: []byte(req), Tags: tags})
	}
	pipeline := func(req string, tags ...string) {
		for _, e := range []string{"do", "subscribe", "cache", "cachenorm"} {
			add(e, req, tags...)
		}
	}
	noprint := func(req string, tags ...string) {
		for _, e := range []string{"do", "subscribe", "cache"} {
			cs = append(cs, c09Input{Entry: e, Schema: "fixed", Req: []byte(req), Tags: tags, NoPrint: true})
		}
	}
	direct := func(req string, tags ...string) {
		for _, e := range []string{"validate", "plan", "execute", "executeplan", "execsub"} {
			add(e, req, tags...)
		}
	}
	// confirmed defects of the original snapshot (all repaired by fix: commits)
	pipeline(`query($a: ) { s }`, "nil-variable-type")
	pipeline(`query($a: [Int}) { s }`, "nil-variable-type")
	pipeline(`query($a: ]) { s }`, "nil-variable-type")
	direct(`{ ...F } fragment F on Q { a { ...F } }`, "cycle-through-field")
	direct(`{ a { ...F } } fragment F on Q { a { ...G } } fragment G on Q { i a { ...F } }`, "cycle-through-field")
	direct(`{ ...F } fragment F on Q { as { ... on Q { ...F } } }`, "cycle-through-field")
	pipeline(`{ ...F } fragment F on Q { a { ...F } }`, "cycle-through-field")
	direct(`{ s ...F } fragment F on A0 { s }`, "unknown-type-condition")
	direct(`{ s ... on A0 { s } a { ... on Int { i } ... on In { i } } }`, "unknown-type-condition")
	pipeline("{ s(x: \"\"\"a \\\"\"\" b\"\"\") }", "block-string")
	pipeline("{ s(x: \"\"\"", "block-string", "unterminated")
	pipeline("{ s(x: \"\"\"\\", "block-string", "unterminated")
	// list literals with an ill-typed element: rejected by validation, also behind the normalising cache
	pipeline(`{ s(l: ["a"]) }`, "invalid-list-literal")
	pipeline(`{ s(ll: [[[[1]]]], l: [1, [2]]) }`, "invalid-list-literal")
	pipeline(`{ s(o: {d: [{a: "x"}], l: [[1, "2"]]}) }`, "invalid-list-literal")
	// same-level cycles are executable; with directives on the spread too
	direct(`{ ...F } fragment F on Q { s ...F }`, "cycle-same-level")
	direct(`{ ...F } fragment F on Q { s ...F @include(if: true) }`, "cycle-same-level", "spread-directive")
	direct(`query ($v: Boolean = true) { ...F } fragment F on Q { s ...G @include(if: $v) } fragment G on Q { i ...F @skip(if: false) ...G @include(if: $v) }`, "cycle-same-level", "spread-directive")
	direct(`{ a { ...F @skip(if: false) } } fragment F on Q { ... on Q { ...F @include(if: true) id } }`, "cycle-same-level", "spread-directive")
	// depth
	// (printer.Print is far from linear in the nesting depth -- 800 levels take half a minute -- so the
	// pipeline entries, which also print, get 250 levels and the deeper ones skip the printer)
	pipeline("{"+c09Nest("a{", "id", "}", 150)+"}", "deep-selection")
	noprint("{"+c09Nest("a{", "id", "}", 500)+"}", "deep-selection")
	direct("{"+c09Nest("a{", "id", "}", 500)+"}", "deep-selection")
	noprint("{ s(ll: "+c09Nest("[", "1", "]", 500)+") }", "deep-list-literal")
	noprint("{ s(o: "+c09Nest("{c: ", "{a: 1}", "}", 300)+") }", "deep-object-literal")
	pipeline("{ s(o: "+c09Nest("{c: ", "{a: 1}", "}", 100)+") }", "deep-object-literal")
	pipeline("{ any(v: "+c09Nest("[", "1", "]", 500)+") }", "deep-list-literal")
	pipeline("query ($v: "+c09Nest("[", "Int", "]", 500)+") { s }", "deep-type")
	pipeline("{"+c09Nest("... {", "id", "}", 150)+"}", "deep-inline")
	noprint("{"+c09Nest("... {", "id", "}", 500)+"}", "deep-inline")
	pipeline("{ s"+strings.Repeat(" @skip(if: false)", 500)+" }", "many-directives")
	pipeline(strings.Repeat("{", 100*1024), "100KB-braces", "unterminated")
	pipeline(strings.Repeat("[", 100*1024), "100KB-brackets")
	pipeline("{ s(ll: "+strings.Repeat("[", 4*1024)+") }", "unterminated", "deep-list-literal")
	pipeline("{"+strings.Repeat(" s", 4000)+" }", "wide-selection")
	noprint("{"+c09Nest("a{", "id", "}", 500)+"}", "deep-selection")
	// numbers
	pipeline(`{ s(f: 1e999, i: 1) }`, "huge-number")
	pipeline(`{ s(f: -1e999) any(v: 1e999) }`, "huge-number")
	pipeline(`{ s(i: `+strings.Repeat("9", 400)+`) any(v: `+strings.Repeat("9", 400)+`) }`, "huge-number")
	pipeline(`{ s(f: `+strings.Repeat("9", 400)+`.5e-400, id: `+strings.Repeat("9", 400)+`) }`, "huge-number")
	pipeline(`{ as(n: -2147483649) { id } s(i: 2147483648) }`, "huge-number")
	pipeline(`{ s(i: 0123, f: 1., l: [1e]) }`, "bad-number")
	// bytes
	pipeline("{ s(x: \"\xff\xfe\") }", "invalid-utf8")
	pipeline("{ \xc3\x28 }", "invalid-utf8")
	pipeline("\xed\xa0\x80{ s }", "invalid-utf8")
	pipeline("{ s \x00 }", "nul")
	pipeline("{ s(x: \"a\x00b\") }", "nul")
	pipeline("\x00", "nul")
	pipeline(`{ s(x: "\uD800") }`, "lone-surrogate")
	pipeline(`{ s(x: "\uDC00\uD800") y: s(x: "\uD83D\uDE00") }`, "lone-surrogate")
	pipeline(`{ s(x: "\u12") }`, "bad-escape")
	pipeline(`{ s(x: "\uZZZZ \q") }`, "bad-escape")
	pipeline("\ufeff{ s }", "bom")
	pipeline("\ufeff\ufeff{ s \ufeff }\ufeff", "bom")
	pipeline("{ s } \ufeff # \ufeff", "bom")
	pipeline(`{ s(x: "abc`, "unterminated")
	pipeline("{ s(x: \"abc\n\") }", "unterminated")
	pipeline("{ s # comment without end", "unterminated")
	pipeline("#", "unterminated")
	pipeline("", "empty")
	pipeline(" \t\n,,,", "empty")
	pipeline("{ s(x: \"é\") # é😀\n zz }", "multibyte")
	pipeline("{ s } }", "stray")
	pipeline("...", "stray")
	pipeline("fragment on on on { on }", "keywords")
	pipeline("{ s } type T { a: Int } extend type Q { z: Int } schema { query: Q } directive @d on FIELD scalar X enum E { A } input I { a: Int = 1 } union V = Q interface J { a: Int }", "type-system-definitions")
	direct("{ s } type T { a: Int } extend type Q { z: Int } schema { query: Q } directive @d on FIELD", "type-system-definitions")
	direct("type T { a: Int }", "type-system-definitions", "no-operation")
	direct("fragment F on Q { s }", "no-operation")
	direct("{ s } { i }", "duplicate-operations")
	direct("query A { s } query A { i }", "duplicate-operations")
	direct("query ($v: Q, $w: Nope, $x: [Node!]!, $v: Int) { s(x: $v, i: $w) }", "non-input-variable")
	direct("{ s(zz: 1, x: $undefined, i: {a: 1}, l: 5, e: \"RED\", o: [1], o2: {}) a i { id } }", "bad-arguments")
	direct("{ s @nope @skip @include(if: \"x\") @skip(if: $undef) a @skip(zz: 1) { id } }", "bad-directives")
	direct("subscription { tick nosub }", "subscription")
	direct("subscription { ...X }", "subscription", "unknown-fragment")
	direct("subscription { nosub }", "subscription")
	direct("subscription { suberr }", "subscription")
	direct("subscription { subpanic }", "subscription")
	direct("subscription { zz }", "subscription")
	direct("subscription { tick @skip(if: true) }", "subscription")
	direct("{ s }", "non-subscription-to-execsub")
	direct("mutation { set(v: 1) }", "non-subscription-to-execsub")
	// thunks
	pipeline("{ thunk2 }", "nested-thunk")
	pipeline("{ a { thunk2 thunkobj { thunk2 } } as { thunk2 } }", "nested-thunk")
	pipeline("mutation { q { thunk2 } }", "nested-thunk")
	// zero values
	for _, e := range []string{"do", "subscribe", "cache", "validate", "plan", "execute", "executeplan", "execsub"} {
		cs = append(cs, c09Input{Entry: e, Schema: "zero", Req: []byte("{ s }"), Tags: []string{"zero-schema"}})
		cs = append(cs, c09Input{Entry: e, Schema: "zero", Req: []byte("{ __schema { types { name } } __typename }"), Tags: []string{"zero-schema"}})
		cs = append(cs, c09Input{Entry: e, Schema: "zero", Req: []byte("mutation { s } subscription S { s }"), Op: "S", Tags: []string{"zero-schema"}})
		cs = append(cs, c09Input{Entry: e, Schema: "fixed", Req: []byte("{ s a { id } }"), NilCtx: true, RootNil: true, Tags: []string{"nil-context", "nil-root"}})
	}
	// operations of a kind the schema does not support (query root only), with fragments at the root
	for _, e := range []string{"do", "subscribe", "cache", "cachenorm", "validate", "plan", "execute", "executeplan", "execsub"} {
		for _, req := range []string{
			`mutation { set(v: 1) }`, `subscription { tick }`, `mutation { ... on Q { s } }`,
			`mutation { ... on Node { id } }`, `subscription { ...F } fragment F on U { __typename }`,
			`mutation M { ...F } fragment F on Node { id self { id } }`,
			`mutation { ... { s } ... on R { r } ...G } fragment G on Q { a { ... on Node { id } } }`,
			`query A { s } mutation B { ... on Node { id } } subscription C { ... on U { __typename } }`,
		} {
			cs = append(cs, c09Input{Entry: e, Schema: "queryonly", Req: []byte(req), Tags: []string{"unsupported-operation-kind"}})
			if strings.HasPrefix(req, "query A") {
				cs = append(cs, c09Input{Entry: e, Schema: "queryonly", Req: []byte(req), Op: "B", Tags: []string{"unsupported-operation-kind"}})
				cs = append(cs, c09Input{Entry: e, Schema: "queryonly", Req: []byte(req), Op: "C", Tags: []string{"unsupported-operation-kind"}})
			}
		}
	}
	// API-level cases with their own driver
	api := func(name string, f func(in *c09Input) *c09Obs, tags ...string) {
		cs = append(cs, c09Input{Entry: "api-" + name, Schema: "fixed", Req: []byte(name), run: f, Tags: tags})
	}
	for _, act := range []string{visitor.ActionSkip, visitor.ActionBreak, visitor.ActionNoChange} {
		act := act
		for _, text := range []string{"{ s }", "{ a { id } ...F } fragment F on Q { s(x: 1) @skip(if: true) }"} {
			text := text
			api("visit-"+act+"-root-enter", func(in *c09Input) *c09Obs { return c09VisitRoot(text, act, true, false) }, "visitor", "root-"+act)
			api("visit-"+act+"-root-kindfunc", func(in *c09Input) *c09Obs { return c09VisitRoot(text, act, true, true) }, "visitor", "root-"+act)
			api("visit-"+act+"-root-leave", func(in *c09Input) *c09Obs { return c09VisitRoot(text, act, false, false) }, "visitor", "root-"+act)
		}
	}
	api("nil-arguments", c09NilArguments, "nil-arguments")
	return cs
}

func c09VisitRoot(text, action string, onEnter, byKind bool) *c09Obs {
	o := &c09Obs{extra: map[string]interface{}{"document": text, "action": action}, jsonOK: true, keysOK: true}
	doc, err := parser.Parse(parser.ParseParams{Source: source.NewSource(&source.Source{Body: []byte(text)})})
	if err != nil {
		o.fail = "harness: corpus document does not parse"
		return o
	}
	calls := 0
	fn := func(p visitor.VisitFuncParams) (string, interface{}) {
		calls++
		if n, ok := p.Node.(ast.Node); ok && n.GetKind() == kinds.Document {
			return action, nil
		}
		return visitor.ActionNoChange, nil
	}
	opts := &visitor.VisitorOptions{}
	switch {
	case byKind && onEnter:
		opts.KindFuncMap = map[string]visitor.NamedVisitFuncs{kinds.Document: {Kind: fn}}
	case onEnter:
		opts.Enter = fn
	default:
		opts.Leave = fn
	}
	if pm, hung := c09Timed(len(text), func() { visitor.Visit(doc, opts, nil) }); pm != "" || hung {
		o.fail = c09FailOf("visitor.Visit with a user visitor returning "+action+" for the root node", pm, hung)
		return o
	}
	o.shape, o.hasData = true, true
	o.extra["callbacks"] = calls
	o.nt = true
	return o
}

// nil documents, nil plans, nil schema pointers, nil maps
func c09NilArguments(in *c09Input) *c09Obs {
	o := &c09Obs{extra: map[string]interface{}{}, jsonOK: true, keysOK: true}
	s := c09FixedSchema()
	var rs []*graphql.Result
	steps := []struct {
		name string
		f    func()
	}{
		{"Execute(nil AST)", func() { rs = append(rs, graphql.Execute(graphql.ExecuteParams{Schema: *s})) }},
		{"ExecutePlan(nil plan)", func() { rs = append(rs, graphql.ExecutePlan(nil, graphql.ExecuteParams{})) }},
		{"PlanQuery(nil schema)", func() {
			d, _ := c09Parse([]byte("{s}"))
			if p, err := graphql.PlanQuery(nil, d, ""); p != nil || err == nil {
				panic("plan without schema")
			}
		}},
		{"PlanQuery(nil doc)", func() {
			if p, err := graphql.PlanQuery(s, nil, ""); p != nil || err == nil {
				panic("plan without document")
			}
		}},
		{"ValidateDocument(nil doc)", func() {
			if vr := graphql.ValidateDocument(s, nil, nil); vr.IsValid || len(vr.Errors) == 0 {
				panic("nil document is valid")
			}
		}},
		{"ValidateDocument(nil schema)", func() {
			d, _ := c09Parse([]byte("{s}"))
			if vr := graphql.ValidateDocument(nil, d, nil); vr.IsValid || len(vr.Errors) == 0 {
				panic("valid without schema")
			}
		}},
		{"ExecuteSubscription(nil AST)", func() {
			for r := range graphql.ExecuteSubscription(graphql.ExecuteParams{Schema: *s}) {
				rs = append(rs, r)
			}
		}},
		{"PlanCache(nil).Get", func() {
			var pc *graphql.PlanCache
			pr := pc.Get(s, "{s}", "")
			if pr.Plan == nil {
				panic("nil cache does not plan")
			}
			pr = pc.Get(nil, "{s}", "")
			if pr.Plan != nil || len(pr.Errors) == 0 {
				panic("plan without schema")
			}
		}},
		{"printer.Print(nil)", func() { printer.Print(nil) }},
		{"parser.Parse(nil source)", func() { parser.Parse(parser.ParseParams{}) }},
		{"parser.Parse(string source)", func() { parser.Parse(parser.ParseParams{Source: "{ s }"}) }},
		{"parser.ParseValue", func() {
			parser.ParseValue(parser.ParseParams{Source: "[1, {a: $v}, \"\\u00e9\"]"})
			parser.ParseValue(parser.ParseParams{Source: "[1, "})
		}},
		{"Do(empty Params)", func() { rs = append(rs, graphql.Do(graphql.Params{})) }},
	}
	for _, st := range steps {
		if pm, hung := c09Timed(100, st.f); pm != "" || hung {
			o.fail = c09FailOf(st.name, pm, hung)
			return o
		}
	}
	c09ShapeAll(o, rs)
	o.nt = true
	return o
}

// ---- byte-level mutation ----

var c09Dict = []string{"{", "}", "(", ")", "[", "]", ":", "!", "$", "@", "=", "|", "...", "\"", "\"\"\"", "\\", "\\u", "\\uD800", "\\\"\"\"", "#", "\n", "\r", ",", " ",
	"query", "mutation", "subscription", "fragment", "on", "true", "false", "null", "type", "extend", "schema", "input", "enum", "union", "interface", "scalar", "directive", "implements",
	"@skip(if: ", "@include(if: ", "$v", "Q", "Node", "U", "In", "Int", "s", "a", "id", "as", "__typename", "__schema", "__type", "...F", "fragment F on Q {", "... on ",
	"1e999", "-0", "0.0e+", "99999999999999999999", "\xef\xbb\xbf", "\x00", "\xff", "\xc0\xaf", "\xed\xa0\x80", "é", "😀", "\u2028", "\"\\u0000\"", "{a{a{a{a{", "[[[[[[", "}}}}}}"}

func c09MutateBytes(r *Rng, b []byte, seeds [][]byte) []byte {
	b = append([]byte(nil), b...)
	k := 1 + r.Intn(4)
	for ; k > 0; k-- {
		switch r.Intn(9) {
		case 0: // flip a bit
			if len(b) > 0 {
				b[r.Intn(len(b))] ^= 1 << uint(r.Intn(8))
			}
		case 1: // overwrite with an interesting byte
			if len(b) > 0 {
				b[r.Intn(len(b))] = []byte{0, 0xff, '"', '{', '}', '\\', 'u', '\n', '#', '$', '@', '(', ')', '[', ']', ':', '!', 0x80, 0xc3, '.', '0', '-', 'e'}[r.Intn(23)]
			}
		case 2: // delete a range
			if len(b) > 1 {
				i := r.Intn(len(b))
				n := 1 + r.Intn(8)
				if i+n > len(b) {
					n = len(b) - i
				}
				b = append(b[:i], b[i+n:]...)
			}
		case 3: // duplicate a range
			if len(b) > 0 {
				i := r.Intn(len(b))
				n := 1 + r.Intn(16)
				if i+n > len(b) {
					n = len(b) - i
				}
				rep := 1 + r.Intn(3)
				if r.Chance(5) {
					rep = 200
				}
				ins := []byte(strings.Repeat(string(b[i:i+n]), rep))
				b = append(b[:i], append(ins, b[i:]...)...)
			}
		case 4, 5: // insert a dictionary token
			i := r.Intn(len(b) + 1)
			b = append(b[:i], append([]byte(r.Pick(c09Dict)), b[i:]...)...)
		case 6: // truncate
			if len(b) > 0 {
				b = b[:r.Intn(len(b))]
			}
		case 7: // splice with another seed
			o := seeds[r.Intn(len(seeds))]
			if len(o) > 0 && len(b) > 0 {
				b = append(append([]byte(nil), b[:r.Intn(len(b))]...), o[r.Intn(len(o)):]...)
			}
		case 8: // swap two bytes
			if len(b) > 1 {
				i, j := r.Intn(len(b)), r.Intn(len(b))
				b[i], b[j] = b[j], b[i]
			}
		}
	}
	return b
}

func c09SeedTexts() [][]byte {
	var out [][]byte
	for _, s := range c09Seeds {
		out = append(out, []byte(s))
	}
	return out
}

var c09Kitchen [][]byte

func c09KitchenSinks() [][]byte {
	if c09Kitchen == nil {
		c09Kitchen = [][]byte{}
		for _, f := range []string{"kitchen-sink.graphql", "schema-kitchen-sink.graphql"} {
			if b := c09RepoFile(f); b != nil {
				c09Kitchen = append(c09Kitchen, b)
			}
		}
	}
	return c09Kitchen
}

func c09PickVars(r *Rng) map[string]interface{} {
	return c09SeedVars[r.Intn(len(c09SeedVars))]
}

func c09PickOp(r *Rng) string {
	return []string{"", "", "", "A", "B", "Q1", "M", "S", "nope", "", "é", "\x00"}[r.Intn(12)]
}

func c09BytesInput(r *Rng) *c09Input {
	seeds := c09SeedTexts()
	in := &c09Input{Schema: "fixed"}
	if r.Chance(12) {
		in.Schema = "queryonly"
	}
	in.Entry = []string{"do", "do", "do", "subscribe", "cache", "cachenorm", "parseprint"}[r.Intn(7)]
	switch c := r.Intn(100); {
	case c < 8:
		// random token soup
		n := 1 + r.Intn(40)
		var sb strings.Builder
		for i := 0; i < n; i++ {
			sb.WriteString(r.Pick(c09Dict))
			if r.Chance(30) {
				sb.WriteByte(' ')
			}
		}
		in.Req = []byte(sb.String())
		in.Tags = append(in.Tags, "token-soup")
	case c < 12:
		// pure random bytes
		n := r.Intn(64)
		b := make([]byte, n)
		for i := range b {
			b[i] = byte(r.Next())
		}
		in.Req = b
		in.Tags = append(in.Tags, "random-bytes")
	case c < 22 && len(c09KitchenSinks()) > 0:
		ks := c09KitchenSinks()
		in.Req = c09MutateBytes(r, ks[r.Intn(len(ks))], append(seeds, ks...))
		in.Entry = []string{"parseprint", "parseprint", "do", "cache", "cachenorm"}[r.Intn(5)]
		in.Tags = append(in.Tags, "kitchen-sink-mutant")
	case c < 30:
		// a valid request as is, with random operation name / variables / root
		in.Req = seeds[r.Intn(len(seeds))]
		in.Tags = append(in.Tags, "valid-seed")
	case c < 42:
		// a generated valid document over a generated schema, run against the fixed schema (unknown fields/types) after byte mutation
		gr := NewRng(r.Next(), 1)
		s := xGenSchema(gr)
		doc, _ := xGenDoc(gr, s, xGenOpts{DynDirPct: 50, DirPct: 25, FragPct: 20, InlinePct: 15, VarArgPct: 30, MaxDepth: 3, MultiOp: gr.Chance(30)})
		in.Req = []byte(doc.text())
		if r.Bool() {
			in.Req = c09MutateBytes(r, in.Req, seeds)
		}
		in.Tags = append(in.Tags, "generated-doc-mutant")
	default:
		in.Req = c09MutateBytes(r, seeds[r.Intn(len(seeds))], seeds)
		in.Tags = append(in.Tags, "seed-mutant")
	}
	in.Op = c09PickOp(r)
	in.Vars = c09PickVars(r)
	in.RootNil = r.Chance(20)
	in.NilCtx = r.Chance(20)
	return in
}

// ---- structural mutation of parsed documents ----

func c09AstInput(r *Rng) *c09Input {
	seeds := c09SeedTexts()
	in := &c09Input{Schema: "fixed"}
	if r.Chance(12) {
		in.Schema = "queryonly"
	}
	in.Entry = []string{"validate", "plan", "execute", "execute", "executeplan", "execsub"}[r.Intn(6)]
	in.Req = seeds[r.Intn(len(seeds))]
	in.MutSeed = r.Next()
	in.NMut = 1 + r.Intn(3)
	in.Op = c09PickOp(r)
	if r.Chance(50) {
		in.Op = ""
	}
	in.Vars = c09PickVars(r)
	in.RootNil = r.Chance(15)
	in.NilCtx = r.Chance(15)
	in.Tags = []string{"structural-mutant"}
	return in
}

func c09Name(s string) *ast.Name { return ast.NewName(&ast.Name{Value: s}) }

func c09ParseSnippet(s string) *ast.Document {
	d, err := parser.Parse(parser.ParseParams{Source: source.NewSource(&source.Source{Body: []byte(s)})})
	if err != nil {
		return nil
	}
	return d
}

// all selection sets of a document (operation, fragment, field and inline fragment bodies)
func c09SelectionSets(doc *ast.Document) (sets []*ast.SelectionSet, inFragment []string) {
	var walk func(ss *ast.SelectionSet, frag string)
	walk = func(ss *ast.SelectionSet, frag string) {
		if ss == nil {
			return
		}
		sets = append(sets, ss)
		inFragment = append(inFragment, frag)
		for _, sel := range ss.Selections {
			switch s := sel.(type) {
			case *ast.Field:
				walk(s.SelectionSet, frag)
			case *ast.InlineFragment:
				walk(s.SelectionSet, frag)
			}
		}
	}
	for _, d := range doc.Definitions {
		switch x := d.(type) {
		case *ast.OperationDefinition:
			walk(x.SelectionSet, "")
		case *ast.FragmentDefinition:
			n := ""
			if x.Name != nil {
				n = x.Name.Value
			}
			walk(x.SelectionSet, n)
		}
	}
	return
}

func c09Fields(doc *ast.Document) (fs []*ast.Field) {
	sets, _ := c09SelectionSets(doc)
	for _, ss := range sets {
		for _, sel := range ss.Selections {
			if f, ok := sel.(*ast.Field); ok {
				fs = append(fs, f)
			}
		}
	}
	return
}

func c09FragNames(doc *ast.Document) (ns []string) {
	for _, d := range doc.Definitions {
		if f, ok := d.(*ast.FragmentDefinition); ok && f.Name != nil {
			ns = append(ns, f.Name.Value)
		}
	}
	return
}

func c09Directive(r *Rng) *ast.Directive {
	snips := []string{"@include(if: true)", "@skip(if: false)", "@skip(if: true)", "@include(if: $b)", "@skip(if: $undef)", "@nope", "@skip", "@include(if: \"x\")", "@skip(if: false, if: true)", "@deprecated", "@include(zz: 1)"}
	d := c09ParseSnippet("{ s " + r.Pick(snips) + " }")
	if d == nil {
		return nil
	}
	return d.Definitions[0].(*ast.OperationDefinition).SelectionSet.Selections[0].(*ast.Field).Directives[0]
}

func c09ApplyMutation(r *Rng, doc *ast.Document) string {
	sets, inFrag := c09SelectionSets(doc)
	fields := c09Fields(doc)
	frags := c09FragNames(doc)
	pickSet := func() (int, *ast.SelectionSet) {
		if len(sets) == 0 {
			return -1, nil
		}
		i := r.Intn(len(sets))
		return i, sets[i]
	}
	switch r.Intn(22) {
	case 0, 1, 2: // add a spread: own fragment (cycle), other fragment, unknown fragment
		i, ss := pickSet()
		if ss == nil {
			return "none"
		}
		name := "Unknown"
		switch {
		case inFrag[i] != "" && r.Chance(60):
			name = inFrag[i]
		case len(frags) > 0 && r.Chance(70):
			name = frags[r.Intn(len(frags))]
		}
		sp := ast.NewFragmentSpread(&ast.FragmentSpread{Name: c09Name(name)})
		if r.Chance(40) {
			if d := c09Directive(r); d != nil {
				sp.Directives = []*ast.Directive{d}
			}
		}
		ss.Selections = append(ss.Selections, sp)
		return "spread-" + name
	case 3: // a new fragment reaching itself through a field, and a spread of it
		_, ss := pickSet()
		d := c09ParseSnippet(r.Pick([]string{
			"fragment Z on Q { a { ...Z } }", "fragment Z on Q { i ...Y } fragment Y on Q { a { id ...Z } }",
			"fragment Z on Node { self { ... on Q { ...Z } } }", "fragment Z on Q { ...Z ...Z @skip(if: false) s }",
			"fragment Z on U { ... on Q { us { ...Z } } }", "fragment Z on Q { as { a { ...Y } } } fragment Y on Q { ...Z }"}))
		if d == nil || ss == nil {
			return "none"
		}
		doc.Definitions = append(doc.Definitions, d.Definitions...)
		ss.Selections = append(ss.Selections, ast.NewFragmentSpread(&ast.FragmentSpread{Name: c09Name("Z")}))
		return "cyclic-fragment"
	case 4: // change a type condition
		tn := r.Pick([]string{"Nope", "Int", "In", "Color", "U", "Node", "R", "M", "__Schema", "Any"})
		for _, d := range doc.Definitions {
			if f, ok := d.(*ast.FragmentDefinition); ok && r.Bool() {
				f.TypeCondition = ast.NewNamed(&ast.Named{Name: c09Name(tn)})
				return "typecond-" + tn
			}
		}
		for _, ss := range sets {
			for _, sel := range ss.Selections {
				if f, ok := sel.(*ast.InlineFragment); ok {
					f.TypeCondition = ast.NewNamed(&ast.Named{Name: c09Name(tn)})
					return "typecond-" + tn
				}
			}
		}
		return "none"
	case 5: // rename a field
		if len(fields) == 0 {
			return "none"
		}
		fields[r.Intn(len(fields))].Name = c09Name(r.Pick([]string{"zz", "a", "s", "id", "__typename", "__schema", "__type", "us", "set", "tick", "thunk2", "nnfail", "panic"}))
		return "rename-field"
	case 6: // drop a sub-selection / add one to a leaf
		if len(fields) == 0 {
			return "none"
		}
		f := fields[r.Intn(len(fields))]
		if f.SelectionSet != nil {
			f.SelectionSet = nil
			return "drop-subselection"
		}
		d := c09ParseSnippet("{ x { id zz a { i } } }")
		f.SelectionSet = d.Definitions[0].(*ast.OperationDefinition).SelectionSet.Selections[0].(*ast.Field).SelectionSet
		return "add-subselection"
	case 7: // type-system definitions mixed in
		d := c09ParseSnippet(r.Pick([]string{"type T { a: Int }", "extend type Q { z: Int }", "schema { query: Q }", "directive @d on FIELD", "enum E { A B }", "input I { a: Int = 1 }", "scalar X", "union V = Q | R", "interface J { a(x: Int = 1): Int }"}))
		if d == nil {
			return "none"
		}
		if r.Bool() {
			doc.Definitions = append(d.Definitions, doc.Definitions...)
		} else {
			doc.Definitions = append(doc.Definitions, d.Definitions...)
		}
		return "type-system-definition"
	case 8: // remove the operations
		var keep []ast.Node
		for _, d := range doc.Definitions {
			if _, ok := d.(*ast.OperationDefinition); !ok {
				keep = append(keep, d)
			}
		}
		if len(keep) == 0 {
			return "none"
		}
		doc.Definitions = keep
		return "no-operation"
	case 9: // duplicate a definition
		if len(doc.Definitions) == 0 {
			return "none"
		}
		doc.Definitions = append(doc.Definitions, doc.Definitions[r.Intn(len(doc.Definitions))])
		return "duplicate-definition"
	case 10, 11: // variable definitions of odd types / defaults
		d := c09ParseSnippet("query (" + r.Pick([]string{"$x: Q", "$x: Nope", "$i: [Node!]!", "$b: Boolean! = 1", "$o: In = {a: \"s\", zz: 1}", "$x: String = $x", "$l: [Int!] = [1, null, \"a\"]",
			"$b: Boolean", "$x: String, $x: Int", "$o2: In2 = {}", "$e: Color = 7", "$any: Any = {a: [$b]}", "$ll: [[[Int]]] = 3", "$i: Int!", "$o: U"}) + ") { s }")
		if d == nil {
			return "none"
		}
		vds := d.Definitions[0].(*ast.OperationDefinition).VariableDefinitions
		for _, def := range doc.Definitions {
			if op, ok := def.(*ast.OperationDefinition); ok {
				if r.Bool() {
					op.VariableDefinitions = append(op.VariableDefinitions, vds...)
				} else {
					op.VariableDefinitions = vds
				}
				return "variable-definitions"
			}
		}
		return "none"
	case 12, 13: // arguments
		if len(fields) == 0 {
			return "none"
		}
		d := c09ParseSnippet("{ s(" + r.Pick([]string{"zz: 1", "x: $undefined", "i: {a: 1}", "l: 5", "e: \"RED\"", "o: [1]", "o2: {}", "x: 1, x: 2", "o: {c: {c: {c: {zz: 1}}}}", "i: 1.5", "b: 0",
			"o: $x", "l: [$i, null]", "any: $undefined", "ll: [[[\"s\"]]]", "n: -1", "v: {a: $b}", "id: [1]", "o: {a: 1, a: 2}"}) + ") }")
		if d == nil {
			return "none"
		}
		args := d.Definitions[0].(*ast.OperationDefinition).SelectionSet.Selections[0].(*ast.Field).Arguments
		f := fields[r.Intn(len(fields))]
		if r.Bool() {
			f.Arguments = append(f.Arguments, args...)
		} else {
			f.Arguments = args
		}
		return "arguments"
	case 14, 15: // directives anywhere
		d := c09Directive(r)
		if d == nil {
			return "none"
		}
		_, ss := pickSet()
		if ss == nil || len(ss.Selections) == 0 {
			return "none"
		}
		switch s := ss.Selections[r.Intn(len(ss.Selections))].(type) {
		case *ast.Field:
			s.Directives = append(s.Directives, d)
		case *ast.FragmentSpread:
			s.Directives = append(s.Directives, d)
		case *ast.InlineFragment:
			s.Directives = append(s.Directives, d)
		}
		return "directive"
	case 16: // operation kind
		for _, def := range doc.Definitions {
			if op, ok := def.(*ast.OperationDefinition); ok {
				op.Operation = r.Pick([]string{ast.OperationTypeQuery, ast.OperationTypeMutation, ast.OperationTypeSubscription})
				return "operation-kind-" + op.Operation
			}
		}
		return "none"
	case 17: // empty a selection set (the parser rejects "{}", printing then fails to re-parse: trivial)
		_, ss := pickSet()
		if ss == nil {
			return "none"
		}
		ss.Selections = nil
		return "empty-selection"
	case 18: // alias clash / duplicate keys
		_, ss := pickSet()
		if ss == nil || len(ss.Selections) == 0 {
			return "none"
		}
		d := c09ParseSnippet("{ " + r.Pick([]string{"s: a { id }", "a: s", "id: i", "i: as { i }", "s: __typename", "a: us { __typename }"}) + " }")
		ss.Selections = append(ss.Selections, d.Definitions[0].(*ast.OperationDefinition).SelectionSet.Selections...)
		return "alias-clash"
	case 19: // inline fragment wrapping
		i, ss := pickSet()
		if ss == nil {
			return "none"
		}
		inl := ast.NewInlineFragment(&ast.InlineFragment{SelectionSet: ast.NewSelectionSet(&ast.SelectionSet{Selections: ss.Selections})})
		if r.Bool() {
			inl.TypeCondition = ast.NewNamed(&ast.Named{Name: c09Name(r.Pick([]string{"Q", "Node", "U", "R", "Nope"}))})
		}
		if inFrag[i] != "" && r.Bool() {
			inl.SelectionSet.Selections = append(inl.SelectionSet.Selections, ast.NewFragmentSpread(&ast.FragmentSpread{Name: c09Name(inFrag[i])}))
		}
		ss.Selections = []ast.Selection{inl}
		return "wrap-inline"
	case 20: // rename a fragment (spreads now dangle) or an operation
		for _, def := range doc.Definitions {
			switch x := def.(type) {
			case *ast.FragmentDefinition:
				if r.Bool() {
					x.Name = c09Name(r.Pick([]string{"F", "G", "Z", "Other"}))
					return "rename-fragment"
				}
			case *ast.OperationDefinition:
				if r.Chance(30) {
					x.Name = c09Name(r.Pick([]string{"A", "B", "S"}))
					return "rename-operation"
				}
			}
		}
		return "none"
	default: // nest the whole operation below a(...) several times
		for _, def := range doc.Definitions {
			if op, ok := def.(*ast.OperationDefinition); ok && op.SelectionSet != nil {
				for k := 0; k < 1+r.Intn(40); k++ {
					op.SelectionSet = ast.NewSelectionSet(&ast.SelectionSet{Selections: []ast.Selection{
						ast.NewField(&ast.Field{Name: c09Name("a"), SelectionSet: op.SelectionSet})}})
				}
				return "nest-under-field"
			}
		}
		return "none"
	}
}

// parse the seed, mutate the AST, print and parse again: what the entry point gets is an
// AST the parser produced.  Returns nil when the mutant no longer parses.
func c09MutatedDoc(in *c09Input) (*ast.Document, string) {
	doc, err := c09Parse(in.Req)
	if err != nil {
		return nil, "seed does not parse"
	}
	if in.NMut == 0 {
		return doc, ""
	}
	r := NewRng(in.MutSeed, 7)
	var applied []string
	for k := 0; k < in.NMut; k++ {
		applied = append(applied, c09ApplyMutation(r, doc))
	}
	var printed interface{}
	if pm := c09Guard(func() { printed = printer.Print(doc) }); pm != "" {
		return nil, "mutant not printable: " + pm
	}
	text, _ := printed.(string)
	doc2, err := c09Parse([]byte(text))
	if err != nil {
		return nil, fmt.Sprintf("mutations %v; printed mutant does not parse", applied)
	}
	if len(text) > 500 {
		text = text[:500] + "..."
	}
	return doc2, fmt.Sprintf("mutations %v: %s", applied, strings.Join(strings.Fields(text), " "))
}
