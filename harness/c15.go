package main

// C15: graphql.Subscribe / ExecuteSubscription driven through gates.
//
// One driver goroutine performs the visible actions of a schedule one after the other
// (B begin = call Subscribe, E emit next event into the source channel, X close the source,
// C cancel the context, R the consumer receives once) and records what it saw; the source channel
// is buffered so an emit never waits for the forwarder.  In "sync" mode the driver waits after
// every action until all library goroutines are blocked or gone (read from the goroutine dump),
// which pins states such as "a result is pending on the send"; in "race" mode it does not.
// After the schedule the consumer stops for good, the context is cancelled (if it was not) and
// the driver waits for every library goroutine to disappear: one that stays is a stuck goroutine.

import (
	"context"
	"encoding/json"
	"errors"
	"fmt"
	"runtime"
	"strings"
	"time"

	"github.com/graphql-go/graphql"
	"github.com/graphql-go/graphql/language/ast"
	"github.com/graphql-go/graphql/language/parser"
	"github.com/graphql-go/graphql/language/source"
)

func init() { props["C15"] = genC15 }

const (
	c15RecvBudget  = 5 * time.Second // a receive that the model says must complete
	c15QuietBudget = 3 * time.Second // library goroutines must be gone after cancellation
	c15SyncBudget  = 40 * time.Millisecond
)

// ---- goroutine dump inspection ----

// c15LibGoroutines returns (number of goroutines with a frame of the library, how many of them are
// not parked in a blocking operation, the dump of the library goroutines).
func c15LibGoroutines() (int, int, string) {
	buf := make([]byte, 1<<16)
	for {
		n := runtime.Stack(buf, true)
		if n < len(buf) {
			buf = buf[:n]
			break
		}
		buf = make([]byte, 2*len(buf))
	}
	total, running := 0, 0
	var sb strings.Builder
	for _, g := range strings.Split(string(buf), "\n\n") {
		if !strings.Contains(g, "github.com/graphql-go/graphql.") && !strings.Contains(g, "github.com/graphql-go/graphql/") {
			continue
		}
		// the goroutine taking the dump is the driver; it has no library frame unless it is inside a library call
		hdr := g
		if i := strings.IndexByte(g, '\n'); i >= 0 {
			hdr = g[:i]
		}
		if strings.Contains(hdr, "[running]") && strings.Contains(g, "main.c15LibGoroutines") {
			continue
		}
		total++
		if !(strings.Contains(hdr, "[select") || strings.Contains(hdr, "[chan send") || strings.Contains(hdr, "[chan receive")) {
			running++
		}
		sb.WriteString(g)
		sb.WriteString("\n\n")
	}
	return total, running, sb.String()
}

// c15Sync waits (best effort) until every library goroutine is parked or gone.
func c15Sync() {
	deadline := time.Now().Add(c15SyncBudget)
	for i := 0; ; i++ {
		runtime.Gosched()
		_, running, _ := c15LibGoroutines()
		if running == 0 || time.Now().After(deadline) {
			return
		}
		if i > 3 {
			time.Sleep(50 * time.Microsecond)
		}
	}
}

// c15WaitQuiet waits until no more than base library goroutines exist.
func c15WaitQuiet(base int, budget time.Duration) (bool, string) {
	deadline := time.Now().Add(budget)
	sleep := 20 * time.Microsecond
	for {
		runtime.Gosched()
		n, _, dump := c15LibGoroutines()
		if n <= base {
			return true, ""
		}
		if time.Now().After(deadline) {
			return false, dump
		}
		time.Sleep(sleep)
		if sleep < 5*time.Millisecond {
			sleep *= 2
		}
	}
}

// ---- schema ----

type c15Panic struct{ s string }

var c15SubscribeHook func(p graphql.ResolveParams) (interface{}, error)

func c15Schema() graphql.Schema {
	tick := graphql.NewObject(graphql.ObjectConfig{Name: "Tick", Fields: graphql.Fields{
		"v": &graphql.Field{Type: graphql.Int},
		"s": &graphql.Field{Type: graphql.String},
		"bad": &graphql.Field{Type: graphql.Int, Resolve: func(p graphql.ResolveParams) (interface{}, error) {
			if m, ok := p.Source.(map[string]interface{}); ok {
				if m["boom"] == true {
					return nil, fmt.Errorf("boom %v", m["v"])
				}
				return m["v"], nil
			}
			return nil, nil
		}},
	}})
	q := graphql.NewObject(graphql.ObjectConfig{Name: "Query", Fields: graphql.Fields{
		"q": &graphql.Field{Type: graphql.Int, Resolve: func(p graphql.ResolveParams) (interface{}, error) { return 1, nil }},
	}})
	sub := graphql.NewObject(graphql.ObjectConfig{Name: "Subscription", Fields: graphql.Fields{
		"tick": &graphql.Field{Type: tick,
			Args: graphql.FieldConfigArgument{"tag": &graphql.ArgumentConfig{Type: graphql.String}},
			Resolve: func(p graphql.ResolveParams) (interface{}, error) {
				if m, ok := p.Source.(map[string]interface{}); ok {
					if m["rootfail"] == true {
						return nil, fmt.Errorf("root failure %v", m["v"])
					}
					return m, nil
				}
				return p.Source, nil
			},
			Subscribe: func(p graphql.ResolveParams) (interface{}, error) { return c15SubscribeHook(p) },
		},
		"nosub": &graphql.Field{Type: tick, Resolve: func(p graphql.ResolveParams) (interface{}, error) { return p.Source, nil }},
	}})
	s, err := graphql.NewSchema(graphql.SchemaConfig{Query: q, Subscription: sub})
	if err != nil {
		panic(err)
	}
	return s
}

// payload kinds: 0 plain, 1 a nested field fails, 2 the root field fails, 3 nil payload
func c15Payload(kind, i int) interface{} {
	switch kind {
	case 1:
		return map[string]interface{}{"v": i, "s": fmt.Sprintf("e%d", i), "boom": true}
	case 2:
		return map[string]interface{}{"v": i, "rootfail": true}
	case 3:
		return nil
	}
	return map[string]interface{}{"v": i, "s": fmt.Sprintf("e%d", i)}
}

const c15Query = `subscription S { tick(tag: "t") { v s bad } }`

func c15Parse(q string) *ast.Document {
	doc, err := parser.Parse(parser.ParseParams{Source: source.NewSource(&source.Source{Body: []byte(q), Name: "GraphQL request"})})
	if err != nil {
		panic(err)
	}
	return doc
}

func c15JSON(r *graphql.Result) string {
	if r == nil {
		return "<nil result>"
	}
	b, err := json.Marshal(r)
	if err != nil {
		return "<unmarshalable: " + err.Error() + ">"
	}
	return string(b)
}

// ---- one trial ----

type c15Trial struct {
	Front   int      `json:"front"`   // 0 ok, 1 does not parse, 2 does not validate
	Setup   int      `json:"setup"`   // 0 stream, 1 subscribe error, 2 non-channel value, 3 panic(non-error), 4 nil result, 5 panic(error), 6 unknown operation name, 7 field without Subscribe
	Kinds   []int    `json:"kinds"`   // payload kind per event
	Sched   string   `json:"sched"`   // actions
	Sync    bool     `json:"sync"`    // wait for library goroutines to park after every action
	Direct  bool     `json:"direct"`  // call ExecuteSubscription instead of Subscribe
	NilCtx  bool     `json:"nil_ctx"` // pass no context (only when the schedule has no cancel)
	Trace   string   `json:"trace"`
	Results []string `json:"results,omitempty"`
}

type c15Outcome struct {
	trace   []string
	fail    string
	cap     int
	stalled bool
	results []string
}

func c15Run(schema graphql.Schema, t *c15Trial) (o c15Outcome) {
	n := len(t.Kinds)
	payloads := make([]interface{}, n)
	expected := make([]string, n)
	doc := c15Parse(c15Query)
	for i := range payloads {
		payloads[i] = c15Payload(t.Kinds[i], i+1)
		expected[i] = c15JSON(graphql.Execute(graphql.ExecuteParams{Schema: schema, Root: payloads[i], AST: doc, OperationName: "S", Context: context.Background()}))
	}
	src := make(chan interface{}, n+1)
	var valueExpected string
	valuePayload := c15Payload(0, 77)
	if t.Setup == 2 {
		valueExpected = c15JSON(graphql.Execute(graphql.ExecuteParams{Schema: schema, Root: valuePayload, AST: doc, OperationName: "S", Context: context.Background()}))
	}
	c15SubscribeHook = func(p graphql.ResolveParams) (interface{}, error) {
		switch t.Setup {
		case 1:
			return nil, errors.New("cannot subscribe")
		case 2:
			return valuePayload, nil
		case 3:
			panic("subscribe panics with a string")
		case 4:
			return nil, nil
		case 5:
			panic(errors.New("subscribe panics with an error"))
		}
		return src, nil
	}
	base, _, _ := c15LibGoroutines()
	ctx, cancel := context.WithCancel(context.Background())
	defer cancel()

	query, opName := c15Query, "S"
	switch t.Front {
	case 1:
		query = `subscription S { tick(tag: "t") { v `
	case 2:
		query = `subscription S { tick(tag: "t") { v nope } }`
	}
	switch t.Setup {
	case 6:
		opName = "Other"
	case 7:
		query = `subscription S { nosub { v } }`
	}

	var ch chan *graphql.Result
	began, cancelled, srcClosed, seenClosed := false, false, false, false
	emitted, got := 0, 0
	single := t.Front != 0 || t.Setup != 0
	emit := func(s string) { o.trace = append(o.trace, s) }

	classify := func(r *graphql.Result) string {
		js := c15JSON(r)
		o.results = append(o.results, js)
		if t.Front == 0 && t.Setup == 0 {
			if got < n && js == expected[got] {
				return fmt.Sprintf("ORecv (Normal %d)", got+1)
			}
		}
		if t.Front == 0 && t.Setup == 2 && js == valueExpected {
			return "ORecv (Normal 77)"
		}
		if r != nil && r.Data == nil && len(r.Errors) == 1 && ctx.Err() != nil && r.Errors[0].Message == ctx.Err().Error() {
			return "ORecv CtxErr"
		}
		if r != nil && r.Data == nil && len(r.Errors) >= 1 {
			return "ORecv ErrRes"
		}
		for i := range expected {
			if js == expected[i] {
				return fmt.Sprintf("ORecv (Normal %d)", i+1)
			}
		}
		return "ORecv (Normal 9999)"
	}

	for _, a := range t.Sched {
		switch a {
		case 'B':
			if began {
				continue
			}
			began = true
			var c context.Context = ctx
			if t.NilCtx {
				c = nil
			}
			if p := guard(func() {
				if t.Direct && t.Front == 0 {
					q := doc
					if t.Setup == 7 {
						q = c15Parse(query)
					}
					ch = graphql.ExecuteSubscription(graphql.ExecuteParams{Schema: schema, AST: q, OperationName: opName, Context: c})
				} else {
					ch = graphql.Subscribe(graphql.Params{Schema: schema, RequestString: query, OperationName: opName, Context: c})
				}
			}); p != "" {
				o.fail = "Subscribe: " + p
				return
			}
			if ch == nil {
				o.fail = "Subscribe returned a nil channel"
				return
			}
			o.cap = cap(ch)
		case 'E':
			if emitted >= n || srcClosed {
				continue
			}
			src <- payloads[emitted]
			emitted++
			emit("OEmit")
		case 'X':
			if srcClosed {
				continue
			}
			close(src)
			srcClosed = true
			emit("OCloseSrc")
		case 'C':
			if cancelled || t.NilCtx {
				continue
			}
			cancel()
			cancelled = true
			emit("OCancel")
		case 'R':
			if !began || seenClosed {
				continue
			}
			if !single && !(cancelled || srcClosed || got < emitted) {
				continue // nothing is owed to the consumer: a receive would wait for the environment
			}
			select {
			case r, ok := <-ch:
				if !ok {
					seenClosed = true
					emit("OClosed")
				} else {
					emit(classify(r))
					got++
				}
			case <-time.After(c15RecvBudget):
				_, _, dump := c15LibGoroutines()
				o.fail = fmt.Sprintf("hang: the consumer's receive did not complete within %v although a result or the close is due (trace so far %v)\n%s", c15RecvBudget, o.trace, dump)
				cancel()
				return
			}
		}
		if t.Sync {
			c15Sync()
		}
	}
	if !began {
		return
	}
	// the consumer stops for good
	emit("OStop")
	o.stalled = !seenClosed
	if seenClosed && !cancelled {
		// the forwarder closed the channel on its own: it must be gone without any cancellation
		if ok, dump := c15WaitQuiet(base, c15QuietBudget); !ok {
			o.fail = fmt.Sprintf("goroutine leak: the result channel was closed but a library goroutine is still alive after %v (trace %v)\n%s", c15QuietBudget, o.trace, dump)
			return
		}
		emit("OQuiet")
	}
	if !cancelled && !t.NilCtx {
		cancel()
		cancelled = true
		emit("OCancel")
	}
	if cancelled {
		if ok, dump := c15WaitQuiet(base, c15QuietBudget); !ok {
			o.fail = fmt.Sprintf("stuck goroutine: %v after cancellation, with the consumer stopped, a library goroutine is still blocked (trace %v)\n%s", c15QuietBudget, o.trace, dump)
			return
		}
		emit("OQuiet")
	}
	return
}

// ---- schedules ----

// c15Schedules enumerates every action sequence with at most n emits, one close, one cancel, one
// begin and at most n+2 receives (a receive only after the begin), every prefix included.
func c15Schedules(n int, maxLen int) []string {
	var out []string
	var rec func(cur []byte, began bool, e, x, c, r int)
	rec = func(cur []byte, began bool, e, x, c, r int) {
		if began {
			out = append(out, string(cur))
		}
		if len(cur) >= maxLen {
			return
		}
		if !began {
			rec(append(cur, 'B'), true, e, x, c, r)
		}
		if e < n && x == 0 {
			rec(append(cur, 'E'), began, e+1, x, c, r)
		}
		if x == 0 {
			rec(append(cur, 'X'), began, e, 1, c, r)
		}
		if c == 0 {
			rec(append(cur, 'C'), began, e, x, 1, r)
		}
		if began && r < e+1 && (r < e || x == 1 || c == 1) {
			rec(append(cur, 'R'), began, e, x, c, r+1)
		}
	}
	rec(nil, false, 0, 0, 0, 0)
	return out
}

func c15SingleSchedules() []string {
	return []string{"B", "BR", "BRR", "BC", "CB", "CBR", "CBRR", "BCR", "BCRR", "BRC", "BRCR", "BRRC", "EBR", "BXRR"}
}

func c15Emit(e *Emitter, schema graphql.Schema, t c15Trial, leaks *int) {
	var o c15Outcome
	if p := guard(func() { o = c15Run(schema, &t) }); p != "" {
		o.fail = p
	}
	t.Trace = strings.Join(o.trace, "; ")
	t.Results = o.results
	front, setup := 0, 0
	group := "stream"
	if t.Front != 0 {
		front = 1
		group = "one-error"
	}
	switch t.Setup {
	case 0:
	case 2:
		setup = 2
		group = "value"
	default:
		setup = 1
		if t.Front == 0 {
			group = "one-error"
		}
	}
	events := []string{}
	if setup == 2 {
		events = append(events, "77") // the non-channel value comes first, then the (unused) source events
	}
	for i := range t.Kinds {
		events = append(events, coqN(i+1))
	}
	tags := []string{fmt.Sprintf("events=%d", len(t.Kinds)), fmt.Sprintf("front=%d", t.Front), fmt.Sprintf("setup=%d", t.Setup)}
	hasCancel := strings.Contains(t.Sched, "C")
	if hasCancel {
		tags = append(tags, "cancel")
		if strings.Index(t.Sched, "C") < strings.Index(t.Sched, "B") {
			tags = append(tags, "cancel-before-subscribe")
		}
	}
	if strings.Contains(t.Sched, "X") {
		tags = append(tags, "source-close")
	}
	if o.stalled {
		tags = append(tags, "consumer-stops")
	}
	for _, k := range t.Kinds {
		if k != 0 {
			tags = append(tags, fmt.Sprintf("payload-kind=%d", k))
		}
	}
	if t.Sync {
		tags = append(tags, "sync")
	} else {
		tags = append(tags, "race")
	}
	if t.Direct {
		tags = append(tags, "ExecuteSubscription")
	}
	c := Case{Desc: t, NT: hasCancel || o.stalled, Tags: tags, Group: group, Fail: o.fail}
	if o.fail == "" {
		c.Coq = fmt.Sprintf("SubCase %d %d %d %s %s", front, setup, o.cap, coqList(events), coqList(o.trace))
	} else if strings.Contains(o.fail, "goroutine") || strings.Contains(o.fail, "hang") {
		*leaks++
	}
	e.Emit(c)
}

func genC15(tier string, seed uint64, n int, e *Emitter) {
	schema := c15Schema()
	leaks := 0
	idx := uint64(0)
	next := func() *Rng { idx++; return NewRng(seed, idx) }
	tooManyLeaks := func() bool { return leaks >= 6 } // every leak costs the full budget: stop early, the verdict is already fail

	// 1. failing requests and the non-channel source: every schedule, both modes
	for _, fs := range [][2]int{{1, 0}, {2, 0}, {0, 1}, {0, 2}, {0, 3}, {0, 4}, {0, 5}, {0, 6}, {0, 7}} {
		for _, s := range c15SingleSchedules() {
			for _, sync := range []bool{true, false} {
				if tooManyLeaks() {
					return
				}
				r := next()
				kinds := []int{}
				if strings.Contains(s, "E") {
					kinds = []int{0}
				}
				c15Emit(e, schema, c15Trial{Front: fs[0], Setup: fs[1], Kinds: kinds, Sched: s, Sync: sync, Direct: fs[0] == 0 && r.Bool()}, &leaks)
			}
		}
	}
	// a request without context
	for _, s := range []string{"BEXRR", "BEERRXR", "XBR"} {
		c15Emit(e, schema, c15Trial{Kinds: []int{0, 1}, Sched: s, Sync: true, NilCtx: true}, &leaks)
	}

	// 2. streams: schedules with <= 1 event exhaustively (both modes), <= 2 (quick: sampled, thorough: all), 3 sampled
	kindsFor := func(r *Rng, k int) []int {
		ks := make([]int, k)
		for i := range ks {
			switch r.Intn(8) {
			case 0, 1:
				ks[i] = 1
			case 2:
				ks[i] = 2
			case 3, 4:
				ks[i] = 3
			}
		}
		return ks
	}
	run := func(s string, k int, sync bool) {
		if tooManyLeaks() {
			return
		}
		r := next()
		c15Emit(e, schema, c15Trial{Kinds: kindsFor(r, k), Sched: s, Sync: sync, Direct: r.Intn(3) == 0}, &leaks)
	}
	for _, s := range c15Schedules(1, 6) {
		run(s, 1, true)
		run(s, 1, false)
	}
	two := c15Schedules(2, 8)
	three := c15Schedules(3, 10)
	budget2, budget3 := 600, 100
	if tier == "thorough" {
		budget2, budget3 = len(two), 6000
	}
	if n > 0 {
		budget2, budget3 = n, n/4
	}
	pick := func(all []string, budget int, k int) {
		if budget >= len(all) {
			for _, s := range all {
				run(s, k, true)
				if tier == "thorough" {
					run(s, k, false)
				}
			}
			return
		}
		r := NewRng(seed, uint64(1000003*k))
		for i := 0; i < budget; i++ {
			s := all[r.Intn(len(all))]
			run(s, k, r.Intn(4) != 0)
		}
	}
	pick(two, budget2, 2)
	pick(three, budget3, 3)
}
