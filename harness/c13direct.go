package main

// C13, observed directly on the implementation (no model involved): mutations whose resolvers
// return lists whose ITEMS are deferred values (func() (interface{}, error)) yielding objects
// whose own fields defer again.  Item-level deferral is not part of the executor model
// (Exec/Exec.v defers resolver results only), so these trials are judged on the recorded order
// of events alone: nothing that belongs to a later top-level field -- a resolver invocation or
// the forcing of a value it deferred -- may happen before everything of every earlier one.

import (
	"context"
	"fmt"
	"strconv"
	"strings"
	"sync"

	"github.com/graphql-go/graphql"
)

type c13Node struct{ depth int }

type c13Trial struct {
	mu  sync.Mutex
	ev  []string
	top []int
	r   *Rng
}

func (t *c13Trial) log(top int, what string) {
	t.mu.Lock()
	t.ev = append(t.ev, fmt.Sprintf("%d:%s", top, what))
	t.top = append(t.top, top)
	t.mu.Unlock()
}

func c13PathInfo(p *graphql.ResponsePath) (top int, s string) {
	parts := []string{}
	for q := p; q != nil; q = q.Prev {
		parts = append([]string{fmt.Sprint(q.Key)}, parts...)
	}
	top = -1
	if len(parts) > 0 && strings.HasPrefix(parts[0], "t") {
		if n, err := strconv.Atoi(parts[0][1:]); err == nil {
			top = n
		}
	}
	return top, strings.Join(parts, ".")
}

// c13Hash: the behaviour of a position is a function of (seed, path, salt) so that replays agree
func c13Hash(seed uint64, path, salt string) uint64 {
	h := seed*0x9E3779B97F4A7C15 + 0x1234567
	for _, b := range []byte(path + "|" + salt) {
		h = (h ^ uint64(b)) * 0x100000001B3
	}
	h ^= h >> 29
	return h
}

func c13Schema(cur **c13Trial, seed *uint64) graphql.Schema {
	never := false
	return c13SchemaOpt(cur, seed, &never)
}

// plain (read at resolve time): defer nothing -- the twin that c04direct.go compares with
func c13SchemaOpt(cur **c13Trial, seed *uint64, plain *bool) graphql.Schema {
	var node *graphql.Object
	deferIt := func(top int, path, salt string, v interface{}) interface{} {
		t := *cur
		if *plain {
			return v
		}
		switch c13Hash(*seed, path, salt) % 4 {
		case 0, 1:
			return func() (interface{}, error) {
				t.log(top, "force "+path+" "+salt)
				return v, nil
			}
		case 2:
			// a deferred value that defers again
			return func() (interface{}, error) {
				t.log(top, "force1 "+path+" "+salt)
				return func() (interface{}, error) {
					t.log(top, "force2 "+path+" "+salt)
					return v, nil
				}, nil
			}
		}
		return v
	}
	resolve := func(kind string) graphql.FieldResolveFn {
		return func(p graphql.ResolveParams) (interface{}, error) {
			t := *cur
			top, path := c13PathInfo(p.Info.Path)
			t.log(top, "resolve "+path)
			d := 0
			if n, ok := p.Source.(*c13Node); ok {
				d = n.depth
			}
			switch kind {
			case "v":
				return deferIt(top, path, "v", d), nil
			case "kid":
				return deferIt(top, path, "kid", &c13Node{depth: d + 1}), nil
			default: // kids: a list whose items are deferred one by one, the list itself possibly too
				n := 1 + int(c13Hash(*seed, path, "len")%3)
				items := make([]interface{}, n)
				for i := range items {
					items[i] = deferIt(top, path, "item"+fmt.Sprint(i), &c13Node{depth: d + 1})
				}
				if !*plain && c13Hash(*seed, path, "list")%3 == 0 {
					return func() (interface{}, error) {
						t.log(top, "force "+path+" list")
						return items, nil
					}, nil
				}
				return items, nil
			}
		}
	}
	node = graphql.NewObject(graphql.ObjectConfig{Name: "Node", Fields: graphql.FieldsThunk(func() graphql.Fields {
		return graphql.Fields{
			"v":    &graphql.Field{Type: graphql.Int, Resolve: resolve("v")},
			"kid":  &graphql.Field{Type: node, Resolve: resolve("kid")},
			"kids": &graphql.Field{Type: graphql.NewList(node), Resolve: resolve("kids")},
		}
	})})
	mut := graphql.NewObject(graphql.ObjectConfig{Name: "Mutation", Fields: graphql.Fields{
		"one":  &graphql.Field{Type: node, Resolve: resolve("kid")},
		"many": &graphql.Field{Type: graphql.NewList(node), Resolve: resolve("kids")},
		"num":  &graphql.Field{Type: graphql.Int, Resolve: resolve("v")},
	}})
	q := graphql.NewObject(graphql.ObjectConfig{Name: "Query", Fields: graphql.Fields{"q": &graphql.Field{Type: graphql.Int},
		"one":  &graphql.Field{Type: node, Resolve: resolve("kid")},
		"many": &graphql.Field{Type: graphql.NewList(node), Resolve: resolve("kids")},
		"num":  &graphql.Field{Type: graphql.Int, Resolve: resolve("v")},
	}})
	s, err := graphql.NewSchema(graphql.SchemaConfig{Query: q, Mutation: mut})
	if err != nil {
		panic(err)
	}
	return s
}

func c13Sel(r *Rng, depth int) string {
	parts := []string{"v"}
	if depth > 0 {
		if r.Chance(70) {
			parts = append(parts, "kids "+c13Sel(r, depth-1))
		}
		if r.Chance(50) {
			parts = append(parts, "kid "+c13Sel(r, depth-1))
		}
		if r.Chance(20) {
			parts = append(parts, "again: kids "+c13Sel(r, depth-1))
		}
	}
	return "{ " + strings.Join(parts, " ") + " }"
}

func c13Direct(tier string, seed uint64, e *Emitter) {
	n := 60
	if tier == "thorough" {
		n = 1500
	}
	var cur *c13Trial
	var tseed uint64
	schema := c13Schema(&cur, &tseed)
	for i := 0; i < n; i++ {
		r := NewRng(seed+131, uint64(i))
		tseed = seed*7919 + uint64(i)
		k := 2 + r.Intn(3)
		var sb strings.Builder
		sb.WriteString("mutation M {")
		for j := 0; j < k; j++ {
			switch r.Intn(4) {
			case 0:
				fmt.Fprintf(&sb, " t%d: num", j)
			case 1:
				fmt.Fprintf(&sb, " t%d: one %s", j, c13Sel(r, 2))
			default:
				fmt.Fprintf(&sb, " t%d: many %s", j, c13Sel(r, 2))
			}
		}
		sb.WriteString(" }")
		text := sb.String()
		entry := []string{"do", "execute", "plan"}[i%3]
		t := &c13Trial{r: r}
		cur = t
		var res *graphql.Result
		fail := guard(func() {
			switch entry {
			case "do":
				res = graphql.Do(graphql.Params{Schema: schema, RequestString: text, Context: context.Background()})
			case "execute":
				res = graphql.Execute(graphql.ExecuteParams{Schema: schema, AST: c15Parse(text), Context: context.Background()})
			default:
				plan, err := graphql.PlanQuery(&schema, c15Parse(text), "")
				if err != nil {
					panic(err)
				}
				res = graphql.ExecutePlan(plan, graphql.ExecuteParams{Schema: schema, Context: context.Background()})
			}
		})
		if fail == "" && (res == nil || len(res.Errors) > 0) {
			fail = fmt.Sprint("unexpected result: ", res)
		}
		deferred := 0
		if fail == "" {
			t.mu.Lock()
			hi := -1
			for idx, top := range t.top {
				if strings.Contains(t.ev[idx], ":force") {
					deferred++
				}
				if top < hi {
					fail = fmt.Sprintf("serial order broken: event %q of top-level field t%d happens after an event of the later field t%d (event %d of %d)",
						t.ev[idx], top, hi, idx, len(t.ev))
					break
				}
				if top > hi {
					hi = top
				}
			}
			t.mu.Unlock()
		}
		tags := []string{"direct-serial", "entry-" + entry, "item-thunks"}
		desc := map[string]interface{}{"document": text, "entry": entry, "events": len(t.ev), "deferred_forced": deferred}
		if fail != "" {
			ev := t.ev
			if len(ev) > 60 {
				ev = ev[:60]
			}
			desc["event_log"] = ev
		}
		e.Emit(Case{Group: "C13-direct-serial", Desc: desc, NT: deferred > 0 && k > 1, Tags: tags, Fail: fail})
	}
}
