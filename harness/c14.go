package main

// C14 -- AST traversal visits every node once, in order, honouring skip and break.
//
// The harness parses generated executable and type-system documents (plus the kitchen-sink
// files of the repository), converts the Go AST to the generic tree of
// coq/theories/Visitor/VisitorTree.v by reflection (every node-valued struct field is a slot,
// node ids are assigned in document order, pointer identity = id), runs the real
// visitor.Visit with instrumented visitors that implement a seeded policy in the visitor
// forms of VisitorOptions (and through VisitInParallel with 1-4 independent policies),
// records the parameters every callback received and emits tree + options + policy +
// observed events.  Kinds and field names cross as numeric codes (tables in
// coq/theories/Gen/VisitorKeys.v, written by this file with C14_WRITE_GEN=<path> and
// checked against the live library in the "keys" case of every run).

import (
	"fmt"
	"os"
	"path/filepath"
	"reflect"
	"sort"
	"strings"

	"github.com/graphql-go/graphql/language/ast"
	"github.com/graphql-go/graphql/language/parser"
	"github.com/graphql-go/graphql/language/visitor"
)

func init() { props["C14"] = genC14 }

// ---------------------------------------------------------------- ast shape by reflection

var c14NodeTypes = []reflect.Type{
	reflect.TypeOf(ast.Name{}), reflect.TypeOf(ast.Document{}), reflect.TypeOf(ast.OperationDefinition{}),
	reflect.TypeOf(ast.VariableDefinition{}), reflect.TypeOf(ast.Variable{}), reflect.TypeOf(ast.SelectionSet{}),
	reflect.TypeOf(ast.Field{}), reflect.TypeOf(ast.Argument{}), reflect.TypeOf(ast.FragmentSpread{}),
	reflect.TypeOf(ast.InlineFragment{}), reflect.TypeOf(ast.FragmentDefinition{}), reflect.TypeOf(ast.IntValue{}),
	reflect.TypeOf(ast.FloatValue{}), reflect.TypeOf(ast.StringValue{}), reflect.TypeOf(ast.BooleanValue{}),
	reflect.TypeOf(ast.EnumValue{}), reflect.TypeOf(ast.ListValue{}), reflect.TypeOf(ast.ObjectValue{}),
	reflect.TypeOf(ast.ObjectField{}), reflect.TypeOf(ast.Directive{}), reflect.TypeOf(ast.Named{}),
	reflect.TypeOf(ast.List{}), reflect.TypeOf(ast.NonNull{}), reflect.TypeOf(ast.SchemaDefinition{}),
	reflect.TypeOf(ast.OperationTypeDefinition{}), reflect.TypeOf(ast.ScalarDefinition{}),
	reflect.TypeOf(ast.ObjectDefinition{}), reflect.TypeOf(ast.FieldDefinition{}),
	reflect.TypeOf(ast.InputValueDefinition{}), reflect.TypeOf(ast.InterfaceDefinition{}),
	reflect.TypeOf(ast.UnionDefinition{}), reflect.TypeOf(ast.EnumDefinition{}),
	reflect.TypeOf(ast.EnumValueDefinition{}), reflect.TypeOf(ast.InputObjectDefinition{}),
	reflect.TypeOf(ast.TypeExtensionDefinition{}), reflect.TypeOf(ast.DirectiveDefinition{}),
}

var c14NodeIface = reflect.TypeOf((*ast.Node)(nil)).Elem()

type c14Field struct {
	Name  string
	Slice bool
}

// a static type that holds a node: pointer to a node struct, or an interface of package ast
// (Selection does not embed Node, yet every implementation is a node)
func c14HoldsNode(ft reflect.Type) bool {
	switch ft.Kind() {
	case reflect.Ptr:
		return ft.Implements(c14NodeIface)
	case reflect.Interface:
		return ft.Implements(c14NodeIface) || strings.HasSuffix(ft.PkgPath(), "language/ast")
	}
	return false
}

// node-valued fields of an ast struct, in declaration order
func c14NodeFields(t reflect.Type) []c14Field {
	var out []c14Field
	for i := 0; i < t.NumField(); i++ {
		f := t.Field(i)
		ft := f.Type
		switch {
		case c14HoldsNode(ft):
			out = append(out, c14Field{f.Name, false})
		case ft.Kind() == reflect.Slice && c14HoldsNode(ft.Elem()):
			out = append(out, c14Field{f.Name, true})
		}
	}
	return out
}

type c14Tables struct {
	kinds     []string // sorted; code = index
	fields    []string // sorted; code = index
	kindCode  map[string]int
	fieldCode map[string]int
	shape     map[string][]c14Field // struct kind -> node-valued fields
	keys      map[string][]string   // visitor.QueryDocumentKeys
}

func c14BuildTables() *c14Tables {
	t := &c14Tables{kindCode: map[string]int{}, fieldCode: map[string]int{}, shape: map[string][]c14Field{}, keys: map[string][]string{}}
	ks, fs := map[string]bool{}, map[string]bool{}
	for _, rt := range c14NodeTypes {
		ks[rt.Name()] = true
		nf := c14NodeFields(rt)
		t.shape[rt.Name()] = nf
		for _, f := range nf {
			fs[f.Name] = true
		}
	}
	for k, l := range visitor.QueryDocumentKeys {
		ks[k] = true
		t.keys[k] = append([]string{}, l...)
		for _, f := range l {
			fs[f] = true
		}
	}
	for k := range ks {
		t.kinds = append(t.kinds, k)
	}
	for f := range fs {
		t.fields = append(t.fields, f)
	}
	sort.Strings(t.kinds)
	sort.Strings(t.fields)
	for i, k := range t.kinds {
		t.kindCode[k] = i
	}
	for i, f := range t.fields {
		t.fieldCode[f] = i
	}
	return t
}

func c14Str(s string) string { return "\"" + s + "\"" }

// the live tables as Gallina terms (strings), for the keys case
func (t *c14Tables) coqKeys() string {
	var rows []string
	for _, k := range t.kinds {
		l, ok := t.keys[k]
		if !ok {
			continue
		}
		var xs []string
		for _, f := range l {
			xs = append(xs, c14Str(f))
		}
		rows = append(rows, "("+c14Str(k)+", "+coqList(xs)+")")
	}
	return coqList(rows)
}
func (t *c14Tables) coqShape() string {
	var rows []string
	for _, k := range t.kinds {
		l, ok := t.shape[k]
		if !ok {
			continue
		}
		var xs []string
		for _, f := range l {
			xs = append(xs, "("+c14Str(f.Name)+", "+coqBool(f.Slice)+")")
		}
		rows = append(rows, "("+c14Str(k)+", "+coqList(xs)+")")
	}
	return coqList(rows)
}

// Gen/VisitorKeys.v
func (t *c14Tables) genFile() string {
	var sb strings.Builder
	sb.WriteString("(* GENERATED by harness/c14.go (C14_WRITE_GEN) from language/visitor.QueryDocumentKeys and the\n   struct declarations of language/ast (reflection).  Do not edit; every run of bin/check C14\n   compares these tables with the live library (case group \"keys\"). *)\n")
	sb.WriteString("From Coq Require Import List NArith String.\nImport ListNotations.\nOpen Scope string_scope.\nOpen Scope N_scope.\n\n")
	var xs []string
	for i, k := range t.kinds {
		xs = append(xs, fmt.Sprintf("(%d, %s)", i, c14Str(k)))
	}
	sb.WriteString("(* kind codes *)\nDefinition kind_names : list (N * string) :=\n  [" + strings.Join(xs, ";\n   ") + "].\n\n")
	xs = nil
	for i, f := range t.fields {
		xs = append(xs, fmt.Sprintf("(%d, %s)", i, c14Str(f)))
	}
	sb.WriteString("(* field-name codes *)\nDefinition field_names : list (N * string) :=\n  [" + strings.Join(xs, ";\n   ") + "].\n\n")
	xs = nil
	for _, k := range t.kinds {
		l, ok := t.keys[k]
		if !ok {
			continue
		}
		var ys []string
		for _, f := range l {
			ys = append(ys, fmt.Sprint(t.fieldCode[f]))
		}
		xs = append(xs, fmt.Sprintf("(* %s: %s *) (%d, %s)", k, strings.Join(l, " "), t.kindCode[k], coqList(ys)))
	}
	sb.WriteString("(* visitor.QueryDocumentKeys: the children of a node of each kind, in visiting order *)\nDefinition keys_table : list (N * list N) :=\n  [" + strings.Join(xs, ";\n   ") + "].\n\n")
	xs = nil
	for _, k := range t.kinds {
		l, ok := t.shape[k]
		if !ok {
			continue
		}
		var ys []string
		for _, f := range l {
			ys = append(ys, fmt.Sprintf("(%d, %s)", t.fieldCode[f.Name], coqBool(f.Slice)))
		}
		xs = append(xs, fmt.Sprintf("(%d, %s)", t.kindCode[k], coqList(ys)))
	}
	sb.WriteString("(* node-valued fields of each ast struct in declaration order (true = slice of nodes) *)\nDefinition ast_shape : list (N * list (N * bool)) :=\n  [" + strings.Join(xs, ";\n   ") + "].\n")
	return sb.String()
}

// ---------------------------------------------------------------- Go AST -> generic tree

type c14Tree struct {
	tb     *c14Tables
	ids    map[uintptr]int
	nodes  []ast.Node // by id
	shared bool       // some node pointer occurs twice
	bad    string     // kind / type-name mismatch etc.
}

func c14IsNil(v reflect.Value) bool {
	switch v.Kind() {
	case reflect.Ptr, reflect.Interface, reflect.Slice, reflect.Map:
		return v.IsNil()
	}
	return false
}

// returns the Gallina term of the node
func (t *c14Tree) conv(n ast.Node) string {
	pv := reflect.ValueOf(n)
	ptr := pv.Pointer()
	id, seen := t.ids[ptr]
	if seen {
		t.shared = true
	} else {
		id = len(t.nodes)
		t.ids[ptr] = id
		t.nodes = append(t.nodes, n)
	}
	sv := pv.Elem()
	st := sv.Type()
	kind := n.GetKind()
	if kind != st.Name() {
		t.bad = fmt.Sprintf("node of Go type %s reports kind %q", st.Name(), kind)
	}
	kc, ok := t.tb.kindCode[kind]
	if !ok {
		t.bad = "unknown kind " + kind
	}
	var slots []string
	for _, f := range c14NodeFields(st) {
		fv := sv.FieldByName(f.Name)
		fc := t.tb.fieldCode[f.Name]
		if f.Slice {
			var els []string
			for i := 0; i < fv.Len(); i++ {
				ev := fv.Index(i)
				if c14IsNil(ev) {
					t.bad = "nil element in " + kind + "." + f.Name
					continue
				}
				els = append(els, t.conv(ev.Interface().(ast.Node)))
			}
			slots = append(slots, fmt.Sprintf("M %d %s", fc, coqList(els)))
		} else {
			if c14IsNil(fv) || (fv.Kind() == reflect.Interface && c14IsNil(fv.Elem())) {
				slots = append(slots, fmt.Sprintf("O0 %d", fc))
			} else {
				slots = append(slots, fmt.Sprintf("O1 %d (%s)", fc, t.conv(fv.Interface().(ast.Node))))
			}
		}
	}
	return fmt.Sprintf("G %d %d %s", id, kc, coqList(slots))
}

// all nodes below (and including) n, via the same reflection walk
func c14Convert(tb *c14Tables, root ast.Node) (*c14Tree, string) {
	t := &c14Tree{tb: tb, ids: map[uintptr]int{}}
	term := t.conv(root)
	return t, term
}

// structural dump of an AST (contents and pointer identities) to detect any mutation
func c14Dump(sb *strings.Builder, v reflect.Value, depth int) {
	if depth > 200 {
		sb.WriteString("<deep>")
		return
	}
	switch v.Kind() {
	case reflect.Ptr:
		if v.IsNil() {
			sb.WriteString("nil")
			return
		}
		fmt.Fprintf(sb, "&%x", v.Pointer())
		if v.Type().Elem().Name() == "Source" {
			return
		}
		c14Dump(sb, v.Elem(), depth+1)
	case reflect.Interface:
		if v.IsNil() {
			sb.WriteString("nil")
			return
		}
		c14Dump(sb, v.Elem(), depth+1)
	case reflect.Struct:
		sb.WriteString(v.Type().Name() + "{")
		for i := 0; i < v.NumField(); i++ {
			sb.WriteString(v.Type().Field(i).Name + ":")
			c14Dump(sb, v.Field(i), depth+1)
			sb.WriteString(",")
		}
		sb.WriteString("}")
	case reflect.Slice:
		if v.IsNil() {
			sb.WriteString("nil[]")
			return
		}
		fmt.Fprintf(sb, "[%d@%x:", v.Len(), v.Pointer())
		for i := 0; i < v.Len(); i++ {
			c14Dump(sb, v.Index(i), depth+1)
			sb.WriteString(",")
		}
		sb.WriteString("]")
	default:
		fmt.Fprintf(sb, "%#v", v.Interface())
	}
}
func c14Snapshot(n ast.Node) string {
	var sb strings.Builder
	c14Dump(&sb, reflect.ValueOf(n), 0)
	return sb.String()
}

// ---------------------------------------------------------------- instrumented visitors

const (
	c14FnKind   = 1
	c14FnKEnter = 2
	c14FnKLeave = 3
	c14FnEnter  = 4
	c14FnLeave  = 5
	c14FnEKM    = 6
	c14FnLKM    = 7
)

type c14KF struct{ Kind, Leave, Enter bool }

// which function slots of a VisitorOptions value are filled (mirror of vopts in VisitorLoop.v)
type c14Opts struct {
	KindMap map[string]c14KF
	Enter   bool
	Leave   bool
	EKM     map[string]bool
	LKM     map[string]bool
}

type c14Event struct {
	leave  bool
	fn     int
	id     int
	kind   int
	key    int   // 0 nil, 2c+1 field name c, 2i+2 index i
	parent int   // 0 nil, id+1
	path   []int // encoded like key
	ancs   []int // encoded like parent
}

func (e c14Event) coq() string {
	var p, a []string
	for _, x := range e.path {
		p = append(p, fmt.Sprint(x))
	}
	for _, x := range e.ancs {
		a = append(a, fmt.Sprint(x))
	}
	if e.leave {
		return fmt.Sprintf("LV %d %d %d %d %d %s", e.fn, e.id, e.kind, e.key, e.parent, coqList(a))
	}
	return fmt.Sprintf("EN %d %d %d %d %d %s %s", e.fn, e.id, e.kind, e.key, e.parent, coqList(p), coqList(a))
}

type c14Policy map[int]int // 2*id+phase -> 1 skip, 2 break

func (p c14Policy) coq() string {
	var ks []int
	for k := range p {
		ks = append(ks, k)
	}
	sort.Ints(ks)
	var xs []string
	for _, k := range ks {
		xs = append(xs, fmt.Sprintf("(%d, %d)", k, p[k]))
	}
	return coqList(xs)
}

type c14Recorder struct {
	tr     *c14Tree
	pol    c14Policy
	events []c14Event
	bad    string
}

func (r *c14Recorder) nodeID(n interface{}) int {
	if n == nil {
		return -1
	}
	v := reflect.ValueOf(n)
	if v.Kind() != reflect.Ptr || v.IsNil() {
		return -1
	}
	if id, ok := r.tr.ids[v.Pointer()]; ok {
		return id
	}
	r.bad = "callback received a node that is not in the tree"
	return 1 << 30
}

func (r *c14Recorder) encKey(k interface{}) int {
	switch x := k.(type) {
	case nil:
		return 0
	case string:
		c, ok := r.tr.tb.fieldCode[x]
		if !ok {
			r.bad = "unknown key " + x
			return 2*9999 + 1
		}
		return 2*c + 1
	case int:
		return 2*x + 2
	}
	r.bad = fmt.Sprintf("key of type %T", k)
	return 2*9998 + 1
}

func (r *c14Recorder) fn(slot int, leave bool) visitor.VisitFunc {
	return func(p visitor.VisitFuncParams) (string, interface{}) {
		e := c14Event{leave: leave, fn: slot}
		e.id = r.nodeID(p.Node)
		if e.id < 0 {
			r.bad = "callback received a nil / non-pointer node"
			e.id = 1 << 30
		}
		if n, ok := p.Node.(ast.Node); ok {
			e.kind = r.tr.tb.kindCode[n.GetKind()]
		}
		e.key = r.encKey(p.Key)
		var par interface{}
		if p.Parent != nil {
			par = p.Parent
		}
		e.parent = r.nodeID(par) + 1
		for _, k := range p.Path {
			e.path = append(e.path, r.encKey(k))
		}
		for _, a := range p.Ancestors {
			var ai interface{}
			if a != nil {
				ai = a
			}
			e.ancs = append(e.ancs, r.nodeID(ai)+1)
		}
		r.events = append(r.events, e)
		ph := 0
		if leave {
			ph = 1
		}
		switch r.pol[2*e.id+ph] {
		case 1:
			return visitor.ActionSkip, nil
		case 2:
			return visitor.ActionBreak, nil
		}
		return visitor.ActionNoChange, nil
	}
}

func (r *c14Recorder) options(o *c14Opts) *visitor.VisitorOptions {
	vo := &visitor.VisitorOptions{}
	if o.KindMap != nil {
		vo.KindFuncMap = map[string]visitor.NamedVisitFuncs{}
		for k, kf := range o.KindMap {
			var nf visitor.NamedVisitFuncs
			if kf.Kind {
				nf.Kind = r.fn(c14FnKind, false)
			}
			if kf.Enter {
				nf.Enter = r.fn(c14FnKEnter, false)
			}
			if kf.Leave {
				nf.Leave = r.fn(c14FnKLeave, true)
			}
			vo.KindFuncMap[k] = nf
		}
	}
	if o.Enter {
		vo.Enter = r.fn(c14FnEnter, false)
	}
	if o.Leave {
		vo.Leave = r.fn(c14FnLeave, true)
	}
	if o.EKM != nil {
		vo.EnterKindMap = map[string]visitor.VisitFunc{}
		for k := range o.EKM {
			vo.EnterKindMap[k] = r.fn(c14FnEKM, false)
		}
	}
	if o.LKM != nil {
		vo.LeaveKindMap = map[string]visitor.VisitFunc{}
		for k := range o.LKM {
			vo.LeaveKindMap[k] = r.fn(c14FnLKM, true)
		}
	}
	return vo
}

func (o *c14Opts) coq(tb *c14Tables) string {
	var km []string
	var ks []string
	for k := range o.KindMap {
		ks = append(ks, k)
	}
	sort.Strings(ks)
	for _, k := range ks {
		kf := o.KindMap[k]
		km = append(km, fmt.Sprintf("(%d, mkKfuncs %s %s %s)", tb.kindCode[k], coqBool(kf.Kind), coqBool(kf.Leave), coqBool(kf.Enter)))
	}
	set := func(m map[string]bool) string {
		var ks []string
		for k := range m {
			ks = append(ks, k)
		}
		sort.Strings(ks)
		var xs []string
		for _, k := range ks {
			xs = append(xs, fmt.Sprint(tb.kindCode[k]))
		}
		return coqList(xs)
	}
	return fmt.Sprintf("(mkVopts %s %s %s %s %s)", coqList(km), coqBool(o.Enter), coqBool(o.Leave), set(o.EKM), set(o.LKM))
}

// a random assignment of functions to the slots of VisitorOptions, in one of the visitor forms
func c14RandOpts(r *Rng, tb *c14Tables) (*c14Opts, string) {
	o := &c14Opts{}
	form := []string{"kindfuncmap", "generic", "kindmaps", "mixed"}[r.Intn(4)]
	subset := func(p int) map[string]bool {
		m := map[string]bool{}
		for _, k := range tb.kinds {
			if r.Chance(p) {
				m[k] = true
			}
		}
		return m
	}
	switch form {
	case "kindfuncmap":
		o.KindMap = map[string]c14KF{}
		full := r.Chance(50)
		for _, k := range tb.kinds {
			if full {
				o.KindMap[k] = c14KF{Enter: true, Leave: true}
			} else if r.Chance(80) {
				o.KindMap[k] = c14KF{Kind: r.Chance(30), Enter: r.Chance(70), Leave: r.Chance(70)}
			}
		}
	case "generic":
		o.Enter, o.Leave = true, true
		if r.Chance(20) {
			if r.Bool() {
				o.Enter = false
			} else {
				o.Leave = false
			}
		}
	case "kindmaps":
		if r.Chance(50) {
			o.EKM, o.LKM = subset(100), subset(100)
		} else {
			o.EKM, o.LKM = subset(75), subset(75)
		}
	case "mixed":
		o.KindMap = map[string]c14KF{}
		for _, k := range tb.kinds {
			if r.Chance(35) {
				o.KindMap[k] = c14KF{Kind: r.Chance(30), Enter: r.Chance(60), Leave: r.Chance(60)}
			}
		}
		o.Enter, o.Leave = r.Chance(40), r.Chance(40)
		o.EKM, o.LKM = subset(60), subset(60)
	}
	return o, form
}

func c14RandPolicy(r *Rng, nNodes int, density int) c14Policy {
	p := c14Policy{}
	if density == 0 {
		return p
	}
	for id := 0; id < nNodes; id++ {
		for ph := 0; ph < 2; ph++ {
			if r.Chance(density) {
				a := 1
				if r.Chance(12) {
					a = 2
				}
				p[2*id+ph] = a
			}
		}
	}
	return p
}

// ---------------------------------------------------------------- document generator

type c14Gen struct {
	r     *Rng
	depth int
}

func (g *c14Gen) name() string {
	return g.r.Pick([]string{"a", "b", "c", "id", "name", "user", "T", "U", "Query", "on_", "x1"})
}
func (g *c14Gen) typ(d int) string {
	var s string
	if d < 2 && g.r.Chance(30) {
		s = "[" + g.typ(d+1) + "]"
	} else {
		s = g.r.Pick([]string{"Int", "String", "T", "U", "ID", "Boolean"})
	}
	if g.r.Chance(30) {
		s += "!"
	}
	return s
}
func (g *c14Gen) value(d int, konst bool) string {
	k := g.r.Intn(9)
	if d > 2 && k >= 7 {
		k = g.r.Intn(6)
	}
	switch k {
	case 0:
		return fmt.Sprint(g.r.Intn(100))
	case 1:
		return fmt.Sprintf("%d.5", g.r.Intn(10))
	case 2:
		return "\"s" + fmt.Sprint(g.r.Intn(5)) + "\""
	case 3:
		return g.r.Pick([]string{"true", "false"})
	case 4:
		return g.r.Pick([]string{"RED", "GREEN", "null_"})
	case 5:
		if konst {
			return "7"
		}
		return "$" + g.name()
	case 6:
		return "\"\""
	case 7:
		n := g.r.Intn(4)
		var xs []string
		for i := 0; i < n; i++ {
			xs = append(xs, g.value(d+1, konst))
		}
		return "[" + strings.Join(xs, ", ") + "]"
	default:
		n := g.r.Intn(3)
		var xs []string
		for i := 0; i < n; i++ {
			xs = append(xs, g.name()+": "+g.value(d+1, konst))
		}
		return "{" + strings.Join(xs, ", ") + "}"
	}
}
func (g *c14Gen) args(konst bool) string {
	if !g.r.Chance(35) {
		return ""
	}
	n := 1 + g.r.Intn(3)
	var xs []string
	for i := 0; i < n; i++ {
		xs = append(xs, g.name()+": "+g.value(0, konst))
	}
	return "(" + strings.Join(xs, ", ") + ")"
}
func (g *c14Gen) directives(konst bool) string {
	if !g.r.Chance(25) {
		return ""
	}
	n := 1 + g.r.Intn(2)
	s := ""
	for i := 0; i < n; i++ {
		s += " @" + g.r.Pick([]string{"include", "skip", "d", "deprecated"}) + g.args(konst)
	}
	return s
}
func (g *c14Gen) selset(d int) string {
	n := 1 + g.r.Intn(4)
	if d >= g.depth {
		n = 1 + g.r.Intn(2)
	}
	var xs []string
	for i := 0; i < n; i++ {
		k := g.r.Intn(10)
		switch {
		case k < 6 || d >= g.depth:
			s := ""
			if g.r.Chance(25) {
				s += g.name() + ": "
			}
			s += g.name() + g.args(false) + g.directives(false)
			if d < g.depth && g.r.Chance(40) {
				s += " " + g.selset(d+1)
			}
			xs = append(xs, s)
		case k < 8:
			xs = append(xs, "..."+g.r.Pick([]string{"F", "G", "H"})+g.directives(false))
		default:
			s := "..."
			if g.r.Chance(60) {
				s += " on " + g.r.Pick([]string{"T", "U"})
			}
			xs = append(xs, s+g.directives(false)+" "+g.selset(d+1))
		}
	}
	return "{ " + strings.Join(xs, " ") + " }"
}
func (g *c14Gen) execDef() string {
	switch g.r.Intn(6) {
	case 0:
		return g.selset(0)
	case 1, 2, 3:
		s := g.r.Pick([]string{"query", "mutation", "subscription"})
		if g.r.Chance(70) {
			s += " " + g.name()
		}
		if g.r.Chance(50) {
			n := 1 + g.r.Intn(3)
			var xs []string
			for i := 0; i < n; i++ {
				v := "$" + g.name() + ": " + g.typ(0)
				if g.r.Chance(40) {
					v += " = " + g.value(0, true)
				}
				xs = append(xs, v)
			}
			s += "(" + strings.Join(xs, ", ") + ")"
		}
		return s + g.directives(false) + " " + g.selset(0)
	default:
		return "fragment " + g.r.Pick([]string{"F", "G", "H"}) + " on " + g.r.Pick([]string{"T", "U"}) + g.directives(false) + " " + g.selset(0)
	}
}
func (g *c14Gen) desc() string {
	if g.r.Chance(20) {
		return "\"d" + fmt.Sprint(g.r.Intn(9)) + "\" "
	}
	return ""
}
func (g *c14Gen) argDefs() string {
	if !g.r.Chance(40) {
		return ""
	}
	n := 1 + g.r.Intn(3)
	var xs []string
	for i := 0; i < n; i++ {
		s := g.desc() + g.name() + ": " + g.typ(0)
		if g.r.Chance(40) {
			s += " = " + g.value(0, true)
		}
		xs = append(xs, s+g.directives(true))
	}
	return "(" + strings.Join(xs, ", ") + ")"
}
func (g *c14Gen) fieldDefs() string {
	n := 1 + g.r.Intn(4)
	var xs []string
	for i := 0; i < n; i++ {
		xs = append(xs, g.desc()+g.name()+g.argDefs()+": "+g.typ(0)+g.directives(true))
	}
	return "{ " + strings.Join(xs, " ") + " }"
}
func (g *c14Gen) objectDef() string {
	s := "type " + g.name()
	if g.r.Chance(40) {
		s += " implements " + g.r.Pick([]string{"I", "I & J", "I & J & K"})
	}
	return s + g.directives(true) + " " + g.fieldDefs()
}
func (g *c14Gen) sdlDef() string {
	switch g.r.Intn(10) {
	case 0:
		n := 1 + g.r.Intn(3)
		var xs []string
		for i := 0; i < n; i++ {
			xs = append(xs, []string{"query", "mutation", "subscription"}[i]+": "+g.name())
		}
		return "schema" + g.directives(true) + " { " + strings.Join(xs, " ") + " }"
	case 1:
		return g.desc() + "scalar " + g.name() + g.directives(true)
	case 2, 3:
		return g.desc() + g.objectDef()
	case 4:
		return g.desc() + "interface " + g.name() + g.directives(true) + " " + g.fieldDefs()
	case 5:
		n := 1 + g.r.Intn(3)
		var xs []string
		for i := 0; i < n; i++ {
			xs = append(xs, g.name())
		}
		return g.desc() + "union " + g.name() + g.directives(true) + " = " + strings.Join(xs, " | ")
	case 6:
		n := 1 + g.r.Intn(3)
		var xs []string
		for i := 0; i < n; i++ {
			xs = append(xs, g.desc()+g.r.Pick([]string{"RED", "GREEN", "BLUE"})+g.directives(true))
		}
		return g.desc() + "enum " + g.name() + g.directives(true) + " { " + strings.Join(xs, " ") + " }"
	case 7:
		n := 1 + g.r.Intn(3)
		var xs []string
		for i := 0; i < n; i++ {
			s := g.desc() + g.name() + ": " + g.typ(0)
			if g.r.Chance(40) {
				s += " = " + g.value(0, true)
			}
			xs = append(xs, s+g.directives(true))
		}
		return g.desc() + "input " + g.name() + g.directives(true) + " { " + strings.Join(xs, " ") + " }"
	case 8:
		return "extend " + g.objectDef()
	default:
		n := 1 + g.r.Intn(3)
		var xs []string
		for i := 0; i < n; i++ {
			xs = append(xs, g.r.Pick([]string{"QUERY", "FIELD", "FRAGMENT_SPREAD", "OBJECT", "ENUM_VALUE"}))
		}
		return g.desc() + "directive @" + g.name() + g.argDefs() + " on " + strings.Join(xs, " | ")
	}
}
func (g *c14Gen) document() (string, string) {
	n := 1 + g.r.Intn(3)
	var xs []string
	flavour := g.r.Intn(5)
	for i := 0; i < n; i++ {
		switch {
		case flavour <= 1:
			xs = append(xs, g.execDef())
		case flavour <= 3:
			xs = append(xs, g.sdlDef())
		default:
			if g.r.Bool() {
				xs = append(xs, g.execDef())
			} else {
				xs = append(xs, g.sdlDef())
			}
		}
	}
	return strings.Join(xs, "\n"), []string{"executable", "executable", "type-system", "type-system", "both"}[flavour]
}

// ---------------------------------------------------------------- cases

func c14Parse(src string) (*ast.Document, error) {
	return parser.Parse(parser.ParseParams{Source: src})
}

type c14Doc struct {
	src     string
	flavour string
	doc     *ast.Document
}

func c14Corpus() []c14Doc {
	repo := os.Getenv("VERIF_REPO")
	if repo == "" {
		repo = "/repo"
	}
	var out []c14Doc
	for _, f := range []string{"kitchen-sink.graphql", "schema-kitchen-sink.graphql", "schema-all-descriptions.graphql"} {
		b, err := os.ReadFile(filepath.Join(repo, f))
		if err != nil {
			continue
		}
		d, err := c14Parse(string(b))
		if err != nil {
			continue
		}
		out = append(out, c14Doc{string(b), "corpus:" + f, d})
	}
	for _, s := range []string{
		"{ a }",
		"query Q($v: [Int!]! = [1, 2] @d) @skip(if: $v) { x: a(b: {c: [1, $v, \"s\"], d: E}) @include(if: true) { ...F ... on T @d { b } ... { c } } }\nfragment F on T { a(b: 1.5) }",
		"type T implements I & J @d(a: 1) { \"doc\" f(a: Int = 1 @d, b: [T!]): T! @deprecated }\nextend type T { g: Int }\nschema @d { query: T mutation: U }\nunion U @d = A | B\nenum E { \"x\" A @d B }\ninput In { a: Int = 3 @d }\ndirective @d(a: Int) on FIELD | QUERY\nscalar S @d\ninterface I { a: Int }",
	} {
		d, err := c14Parse(s)
		if err == nil {
			out = append(out, c14Doc{s, "corpus:inline", d})
		}
	}
	// hand-built trees with the absent / empty children a parser never produces
	empty := ast.NewDocument(&ast.Document{})
	out = append(out, c14Doc{"<built: document without definitions>", "corpus:built", empty})
	bare := ast.NewDocument(&ast.Document{Definitions: []ast.Node{
		ast.NewOperationDefinition(&ast.OperationDefinition{Operation: "query"}),
		ast.NewOperationDefinition(&ast.OperationDefinition{Operation: "query", SelectionSet: ast.NewSelectionSet(&ast.SelectionSet{})}),
		ast.NewOperationDefinition(&ast.OperationDefinition{Operation: "mutation", Name: ast.NewName(&ast.Name{Value: "M"}),
			SelectionSet: ast.NewSelectionSet(&ast.SelectionSet{Selections: []ast.Selection{
				ast.NewField(&ast.Field{}),
				ast.NewField(&ast.Field{Name: ast.NewName(&ast.Name{Value: "a"}), Arguments: []*ast.Argument{ast.NewArgument(&ast.Argument{})},
					SelectionSet: ast.NewSelectionSet(&ast.SelectionSet{Selections: []ast.Selection{}})}),
				ast.NewInlineFragment(&ast.InlineFragment{}),
				ast.NewInlineFragment(&ast.InlineFragment{SelectionSet: ast.NewSelectionSet(&ast.SelectionSet{Selections: []ast.Selection{ast.NewField(&ast.Field{Name: ast.NewName(&ast.Name{Value: "b"})})}})}),
			}})}),
	}})
	out = append(out, c14Doc{"<built: operations, fields, arguments and inline fragments with absent names, values and selection sets>", "corpus:built", bare})
	return out
}

// pick the root of the traversal: the document, or (sometimes) a node inside it
func c14PickRoot(r *Rng, doc *ast.Document, tb *c14Tables) ast.Node {
	if r.Chance(80) {
		return doc
	}
	t, _ := c14Convert(tb, doc)
	return t.nodes[r.Intn(len(t.nodes))]
}

func c14EventsCoq(evs []c14Event) string {
	var xs []string
	for _, e := range evs {
		xs = append(xs, e.coq())
	}
	return coqList(xs)
}

func c14Densities(r *Rng) int { return []int{0, 5, 30}[r.Intn(3)] }

func c14VisitCase(r *Rng, tb *c14Tables, d c14Doc, root ast.Node, density int, forceRootSkip bool, e *Emitter) {
	tr, term := c14Convert(tb, root)
	opts, form := c14RandOpts(r, tb)
	pol := c14RandPolicy(r, len(tr.nodes), density)
	if forceRootSkip {
		pol[0] = 1
		if opts.KindMap != nil {
			delete(opts.KindMap, root.GetKind())
		}
		opts.Enter = true
	}
	rec := &c14Recorder{tr: tr, pol: pol}
	before := c14Snapshot(root)
	var res interface{}
	fail := guard(func() { res = visitor.Visit(root, rec.options(opts), nil) })
	after := c14Snapshot(root)
	tags := []string{"form:" + form, "doc:" + strings.SplitN(d.flavour, ":", 2)[0], fmt.Sprintf("density:%d", density)}
	if _, isDoc := root.(*ast.Document); !isDoc {
		tags = append(tags, "root:inner")
	}
	if pol[0] == 1 {
		tags = append(tags, "root-skip")
	}
	if tr.shared {
		tags = append(tags, "shared-node")
	}
	if fail == "" && tr.bad != "" {
		fail = "tree conversion: " + tr.bad
	}
	if fail == "" && rec.bad != "" {
		fail = rec.bad
	}
	c := Case{Group: "visit", Tags: tags, NT: len(pol) > 0, Fail: fail,
		Desc: map[string]interface{}{"source": d.src, "root_kind": root.GetKind(), "options": fmt.Sprintf("%+v", *opts), "policy(2*id+phase->1 skip,2 break)": fmt.Sprint(map[int]int(pol)), "events": len(rec.events)}}
	if fail == "" {
		c.Coq = fmt.Sprintf("VisitCase (%s) %s %s %s %s %s", term, opts.coq(tb), pol.coq(), c14EventsCoq(rec.events), coqBool(res == nil), coqBool(before == after))
	}
	e.Emit(c)
}

func c14ParCase(r *Rng, tb *c14Tables, d c14Doc, root ast.Node, density int, nsub int, e *Emitter) {
	tr, term := c14Convert(tb, root)
	var recs []*c14Recorder
	var vos []*visitor.VisitorOptions
	var subs []string
	nontrivial := nsub >= 2
	forms := ""
	for i := 0; i < nsub; i++ {
		opts, form := c14RandOpts(r, tb)
		forms += form + " "
		pol := c14RandPolicy(r, len(tr.nodes), density)
		if len(pol) > 0 {
			nontrivial = true
		}
		rec := &c14Recorder{tr: tr, pol: pol}
		recs = append(recs, rec)
		vos = append(vos, rec.options(opts))
		subs = append(subs, "("+opts.coq(tb)+", "+pol.coq()+")")
	}
	before := c14Snapshot(root)
	var res interface{}
	fail := guard(func() { res = visitor.Visit(root, visitor.VisitInParallel(vos...), nil) })
	after := c14Snapshot(root)
	tags := []string{fmt.Sprintf("parallel:%d", nsub), "doc:" + strings.SplitN(d.flavour, ":", 2)[0], fmt.Sprintf("density:%d", density)}
	if tr.shared {
		tags = append(tags, "shared-node")
	}
	var obs []string
	for _, rec := range recs {
		if fail == "" && rec.bad != "" {
			fail = rec.bad
		}
		obs = append(obs, c14EventsCoq(rec.events))
	}
	if fail == "" && tr.bad != "" {
		fail = "tree conversion: " + tr.bad
	}
	c := Case{Group: "parallel", Tags: tags, NT: nontrivial, Fail: fail,
		Desc: map[string]interface{}{"source": d.src, "root_kind": root.GetKind(), "sub_visitors": nsub, "forms": forms, "sub_policies": strings.Join(subs, " ")}}
	if fail == "" {
		c.Coq = fmt.Sprintf("ParCase (%s) %s %s %s %s", term, coqList(subs), coqList(obs), coqBool(res == nil), coqBool(before == after))
	}
	e.Emit(c)
}

func genC14(tier string, seed uint64, n int, e *Emitter) {
	tb := c14BuildTables()
	if p := os.Getenv("C14_WRITE_GEN"); p != "" {
		if err := os.WriteFile(p, []byte(tb.genFile()), 0o644); err != nil {
			fmt.Fprintln(os.Stderr, err)
			os.Exit(2)
		}
	}
	if n == 0 {
		n = 300
		if tier == "thorough" {
			n = 6000
		}
	}
	// the child-key table and the ast struct shapes of the live library
	e.Emit(Case{Group: "keys", Desc: "visitor.QueryDocumentKeys and the node-valued fields of the ast structs (reflection) against coq/theories/Gen/VisitorKeys.v",
		Coq: fmt.Sprintf("KeysCase %s %s", tb.coqKeys(), tb.coqShape()), NT: true, Tags: []string{"keys"}})

	// type tracking (harness/c14ti.go)
	c14GenTypeInfo(tier, seed, n/5, tb, e)

	corpus := c14Corpus()
	idx := uint64(0)
	// corpus: every document under a few policies, all forms, parallel, and the root-skip probe
	for _, d := range corpus {
		nv, np := 2, []int{2}
		if len(d.src) > 1500 {
			nv = 1 // the kitchen-sink documents are large
		}
		if tier == "thorough" {
			nv, np = 6, []int{1, 2, 3, 4}
		}
		for k := 0; k < nv; k++ {
			idx++
			r := NewRng(seed, idx)
			c14VisitCase(r, tb, d, d.doc, []int{0, 5, 30, 5, 30, 5}[k], false, e)
		}
		idx++
		c14VisitCase(NewRng(seed, idx), tb, d, d.doc, 5, true, e)
		for _, k := range np {
			idx++
			c14ParCase(NewRng(seed, idx), tb, d, d.doc, []int{0, 5, 30, 5, 30}[k], k, e)
		}
	}
	for i := 0; i < n; i++ {
		idx++
		r := NewRng(seed, 1000+idx)
		g := &c14Gen{r: r, depth: 1 + r.Intn(3)}
		src, flavour := g.document()
		doc, err := c14Parse(src)
		if err != nil {
			// the generator is meant to produce valid documents only
			e.Emit(Case{Group: "generator", Desc: map[string]interface{}{"source": src, "error": err.Error()}, Tags: []string{"unparsable"}})
			continue
		}
		d := c14Doc{src, flavour, doc}
		root := c14PickRoot(r, doc, tb)
		density := c14Densities(r)
		switch {
		case r.Chance(3):
			c14VisitCase(r, tb, d, root, density, true, e)
		case r.Chance(35):
			c14ParCase(r, tb, d, root, density, 1+r.Intn(4), e)
		default:
			c14VisitCase(r, tb, d, root, density, false, e)
		}
	}
}
