package main

// Schemas of the execution family (C01, C04, C05, C13, C18 paths, C20): one
// description that is built into a graphql.Schema and printed as a Gallina term.

import (
	"fmt"
	"math/big"
	"sort"
	"strings"

	"github.com/graphql-go/graphql"
)

// ---- type references ----

type xTy struct {
	Kind string // "named", "list", "nonnull"
	Name string
	Of   *xTy
}

func xNamed(n string) *xTy  { return &xTy{Kind: "named", Name: n} }
func xList(t *xTy) *xTy      { return &xTy{Kind: "list", Of: t} }
func xNonNull(t *xTy) *xTy   { return &xTy{Kind: "nonnull", Of: t} }
func (t *xTy) named() string {
	if t.Kind == "named" {
		return t.Name
	}
	return t.Of.named()
}
func (t *xTy) String() string {
	switch t.Kind {
	case "list":
		return "[" + t.Of.String() + "]"
	case "nonnull":
		return t.Of.String() + "!"
	}
	return t.Name
}
func (t *xTy) coq() string {
	switch t.Kind {
	case "list":
		return "(TList " + t.Of.coq() + ")"
	case "nonnull":
		return "(TNonNull " + t.Of.coq() + ")"
	}
	return "(TNamed " + coqStr(t.Name) + ")"
}

func coqStr(s string) string { return "\"" + strings.ReplaceAll(s, "\"", "\"\"") + "\"" }

// ---- JSON-like values (Go value <-> jv term) ----

func jvCoq(v interface{}) string {
	switch x := v.(type) {
	case nil:
		return "JNull"
	case bool:
		return "(JBool " + coqBool(x) + ")"
	case int:
		return fmt.Sprintf("(JInt (%d)%%Z)", x)
	case float64:
		r := new(big.Rat)
		if r.SetFloat64(x) == nil {
			return "(JStr \"<non-finite float>\")"
		}
		return fmt.Sprintf("(JFloat (%s)%%Z %s%%positive)", r.Num().String(), r.Denom().String())
	case string:
		return "(JStr " + coqStr(x) + ")"
	case []interface{}:
		xs := make([]string, len(x))
		for i, e := range x {
			xs[i] = jvCoq(e)
		}
		return "(JList " + coqList(xs) + ")"
	case map[string]interface{}:
		keys := make([]string, 0, len(x))
		for k := range x {
			keys = append(keys, k)
		}
		sort.Strings(keys)
		xs := make([]string, len(keys))
		for i, k := range keys {
			xs[i] = "(" + coqStr(k) + ", " + jvCoq(x[k]) + ")"
		}
		return "(JObj " + coqList(xs) + ")"
	}
	return fmt.Sprintf("(JStr \"<unprintable %T>\")", v)
}

// ---- schema description ----

type xArg struct {
	Name    string
	Type    *xTy
	Default interface{} // nil = none
	HasDef  bool
}
type xField struct {
	Name string
	Args []xArg
	Type *xTy
}
type xEnumVal struct {
	Name  string
	Value interface{}
}
type xType struct {
	Name    string
	Kind    string // scalar enum object interface union input
	Scalar  string // SInt SFloat SString SBoolean SID SOdd
	Vals    []xEnumVal
	Fields  []string // names into the global pool (object, interface)
	Ifaces  []string
	Members []string
	Inputs  []xArg
}
type xSchema struct {
	Types    []*xType
	Pool     map[string]*xField // global field pool: equal names have equal args and types everywhere
	PoolKeys []string
	Query    string
	Mutation string
}

func (s *xSchema) typ(n string) *xType {
	for _, t := range s.Types {
		if t.Name == n {
			return t
		}
	}
	return nil
}

func (s *xSchema) possible(n string) []string {
	t := s.typ(n)
	if t == nil {
		return nil
	}
	switch t.Kind {
	case "object":
		return []string{n}
	case "union":
		return t.Members
	case "interface":
		var r []string
		for _, o := range s.Types {
			if o.Kind == "object" {
				for _, i := range o.Ifaces {
					if i == n {
						r = append(r, o.Name)
					}
				}
			}
		}
		return r
	}
	return nil
}

func (s *xSchema) coq() string {
	var ts []string
	for _, t := range s.Types {
		var d string
		switch t.Kind {
		case "scalar":
			d = "(TScalar " + t.Scalar + ")"
		case "enum":
			var vs []string
			for _, v := range t.Vals {
				vs = append(vs, "("+coqStr(v.Name)+", "+jvCoq(v.Value)+")")
			}
			d = "(TEnum " + coqList(vs) + ")"
		case "object", "interface":
			var fs []string
			for _, fn := range t.Fields {
				fs = append(fs, s.Pool[fn].coq())
			}
			if t.Kind == "object" {
				var is []string
				for _, i := range t.Ifaces {
					is = append(is, coqStr(i))
				}
				d = "(TObject " + coqList(fs) + " " + coqList(is) + ")"
			} else {
				d = "(TInterface " + coqList(fs) + ")"
			}
		case "union":
			var ms []string
			for _, m := range t.Members {
				ms = append(ms, coqStr(m))
			}
			d = "(TUnion " + coqList(ms) + ")"
		case "input":
			var as []string
			for _, a := range t.Inputs {
				as = append(as, a.coq())
			}
			d = "(TInputObject " + coqList(as) + ")"
		}
		ts = append(ts, "("+coqStr(t.Name)+", "+d+")")
	}
	mut := "None"
	if s.Mutation != "" {
		mut = "(Some " + coqStr(s.Mutation) + ")"
	}
	return "{| s_types := " + coqList(ts) + "; s_query := " + coqStr(s.Query) + "; s_mutation := " + mut + " |}"
}

func (a xArg) coq() string {
	d := "None"
	if a.HasDef {
		d = "(Some " + jvCoq(a.Default) + ")"
	}
	return "{| a_name := " + coqStr(a.Name) + "; a_type := " + a.Type.coq() + "; a_default := " + d + " |}"
}
func (f *xField) coq() string {
	var as []string
	for _, a := range f.Args {
		as = append(as, a.coq())
	}
	return "{| f_name := " + coqStr(f.Name) + "; f_args := " + coqList(as) + "; f_type := " + f.Type.coq() + " |}"
}

// ---- generator ----

func xGenSchema(r *Rng) *xSchema {
	s := &xSchema{Pool: map[string]*xField{}, Query: "Q", Mutation: "M"}
	add := func(t *xType) { s.Types = append(s.Types, t) }
	for _, sc := range [][2]string{{"Int", "SInt"}, {"Float", "SFloat"}, {"String", "SString"}, {"Boolean", "SBoolean"}, {"ID", "SID"}, {"Odd", "SOdd"}} {
		add(&xType{Name: sc[0], Kind: "scalar", Scalar: sc[1]})
	}
	add(&xType{Name: "E0", Kind: "enum", Vals: []xEnumVal{{"A", 1}, {"B", 2}, {"C", "c"}}})
	add(&xType{Name: "In0", Kind: "input", Inputs: []xArg{
		{Name: "a", Type: xNamed("Int"), Default: 7, HasDef: true},
		{Name: "b", Type: xNonNull(xNamed("Int"))},
		{Name: "e", Type: xNamed("E0")},
		{Name: "l", Type: xList(xNamed("Int"))},
	}})
	add(&xType{Name: "In1", Kind: "input", Inputs: []xArg{
		{Name: "x", Type: xNamed("String"), Default: "dx", HasDef: true},
		{Name: "in", Type: xNamed("In0")},
		{Name: "ins", Type: xList(xNonNull(xNamed("In0")))},
	}})
	nObj := 2 + r.Intn(3)
	objs := []string{}
	for i := 0; i < nObj; i++ {
		objs = append(objs, fmt.Sprintf("O%d", i))
	}
	pool := func(name string, t *xTy, args ...xArg) {
		s.Pool[name] = &xField{Name: name, Type: t, Args: args}
		s.PoolKeys = append(s.PoolKeys, name)
	}
	// leaves
	pool("s0", xNamed("String"))
	pool("s1", xNamed("String"))
	pool("i0", xNamed("Int"))
	pool("i1", xNonNull(xNamed("Int")))
	pool("f0", xNamed("Float"))
	pool("f1", xNonNull(xNamed("Float")))
	pool("lf", xList(xNamed("Float")))
	pool("b0", xNamed("Boolean"))
	pool("id0", xNamed("ID"))
	pool("e0", xNamed("E0"))
	pool("ne0", xNonNull(xNamed("E0")))
	pool("li", xList(xNamed("Int")))
	pool("lni", xList(xNonNull(xNamed("Int"))))
	pool("nls", xNonNull(xList(xNamed("String"))))
	pool("lli", xList(xList(xNamed("Int"))))
	// leaves with arguments
	pool("fa", xNamed("Int"), xArg{Name: "n", Type: xNamed("Int"), Default: 3, HasDef: true})
	pool("fb", xNamed("String"), xArg{Name: "s", Type: xNonNull(xNamed("String"))}, xArg{Name: "e", Type: xNamed("E0"), Default: 2, HasDef: true})
	pool("fc", xNamed("String"), xArg{Name: "in", Type: xNamed("In0")})
	pool("fd", xNamed("Int"), xArg{Name: "l", Type: xList(xNonNull(xNamed("Int")))}, xArg{Name: "ll", Type: xList(xList(xNamed("Int")))})
	pool("fe", xNamed("Int"), xArg{Name: "o", Type: xNamed("Odd")}, xArg{Name: "id", Type: xNamed("ID")}, xArg{Name: "f", Type: xNamed("Float")}, xArg{Name: "b", Type: xNamed("Boolean")})
	pool("fg", xNamed("String"), xArg{Name: "in1", Type: xNamed("In1")})
	// composite
	for i, o := range objs {
		pool(fmt.Sprintf("o%d", i), xNamed(o))
		switch r.Intn(4) {
		case 0:
			pool(fmt.Sprintf("no%d", i), xNonNull(xNamed(o)))
		case 1:
			pool(fmt.Sprintf("lo%d", i), xList(xNamed(o)))
		case 2:
			pool(fmt.Sprintf("lno%d", i), xList(xNonNull(xNamed(o))))
		case 3:
			pool(fmt.Sprintf("nlo%d", i), xNonNull(xList(xNonNull(xNamed(o)))))
		}
	}
	// nested lists over objects and non-null elements (paths with several indices)
	pool("llo0", xList(xList(xNamed(objs[0]))))
	pool("llni", xList(xList(xNonNull(xNamed("Int")))))
	pool("if0", xNamed("I0"))
	pool("lif0", xList(xNamed("I0")))
	pool("u0", xNamed("U0"))
	pool("lu0", xList(xNonNull(xNamed("U0"))))
	pool("nif0", xNonNull(xNamed("I0")))

	leafNames := []string{}
	compNames := []string{}
	for _, k := range s.PoolKeys {
		tn := s.Pool[k].Type.named()
		if strings.HasPrefix(tn, "O") && tn != "Odd" || tn == "I0" || tn == "U0" {
			compNames = append(compNames, k)
		} else {
			leafNames = append(leafNames, k)
		}
	}
	pick := func(names []string, p int) []string {
		var out []string
		for _, n := range names {
			if r.Chance(p) {
				out = append(out, n)
			}
		}
		return out
	}
	// interface I0: a few leaf fields and maybe one composite
	ifFields := pick(leafNames, 20)
	if len(ifFields) == 0 {
		ifFields = []string{"s0"}
	}
	if r.Bool() {
		ifFields = append(ifFields, compNames[r.Intn(len(compNames))])
	}
	add(&xType{Name: "I0", Kind: "interface", Fields: ifFields})
	implementers := []string{}
	for i, o := range objs {
		fs := pick(leafNames, 45)
		fs = append(fs, pick(compNames, 40)...)
		if len(fs) == 0 {
			fs = []string{"s0"}
		}
		t := &xType{Name: o, Kind: "object"}
		if i == 0 || r.Chance(60) {
			t.Ifaces = []string{"I0"}
			implementers = append(implementers, o)
			for _, f := range ifFields {
				found := false
				for _, g := range fs {
					if g == f {
						found = true
					}
				}
				if !found {
					fs = append(fs, f)
				}
			}
		}
		t.Fields = fs
		add(t)
	}
	// union U0: at least one member
	members := []string{}
	for _, o := range objs {
		if r.Chance(60) {
			members = append(members, o)
		}
	}
	if len(members) == 0 {
		members = []string{objs[0]}
	}
	add(&xType{Name: "U0", Kind: "union", Members: members})
	rootFields := func() []string {
		fs := pick(leafNames, 50)
		fs = append(fs, pick(compNames, 70)...)
		if len(fs) == 0 {
			fs = []string{"s0", "o0"}
		}
		return fs
	}
	add(&xType{Name: "Q", Kind: "object", Fields: rootFields()})
	add(&xType{Name: "M", Kind: "object", Fields: rootFields()})
	return s
}

// ---- building the graphql.Schema ----

type xBuilt struct {
	Schema graphql.Schema
	Types  map[string]graphql.Type
}

type xHooks struct {
	OmitResolve bool // object types other than the roots get no Resolve function: DefaultResolveFn delegates to sources implementing graphql.FieldResolver
	IsTypeOf    func(p graphql.IsTypeOfParams, object string) bool
	Resolve     func(p graphql.ResolveParams) (interface{}, error)
	ResolveType func(p graphql.ResolveTypeParams, abstract string) *graphql.Object
}

func (s *xSchema) build(h *xHooks) (*xBuilt, error) {
	b := &xBuilt{Types: map[string]graphql.Type{
		"Int": graphql.Int, "Float": graphql.Float, "String": graphql.String, "Boolean": graphql.Boolean, "ID": graphql.ID, "Odd": xOddScalar(),
	}}
	var conv func(t *xTy) graphql.Type
	conv = func(t *xTy) graphql.Type {
		switch t.Kind {
		case "list":
			return graphql.NewList(conv(t.Of))
		case "nonnull":
			return graphql.NewNonNull(conv(t.Of))
		}
		return b.Types[t.Name]
	}
	// enums and input objects first
	for _, t := range s.Types {
		switch t.Kind {
		case "enum":
			vals := graphql.EnumValueConfigMap{}
			for _, v := range t.Vals {
				vals[v.Name] = &graphql.EnumValueConfig{Value: v.Value}
			}
			b.Types[t.Name] = graphql.NewEnum(graphql.EnumConfig{Name: t.Name, Values: vals})
		}
	}
	for _, t := range s.Types {
		if t.Kind == "input" {
			t := t
			b.Types[t.Name] = graphql.NewInputObject(graphql.InputObjectConfig{Name: t.Name, Fields: graphql.InputObjectConfigFieldMapThunk(func() graphql.InputObjectConfigFieldMap {
				m := graphql.InputObjectConfigFieldMap{}
				for _, a := range t.Inputs {
					f := &graphql.InputObjectFieldConfig{Type: conv(a.Type)}
					if a.HasDef {
						f.DefaultValue = a.Default
					}
					m[a.Name] = f
				}
				return m
			})})
		}
	}
	fieldsOf := func(t *xType) graphql.Fields {
		fs := graphql.Fields{}
		for _, fn := range t.Fields {
			pf := s.Pool[fn]
			f := &graphql.Field{Type: conv(pf.Type), Resolve: h.Resolve}
			if h.OmitResolve && t.Kind == "object" && t.Name != "Q" && t.Name != "M" {
				f.Resolve = nil
			}
			if len(pf.Args) > 0 {
				f.Args = graphql.FieldConfigArgument{}
				for _, a := range pf.Args {
					ac := &graphql.ArgumentConfig{Type: conv(a.Type)}
					if a.HasDef {
						ac.DefaultValue = a.Default
					}
					f.Args[a.Name] = ac
				}
			}
			fs[fn] = f
		}
		return fs
	}
	for _, t := range s.Types {
		t := t
		switch t.Kind {
		case "interface":
			b.Types[t.Name] = graphql.NewInterface(graphql.InterfaceConfig{Name: t.Name,
				Fields:      graphql.FieldsThunk(func() graphql.Fields { return fieldsOf(t) }),
				ResolveType: func(p graphql.ResolveTypeParams) *graphql.Object { return h.ResolveType(p, t.Name) }})
		}
	}
	for _, t := range s.Types {
		t := t
		if t.Kind == "object" {
			var isTypeOf graphql.IsTypeOfFn
			if h.IsTypeOf != nil && t.Name != "Q" && t.Name != "M" {
				isTypeOf = func(p graphql.IsTypeOfParams) bool { return h.IsTypeOf(p, t.Name) }
			}
			b.Types[t.Name] = graphql.NewObject(graphql.ObjectConfig{Name: t.Name, IsTypeOf: isTypeOf,
				Fields: graphql.FieldsThunk(func() graphql.Fields { return fieldsOf(t) }),
				Interfaces: graphql.InterfacesThunk(func() []*graphql.Interface {
					var is []*graphql.Interface
					for _, i := range t.Ifaces {
						is = append(is, b.Types[i].(*graphql.Interface))
					}
					return is
				})})
		}
	}
	for _, t := range s.Types {
		t := t
		if t.Kind == "union" {
			var ms []*graphql.Object
			for _, m := range t.Members {
				ms = append(ms, b.Types[m].(*graphql.Object))
			}
			b.Types[t.Name] = graphql.NewUnion(graphql.UnionConfig{Name: t.Name, Types: ms,
				ResolveType: func(p graphql.ResolveTypeParams) *graphql.Object { return h.ResolveType(p, t.Name) }})
		}
	}
	var extra []graphql.Type
	for _, t := range s.Types {
		if t.Kind == "object" && t.Name != "Q" && t.Name != "M" {
			extra = append(extra, b.Types[t.Name])
		}
	}
	sc, err := graphql.NewSchema(graphql.SchemaConfig{
		Query:    b.Types["Q"].(*graphql.Object),
		Mutation: b.Types["M"].(*graphql.Object),
		Types:    extra,
	})
	if err != nil {
		return nil, err
	}
	b.Schema = sc
	return b, nil
}
